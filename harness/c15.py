"""C15 — serialising and deserialising any supported object preserves its meaning.

Every case is a JSON *spec* from which a Perceval object `x` is built with the public constructors.
The real code is then run through the entry points of the property
(`serialize`/`deserialize` with and without compression, `serialize_binary`/`deserialize_circuit`,
`serialize_to_file`/`deserialize_file`) and three things are compared:

 (i)   a canonical field dump of the protobuf message / text the writer produced
       against the Lean model's `encode` (Model/C15.lean, main model = all repairs present);
 (ii)  a canonical description of the object the reader returned (or "raised") against the
       model's `decode ∘ encode`;
 (iii) the property itself on the real code, independent of Lean: same structure, names and
       values; every variable name is one `Parameter` object; after changing every variable *once
       per name* on both sides the matrices are equal; states/distributions equal within the 1e-6
       text grid; experiments keep filter (0 included), heralds, ports (first-mode tables, per-mode
       `get_input_port` / `get_output_port` tables, `in_port_names` / `out_port_names`), detectors, noise,
       input, post-selection (`==`, text and truth table on states chosen from its conditions).

Ports of an experiment are generated as a history of declarations over Port OBJECTS (`gen_ports`): the same object
may be declared at the input and at the output on different modes, two objects may cross, an IN_OUT port may lose
its output side to a component added with `keep_port=False` and be declared again elsewhere.

Feed-forward configurators (FFCircuitProvider / FFConfigurator) are generated stand-alone, in containers,
nested in the experiments a provider holds, and inside experiments (where `Experiment.add` freezes their
circuit size).  A provider is built by a *history* of `add_configuration` / `block_circuit_size` calls; which
calls raise, the state of the object, the message and the rebuilt object are compared with
Model/C15FF.lean (op `ffcp`), the rest (payload circuits, value tables, `config_modes`, `configure`, the
derived flags of the enclosing experiment, one Parameter object per name) by the direct oracle.

The text formats (states with annotations, state vectors, the three distributions, sample lists) are compared
character by character with Model/C15Text.lean (`c15_text.py`: abstract syntax read through the object's API, model
writer vs payload, model reader vs rebuilt object, damaged / respelled texts for both readers); post-selection
expressions are generated as syntax trees (`c15_ps.py`, Model/C15PS.lean); dict/list trees with object keys and every
form of `compress` (`c15_tree.py`, Model/C15Tree.lean); FFConfigurator value tables and the 32-bit float conversion
(`c15_ffv.py`, Model/C15F32.lean, Model/C15FF.lean namespace FFC).

A failing (iii) is a `violation`; a disagreement with the model while (iii) holds is `broken`.
A malformed stream (tampered messages) ties the rejection branches of the readers to the model.
"""
from __future__ import annotations

import base64
import copy
import glob
import json
import math
import os
import tempfile
import zlib
from fractions import Fraction

import numpy as np

from . import core
from . import c15_text
from . import c15_ps
from . import c15_tree
from . import c15_ffv
from . import c15_det
from . import c15_noise

FIXED = [True, True, True, True]
FLAGS = ["unitary-fields", "filter-zero", "shared-table", "expression"]
TAG_OF = {"det": "Detector", "ppnr": "BSLayeredDetector"}

NAMES = ["a", "b", "c", "phi", "theta", "x1", "alpha_2", "t"]
KINDS = ["bs_rx", "bs_ry", "bs_h", "ps", "wp", "hwp", "qwp", "pr"]
NSLOT = {"bs_rx": 5, "bs_ry": 5, "bs_h": 5, "ps": 2, "wp": 2, "hwp": 1, "qwp": 1, "pr": 1, "td": 1, "lc": 1}


def pc():
    import perceval as pcvl
    return pcvl


# ------------------------------------------------------------------------------------------------
# exact descriptions of real objects (the model's abstract syntax)
# ------------------------------------------------------------------------------------------------
def rat(v):
    return core.rat(float(v))


def desc_param(p):
    from perceval.utils import Expression
    if isinstance(p, Expression):
        return {"k": "expr", "e": str(p._symbol),
                "subs": [{"n": q.name, "fixed": q._symbol is None,
                          "v": None if q._value is None else rat(q._value)} for q in p.parameters]}
    if p._symbol is None:
        return {"k": "fixed", "v": rat(float(p))}
    return {"k": "var", "n": p.name, "v": None if p._value is None else rat(p._value)}


def desc_matrix(m):
    m = np.array(m)
    return {"num": [[[rat(z.real), rat(z.imag)] for z in row] for row in m.tolist()]}


def desc_comp(c):
    import perceval.components.unitary_components as comp
    import perceval.components.non_unitary_components as nu
    from perceval.components import Circuit
    if is_ff(c):
        return desc_ff(c)
    if isinstance(c, comp.BS):
        kind = {"Rx": "bs_rx", "Ry": "bs_ry", "H": "bs_h"}[c.convention.name]
        return {"t": "leaf", "kind": kind,
                "ps": [desc_param(p) for p in (c._theta, c._phi_tl, c._phi_bl, c._phi_tr, c._phi_br)]}
    if isinstance(c, comp.PS):
        return {"t": "leaf", "kind": "ps", "ps": [desc_param(c._phi), desc_param(c._max_error)]}
    if isinstance(c, comp.HWP):
        return {"t": "leaf", "kind": "hwp", "ps": [desc_param(c._xsi)]}
    if isinstance(c, comp.QWP):
        return {"t": "leaf", "kind": "qwp", "ps": [desc_param(c._xsi)]}
    if isinstance(c, comp.WP):
        return {"t": "leaf", "kind": "wp", "ps": [desc_param(c._delta), desc_param(c._xsi)]}
    if isinstance(c, comp.PR):
        return {"t": "leaf", "kind": "pr", "ps": [desc_param(c._delta)]}
    if isinstance(c, nu.TD):
        return {"t": "leaf", "kind": "td", "ps": [desc_param(c._dt)]}
    if isinstance(c, nu.LC):
        return {"t": "leaf", "kind": "lc", "ps": [desc_param(c._loss)]}
    if isinstance(c, comp.PBS):
        return {"t": "pbs"}
    if isinstance(c, comp.PERM):
        return {"t": "perm", "p": [int(v) for v in c.perm_vector]}
    if isinstance(c, comp.Unitary):
        return {"t": "unitary", "mat": desc_matrix(c.U), "name": c.name, "pol": bool(c.requires_polarization)}
    if isinstance(c, comp.Barrier):
        return {"t": "barrier", "m": c.m, "visible": bool(c.visible)}
    if isinstance(c, Circuit):
        return {"t": "circ", "m": c.m, "name": c.name,
                "items": [{"off": r[0], "c": desc_comp(sub)} for r, sub in c._components]}
    raise TypeError(f"cannot describe {type(c).__name__}")


def is_ff(c):
    from perceval.components import AFFConfigurator
    return isinstance(c, AFFConfigurator)


def f32(v):
    """a configuration value of an FFConfigurator travels as a protobuf `float` (32 bits)"""
    return rat(float(np.float32(v)))


def desc_coe(v):
    """what a circuit provider holds: a circuit (written wrapped in a `Circuit`) or an experiment"""
    from perceval.components import Experiment
    if isinstance(v, Experiment):
        return {"e": desc_experiment(v)}
    return {"c": wrap_desc(v, desc_comp(v))}


def desc_ff(c):
    from perceval.components import FFCircuitProvider
    base = {"m": c.m, "name": c.name, "offset": c._offset, "blocked": bool(c._blocked_circuit_size),
            "max": c._max_circuit_size}
    if isinstance(c, FFCircuitProvider):
        return dict(base, t="ffcp", default=desc_coe(c.default_circuit),
                    map=sorted([[str(k), desc_coe(v)] for k, v in c._map.items()], key=lambda t: t[0]))
    return dict(base, t="ffc", controlled=wrap_desc(c._controlled, desc_comp(c._controlled)),
                linked=sorted(c._linked_vars),
                default_config=sorted([n, f32(v)] for n, v in c._default_config.items()),
                configs=sorted([[str(k), sorted([n, f32(v)] for n, v in cfg.items())]
                                for k, cfg in c._configs.items()], key=lambda t: t[0]))


def ff_payloads(c):
    """the circuits / experiments a feed-forward configurator holds"""
    from perceval.components import FFCircuitProvider
    if isinstance(c, FFCircuitProvider):
        return [c.default_circuit] + list(c._map.values())
    return [c._controlled]


def norm_desc(d):
    """`norm`: the `fixed` flag of an expression's sub-parameter is not on the wire."""
    if isinstance(d, dict):
        if d.get("k") == "expr":
            return {"k": "expr", "e": d["e"], "subs": [dict(s, fixed=False) for s in d["subs"]]}
        return {k: norm_desc(v) for k, v in d.items()}
    if isinstance(d, list):
        return [norm_desc(v) for v in d]
    return d


def wrap_desc(x, dx):
    from perceval.components import Circuit
    if isinstance(x, Circuit):
        return dx
    return {"t": "circ", "m": x.m, "name": "CPLX", "items": [{"off": 0, "c": dx}]}


def param_objects(c, out=None):
    """every plain `Parameter` object reachable from the component tree, by id"""
    from perceval.utils import Expression
    from perceval.components import Circuit
    if out is None:
        out = {}
    if isinstance(c, Circuit):
        for _, sub in c._components:
            param_objects(sub, out)
        return out
    for p in getattr(c, "_params", {}).values():
        if isinstance(p, Expression):
            for q in p._params:
                out[id(q)] = q
        else:
            out[id(p)] = p
    return out


def variables(c):
    return [p for p in param_objects(c).values() if p._symbol is not None]


def named_params(c):
    """variables, plus fixed `Parameter`s used inside an expression (they come back as variables with a value)"""
    from perceval.utils import Expression
    from perceval.components import Circuit
    out = {}

    def go(c):
        if isinstance(c, Circuit):
            for _, sub in c._components:
                go(sub)
            return
        for p in getattr(c, "_params", {}).values():
            if isinstance(p, Expression):
                for q in p._params:
                    out[id(q)] = q
            elif p._symbol is not None:
                out[id(p)] = p
    go(c)
    return list(out.values())


def expr_values(c, out=None):
    """[[expression text, float(expression)]] for every expression whose sub-parameters all have a value"""
    from perceval.utils import Expression
    from perceval.components import Circuit
    if out is None:
        out = {}
    if isinstance(c, Circuit):
        for _, sub in c._components:
            expr_values(sub, out)
        return out
    for p in getattr(c, "_params", {}).values():
        if isinstance(p, Expression) and p.defined:
            out[str(p._symbol)] = rat(float(p))
    return out


# ------------------------------------------------------------------------------------------------
# canonical dumps of the protobuf messages the writer produced
# ------------------------------------------------------------------------------------------------
def dump_ptype(p):
    t = p.WhichOneof("type")
    if t is None:
        return ["unset"]
    if t == "real_value":
        return ["real", rat(p.real_value)]
    if t == "symbol":
        return ["symbol", p.symbol]
    return ["expression", p.expression]


def dump_param(p):
    return {"type": dump_ptype(p), "name": p.name,
            "subs": [{"type": dump_ptype(q), "name": q.name} for q in p.expr_parameters]}


def dump_mat(m):
    which = m.WhichOneof("data")
    if which == "numeric":
        data = ["numeric", [[rat(z.real_value), rat(z.imaginary_value)] for z in m.numeric.data]]
    elif which == "symbolic":
        data = ["symbolic", [q.expression for q in m.symbolic.data]]
    else:
        data = ["unset"]
    return {"rows": m.rows, "cols": m.cols, "data": data}


LEAF_FIELDS = {
    "beam_splitter": ["theta", "phi_tl", "phi_bl", "phi_tr", "phi_br"],
    "phase_shifter": ["phi", "max_error"],
    "wave_plate": ["delta", "xsi"], "half_wave_plate": ["delta", "xsi"], "quarter_wave_plate": ["delta", "xsi"],
    "polarization_rotator": ["delta"], "time_delay": ["dt"], "loss_channel": ["loss"],
}


def dump_circuit(pbc):
    return {"circuit": {"name": pbc.name, "n_mode": pbc.n_mode, "comps": [dump_comp(c) for c in pbc.components]}}


def dump_type(c):
    t = c.WhichOneof("type")
    if t is None:
        return {"unset": True}
    sub = getattr(c, t)
    if t == "circuit":
        return dump_circuit(sub)
    if t in LEAF_FIELDS:
        return {"leaf": t, "conv": int(sub.convention) if t == "beam_splitter" else 0,
                "slots": [dump_param(getattr(sub, f)) if sub.HasField(f) else None for f in LEAF_FIELDS[t]]}
    if t == "permutation":
        return {"perm": [int(v) for v in sub.permutations]}
    if t == "unitary":
        return {"unitary": {"mat": dump_mat(sub.mat) if sub.HasField("mat") else None, "name": sub.name,
                            "pol": bool(sub.use_polarization)}}
    if t == "polarized_beam_splitter":
        return {"pbs": True}
    if t == "barrier":
        return {"barrier": bool(sub.visible)}
    if t == "ff_circuit_provider":
        d = sub.WhichOneof("default_circuit")
        return {"ffcp": {"name": sub.name, "offset": sub.offset, "block": bool(sub.block_circuit_size),
                         "default": {"unset": True} if d is None else dump_coe(sub, d),
                         "configs": sorted([[k, dump_coe(v, v.WhichOneof("type"))] for k, v in sub.config_circ.items()],
                                           key=lambda t: t[0])},
                "wire": [k for k, _ in sub.config_circ.items()]}
    if t == "ff_configurator":
        return {"ffc": {"name": sub.name, "offset": sub.offset, "block": bool(sub.block_circuit_size),
                        "controlled": dump_circuit(sub.controlled_circuit) if sub.HasField("controlled_circuit") else None,
                        "default_config": dump_vars(sub.default_config),
                        "configs": sorted([[k, dump_vars(v)] for k, v in sub.configs.items()], key=lambda t: t[0])}}
    raise TypeError(f"message type {t} is outside the model")


def dump_coe(holder, which):
    if which is None:
        return {"unset": True}
    if which == "circuit":
        return dump_circuit(holder.circuit)
    return {"experiment": dump_experiment(holder.experiment)}


def dump_vars(v):
    return sorted([k, rat(float(x))] for k, x in v.mapping.items())


def is_ff_dump(c):
    return "ffcp" in c["t"] or "ffc" in c["t"]


def pb_payload_size(d):
    """mode count (`.m`) of a dumped circuit-or-experiment"""
    if "circuit" in d:
        return d["circuit"]["n_mode"]
    if "experiment" in d:
        e = d["experiment"]
        return e["n_mode"] - sum(1 for _, p in e["in"] if p[0] == "herald")
    return None


def dump_comp(c):
    return {"start": c.starting_mode, "n": c.n_mode, "t": dump_type(c)}


def dump_det(d):
    t = d.WhichOneof("type")
    if t is None:
        return ["unset"]
    if t == "detector":
        return dump_detector(d.detector)
    return dump_ppnr(d.ppnr)


def dump_detector(d):
    return ["detector", d.name, d.n_wires, d.max_detections]


def dump_ppnr(d):
    return ["ppnr", d.name, d.bs_layers, rat(d.reflectivity)]


def dump_aport(p):
    t = p.WhichOneof("type")
    if t is None:
        return ["unset"]
    if t == "port":
        return ["port", p.port.name, p.port.encoding]
    return ["herald", bool(p.herald.autogenerated_name), p.herald.name, p.herald.value]


def dump_experiment(e):
    return {"input_state": e.input_state, "name": e.name, "noise_model": e.noise_model, "post_select": e.post_select,
            "in": [[i, dump_aport(p)] for i, p in sorted(e.input_ports.items())],
            "out": [[i, dump_aport(p)] for i, p in sorted(e.output_ports.items())],
            "dets": [[i, dump_det(d)] for i, d in sorted(e.detectors.items())],
            "n_mode": e.n_mode, "comps": [dump_comp(c) for c in e.components], "filter": e.min_photons_filter}


# ------------------------------------------------------------------------------------------------
# the harness' own envelope reader (independent of the code under test)
# ------------------------------------------------------------------------------------------------
def open_text(s):
    """-> (tag, payload, was_compressed, uncompressed text)"""
    z = False
    if s.startswith(":PCVL:zip:"):
        s = zlib.decompress(base64.b64decode(s[len(":PCVL:zip:"):])).decode("utf-8")
        z = True
    assert s.startswith(":PCVL:"), s[:20]
    rest = s[len(":PCVL:"):]
    i = rest.index(":")
    return rest[:i], rest[i + 1:], z, s


def pb_of(cls, payload):
    msg = cls()
    msg.ParseFromString(base64.b64decode(payload))
    return msg


# ------------------------------------------------------------------------------------------------
# building objects from specs
# ------------------------------------------------------------------------------------------------
class Builder:
    def __init__(self, env):
        self.env = env
        self.params = {}
        self.exprs = {}
        self.mats = {}
        self.ffs = []      # one record per feed-forward configurator built (spec, object, calls that raised, sizes)

    def var(self, name):
        if name not in self.params:
            self.params[name] = pc().P(name)
        return self.params[name]

    def param(self, s):
        if s["k"] == "fixed":
            return s["v"]
        if s["k"] == "var":
            return self.var(s["n"])
        if s["k"] == "fixedsub":   # an expression over one *fixed* Parameter (no symbol)
            key = ("fs", s["e"])
            if key not in self.exprs:
                self.exprs[key] = pc().Expression(s["e"], {pc().P(s["n"], s["v"])})
            return self.exprs[key]
        key = s["e"]
        if key not in self.exprs:
            self.exprs[key] = pc().Expression(s["e"], {self.var(n) for n in s["subs"]})
        return self.exprs[key]

    def unitary(self, s):
        pcvl = pc()
        n = s["n"]
        if s["style"] == "perm":
            rs = np.random.RandomState(s["seed"])
            u = np.zeros((n, n), dtype=complex)
            for i, v in enumerate(rs.permutation(n)):
                u[v, i] = 1
            u = pcvl.Matrix(u)
        else:
            pcvl.random_seed(s["seed"])
            u = pcvl.Matrix.random_unitary(n)
        if s.get("layout") == "T":
            u = u.T
        elif s.get("layout") == "H":
            u = u.conj().T
        kw = {}
        if s.get("name") is not None:
            kw["name"] = s["name"]
        if s.get("pol"):
            kw["use_polarization"] = True
        return pcvl.Unitary(u, **kw)

    def comp(self, s):
        import perceval.components as C
        from perceval.components import BSConvention
        t = s["t"]
        if t == "leaf":
            k = s["kind"]
            ps = [self.param(p) for p in s["ps"]]
            if k.startswith("bs"):
                conv = {"bs_rx": BSConvention.Rx, "bs_ry": BSConvention.Ry, "bs_h": BSConvention.H}[k]
                if s.get("default"):
                    return C.BS(convention=conv)
                return C.BS(theta=ps[0], phi_tl=ps[1], phi_bl=ps[2], phi_tr=ps[3], phi_br=ps[4], convention=conv)
            if k == "ps":
                return C.PS(ps[0]) if s.get("default") else C.PS(ps[0], ps[1])
            return {"wp": C.WP, "hwp": C.HWP, "qwp": C.QWP, "pr": C.PR, "td": C.TD, "lc": C.LC}[k](*ps)
        if t == "perm":
            return C.PERM(list(s["p"]))
        if t == "unitary":
            return self.unitary(s)
        if t == "pbs":
            return C.PBS()
        if t == "barrier":
            return C.Barrier(s["m"], s["visible"])
        if t in ("ffcp", "ffc"):
            return self.ff(s)
        if t == "circ":
            c = C.Circuit(s["m"]) if s.get("name") is None else C.Circuit(s["m"], name=s["name"])
            for it in s["items"]:
                sub = self.comp(it["c"])
                c.add(it["off"], sub, merge=bool(it.get("merge", False)))
                if it.get("twice"):
                    c.add(it["off"], sub, merge=False)
            return c
        raise ValueError(t)

    def coe(self, s):
        """a circuit (`c`) or an experiment (`e`) sharing this builder's parameters"""
        if "c" in s:
            return self.comp(s["c"])
        return build_experiment(s["e"], self)

    def ff(self, s):
        from perceval.components import FFCircuitProvider, FFConfigurator
        from perceval.utils import BasicState
        rec = {"spec": s, "raised": [], "sizes": {}, "ids": {}, "placed": False}
        if s["t"] == "ffcp":
            d = self.coe(s["default"])
            f = FFCircuitProvider(s["m"], s["offset"], d, s.get("name"))
            rec["default_size"] = d.m
            for i, op in enumerate(s["ops"]):
                if op[0] == "block":
                    f.block_circuit_size()
                    continue
                c = self.coe(op[2])
                rec["sizes"][i] = c.m
                try:
                    f.add_configuration(BasicState(op[1]), c)
                    rec["ids"][str(BasicState(op[1]))] = i + 1
                except RuntimeError:       # "Circuit size mismatch": the caller catches it and goes on
                    rec["raised"].append(i)
        else:
            f = FFConfigurator(s["m"], s["offset"], self.comp(s["controlled"]), dict(s["default_config"]),
                               s.get("name"))
            for st, cfg in s["configs"]:
                f.add_configuration(BasicState(st), dict(cfg))
            if s.get("block"):
                f.block_circuit_size()
        rec["obj"] = f
        self.ffs.append(rec)
        return f

    def finish(self):
        for name, v in self.env.items():
            if v is not None and name in self.params:
                self.params[name].set_value(v)


def comp_size(s):
    t = s["t"]
    if t == "leaf":
        return 2 if s["kind"].startswith("bs") else 1
    if t == "perm":
        return len(s["p"])
    if t == "unitary":
        return s["n"] // 2 if s.get("pol") else s["n"]
    if t == "pbs":
        return 2
    return s["m"]


# ------------------------------------------------------------------------------------------------
# generators (all randomness from chk.rng)
# ------------------------------------------------------------------------------------------------
def gen_value(rng, kind, slot):
    """a float a constructor accepts for that slot; falsy values on purpose"""
    r = rng.random()
    if r < 0.15:
        return 0.0
    if kind == "lc":
        return rng.choice([1.0, 0.5, rng.random()])
    if kind == "td":
        return rng.choice([1.0, 2.0, rng.random() * 3])
    if kind == "ps" and slot == 1:
        return rng.choice([0.0, 0.0, rng.random() * 3, 1e-3])
    if kind in ("wp", "hwp", "qwp", "pr"):
        return rng.uniform(-3.0, 3.0)
    if r < 0.25:
        return rng.choice([math.pi, math.pi / 2, 2 * math.pi - 1e-9, 1e-12, 7.5, -0.25])
    return rng.uniform(0, 6.2)


def gen_param(rng, kind, slot, names, p_var):
    r = rng.random()
    if r < p_var and kind not in ("td", "lc"):
        r2 = rng.random()
        if r2 < 0.55:
            return {"k": "var", "n": rng.choice(names)}
        a, b = rng.choice(names), rng.choice(names)
        if r2 < 0.6:
            k = rng.choice(["k0", "k1"])
            return {"k": "fixedsub", "e": f"2*{k}", "n": k, "v": round(rng.random(), 3)}
        if a == b or rng.random() < 0.5:
            e = rng.choice([f"2*{a}", f"{a}/2", f"-{a}", f"{a}**2", f"{a}+1"])
            return {"k": "expr", "e": e, "subs": [a]}
        e = rng.choice([f"{a}+{b}", f"{a}*{b}", f"{a}-{b}", f"{a}/2+{b}"])
        return {"k": "expr", "e": e, "subs": sorted({a, b})}
    return {"k": "fixed", "v": gen_value(rng, kind, slot)}


def gen_leaf(rng, names, p_var, pol, kinds=None):
    kind = rng.choice(kinds or (KINDS if pol else KINDS[:4]))
    s = {"t": "leaf", "kind": kind, "ps": [gen_param(rng, kind, i, names, p_var) for i in range(NSLOT[kind])]}
    if kind in ("bs_rx", "bs_ry", "bs_h", "ps") and rng.random() < 0.08:
        s["default"] = True       # constructor defaults (sympy pi/2, max_error default)
    if kind.startswith("bs") and rng.random() < 0.15 and s["ps"][0]["k"] == "expr":
        s["ps"][rng.randint(1, 4)] = copy.deepcopy(s["ps"][0])   # one expression in two slots
    return s


def gen_comp(rng, m, depth, names, p_var, pol):
    """a component of size ≤ m"""
    r = rng.random()
    if depth > 0 and m >= 1 and r < 0.35:
        k = rng.randint(1, m)
        return gen_circ(rng, k, depth - 1, names, p_var, pol, named=rng.random() < 0.5)
    if r < 0.45 and m >= 2:
        n = rng.randint(2, min(m, 4))
        p = list(range(n))
        rng.shuffle(p)
        return {"t": "perm", "p": p}
    if r < 0.6:
        k = rng.randint(1, min(m, 3))
        use_pol = pol and rng.random() < 0.5
        return {"t": "unitary", "n": 2 * k if use_pol else k, "seed": rng.randint(0, 10 ** 6),
                "style": rng.choice(["haar", "haar", "perm"]), "layout": rng.choice([None, None, "T", "H"]),
                "name": rng.choice([None, None, "U1", "my unitary", "Unitary", "CPLX"]), "pol": use_pol}
    if r < 0.65 and pol and m >= 2:
        return {"t": "pbs"}
    if r < 0.7:
        return {"t": "barrier", "m": rng.randint(1, m), "visible": rng.random() < 0.5}
    leaf = gen_leaf(rng, names, p_var, pol)
    if comp_size(leaf) > m:
        leaf = gen_leaf(rng, names, p_var, pol, kinds=["ps"])
    return leaf


def gen_circ(rng, m, depth, names, p_var, pol, named=False, max_items=5):
    items = []
    for _ in range(rng.randint(0 if depth < 2 else 1, max_items)):
        c = gen_comp(rng, m, depth, names, p_var, pol)
        k = comp_size(c)
        it = {"off": rng.randint(0, m - k), "c": c}
        if c["t"] == "circ" and rng.random() < 0.15:
            it["merge"] = True
        if rng.random() < 0.06:
            it["twice"] = True
        items.append(it)
    return {"t": "circ", "m": m, "name": rng.choice(["sub", "blk A", "CPLX", "x"]) if named else None, "items": items}


def gen_env(rng, names):
    return {n: (None if rng.random() < 0.5 else round(rng.random(), 6)) for n in names}


ENTRIES = ["text", "textz", "binary", "b64", "file", "filez"]


def gen_circuit_case(rng, depth_max, m_max):
    names = rng.sample(NAMES, rng.randint(1, 3))
    pol = rng.random() < 0.3
    m = rng.randint(1, m_max)
    r = rng.random()
    if r < 0.8:
        c = gen_circ(rng, m, rng.randint(0, depth_max), names, rng.choice([0.0, 0.5, 0.9]), pol,
                     named=rng.random() < 0.3, max_items=6)
    else:   # a bare component
        c = gen_comp(rng, m, 0, names, 0.5, pol)
    return {"fam": "circuit", "c": c, "env": gen_env(rng, names), "entry": rng.choice(ENTRIES)}


def gen_det(rng):
    r = rng.random()
    if r < 0.25:
        return {"ppnr": [rng.randint(1, 4), rng.choice([0.0, 0.5, 1.0, round(rng.random(), 3)])],
                "name": rng.choice([None, "d0", ""])}
    if r < 0.45:
        return {"det": [None, rng.choice([None, None, 3])], "name": rng.choice(["PNR", "PNR2", ""])}
    w = rng.randint(1, 6)
    return {"det": [w, rng.choice([None, rng.randint(1, w)])], "name": rng.choice(["PPNR", "thr", ""])}


def build_det(s):
    pcvl = pc()
    if "ppnr" in s:
        d = pcvl.BSLayeredPPNR(s["ppnr"][0], s["ppnr"][1])
    else:
        d = pcvl.Detector(s["det"][0], s["det"][1])
    if s.get("name") is not None:
        d.name = s["name"]
    return d


def desc_det(d):
    from perceval.components import BSLayeredPPNR
    if isinstance(d, BSLayeredPPNR):
        return {"ppnr": [d.name, d._layers, rat(d._r)]}
    return {"det": [d.name, d._wires, d.max_detections]}


def gen_state_text(rng, m, style=None):
    style = style or rng.choice(["plain", "plain", "annot", "pol", "tag"])
    modes = []
    for _ in range(m):
        n = rng.choice([0, 0, 1, 1, 2, 3])
        if style == "plain" or n == 0:
            modes.append(str(n))
        elif style == "annot":
            modes.append("".join("{_:%d}" % rng.randint(0, 2) for _ in range(n)))
        elif style == "pol":
            modes.append("".join("{P:%s}" % rng.choice("HVDALR") for _ in range(n)))
        else:
            modes.append("".join(rng.choice(["{a:1}", "{a:2,b:1}", "{_:1}", "{_:0}"]) for _ in range(n)))
    return "|" + ",".join(modes) + ">"


def gen_prob_list(rng, k):
    ws = []
    for _ in range(k):
        r = rng.random()
        ws.append(r if rng.random() < 0.7 else r * 10 ** (-rng.randint(2, 9)))
    if rng.random() < 0.1:
        ws[rng.randrange(k)] = 0.0
    tot = sum(ws) or 1.0
    return [w / tot for w in ws] if rng.random() < 0.8 else ws


def gen_sv(rng, m, style="plain"):
    k = rng.randint(1, 4)
    terms = []
    seen = set()
    for _ in range(k):
        st = gen_state_text(rng, m, style)
        if st in seen:
            continue
        seen.add(st)
        mag = rng.random() if rng.random() < 0.8 else rng.random() * 10 ** (-rng.randint(2, 6))
        if rng.random() < 0.3:      # exactly real / exactly imaginary amplitudes of either sign
            re_, im_ = rng.choice([(mag, 0.0), (-mag, 0.0), (0.0, mag), (0.0, -mag)])
            terms.append([st, re_, im_])
            continue
        ph = rng.choice([0, 0, math.pi, math.pi / 2, rng.uniform(0, 6.28)])
        terms.append([st, mag * math.cos(ph), mag * math.sin(ph)])
    if all(abs(t[1]) + abs(t[2]) == 0 for t in terms):
        terms[0][1] = 1.0
    return terms


def build_sv(terms):
    from perceval.utils import StateVector, BasicState
    sv = StateVector()
    for st, re, im in terms:
        sv += StateVector(BasicState(st)) * complex(re, im)
    if len(sv) == 0:     # every amplitude fell below StateVector's own threshold: the empty vector is a boundary
        raise ValueError("empty state vector")
    return sv


def gen_noise(rng):
    d = {}
    if rng.random() < 0.5:
        d["brightness"] = rng.choice([1, 1.0, 0.0, 0.25, round(rng.random(), 4)])
    if rng.random() < 0.5:
        d["indistinguishability"] = rng.choice([1.0, 0.0, 0, 0.92])
    if rng.random() < 0.5:
        d["g2"] = rng.choice([0, 0.0, 0.01, 1.0])
    if rng.random() < 0.5:
        d["g2_distinguishable"] = rng.random() < 0.5
    if rng.random() < 0.4:
        d["transmittance"] = rng.choice([1.0, 0.0, 0.06])
    if rng.random() < 0.4:
        d["phase_imprecision"] = rng.choice([0, 0.0, 1e-3, 2.5])
    if rng.random() < 0.4:
        d["phase_error"] = rng.choice([0.0, 0.02, 0])
    return d


POSTSELECTS = ["[0]==1", "[0]<2 & [1]>0", "[0,1]==1", "([0]==0 | [1]==1) & [0,1]<3", "[1]>=1 xor [0]==1", "![0]==2"]
# for experiments also a negation as a non-last operand (stand-alone expressions: family `psx`, Model/C15PS.lean)
EXP_POSTSELECTS = POSTSELECTS + ["(![0]==2) & [1]<3"]


def gen_ps_text(rng, n_modes=None, table=POSTSELECTS):
    """the user text of a post-selection carried by another object (experiment, container, file): one of the fixed
    table or (3 in 4) an expression of the grammar of `c15_ps` - negations of single conditions and of groups,
    values of several digits, keyword spellings; `n_modes`: the mode indices stay below the size of the experiment"""
    if rng.random() < 0.25:
        return rng.choice(table)
    # one draw in two aims at a shape (a few more draws until it occurs)
    target = rng.choice([None, None, None, "not-single-multidigit", "not-single-multidigit", "not-group", "not-group"])
    for _ in range(12):
        x = c15_ps.gen_expr(rng, rng.choice([1, 1, 2, 2, 3]), wide=True, n_modes=n_modes)
        if target is None or target in c15_ps.features(x):
            break
    return c15_ps.user_text(x, rng, p_keyword=0.4)


def ps_text_branches(chk, ps, where):
    """required-branch bookkeeping for a PostSelect object carried by `where` (shapes read off its printed form)"""
    import re
    txt = str(ps)
    chk.branch(f"ps-in-{where}")
    if "! [" in txt:
        chk.branch(f"ps-in-{where}-negated-single")
    if re.search(r"! \[[^]]*\] \S+ \d\d", txt):
        chk.branch(f"ps-in-{where}-negated-single-multidigit")
    if "! (" in txt:
        chk.branch(f"ps-in-{where}-negated-group")


PORT_WIDTH = {"RAW": 1, "POLARIZATION": 1, "TIME": 1, "DUAL_RAIL": 2, "QUDIT2": 4}
PORT_SHAPES = ["in_out", "in_out", "one-sided", "one-sided", "shared-diff", "shared-diff", "shared-diff",
               "shared-same", "twin", "split", "swap", "swap", "rerouted", "rerouted"]


def gen_ports(rng, m, taken, items):
    """the port declarations of an experiment of `m` modes whose modes `taken` hold heralds.  An entry is
    `[first mode, encoding, name, location, key, early]`: entries with the same `key` (not None) register ONE Port
    object; `early` entries are declared before the components are added, the others after the heralds.
    Shapes: a port on both sides at once (IN_OUT); on one side only; one object declared on the input and on the
    output side at DIFFERENT modes (in either order), at the same modes; two distinct objects with the same name and
    encoding, one per side; two different ports (encoding, name, width) meeting on a mode, one per side; two objects
    crossing (a swap); an early IN_OUT port whose output side is removed by a
    component added with keep_port=False and declared again elsewhere.  Ports span 1, 2 or 4 modes.
    -> (entries, keep_port flag for the components, shapes used)"""
    free = {"in": set(range(m)) - set(taken), "out": set(range(m)) - set(taken)}
    touched = set()
    for it in items:
        touched |= set(range(it["off"], it["off"] + comp_size(it["c"])))
    entries, shapes = [], []
    keys = iter(range(100))
    keep_port = True

    def place(side, w, avoid=None, inside=None):
        starts = [a for a in range(m - w + 1) if all(i in free[side] for i in range(a, a + w))
                  and a != avoid and (inside is None or any(i in inside for i in range(a, a + w)))]
        return rng.choice(starts) if starts else None

    def take(side, a, w):
        free[side] -= set(range(a, a + w))

    for _ in range(rng.choice([0, 1, 1, 2, 2, 3])):
        shape = rng.choice(PORT_SHAPES)
        enc = rng.choice(["RAW", "RAW", "POLARIZATION", "DUAL_RAIL", "DUAL_RAIL", "QUDIT2", "TIME"])
        w = PORT_WIDTH[enc]
        name = rng.choice(["q0", "data", "", "qa"])
        if shape == "in_out":
            a = place("in", w)
            if a is None or not all(i in free["out"] for i in range(a, a + w)):
                continue
            take("in", a, w), take("out", a, w)
            entries.append([a, enc, name, "IN_OUT", rng.choice([None, next(keys)]), False])
        elif shape == "one-sided":
            side = rng.choice(["in", "out"])
            a = place(side, w)
            if a is None:
                continue
            take(side, a, w)
            entries.append([a, enc, name, "INPUT" if side == "in" else "OUTPUT", None, False])
        elif shape in ("shared-diff", "shared-same", "twin"):
            a = place("in", w)
            if a is None:
                continue
            if shape == "shared-same":
                b = a if all(i in free["out"] for i in range(a, a + w)) else None
            else:
                b = place("out", w, avoid=a)
            if b is None:
                continue
            take("in", a, w), take("out", b, w)
            key = next(keys) if shape != "twin" else None
            pair = [[a, enc, name, "INPUT", key, False], [b, enc, name, "OUTPUT", key, False]]
            if rng.random() < 0.4:
                pair.reverse()
            entries += pair
        elif shape == "split":      # two different ports meet on a mode: one at the input, another at the output
            a = place("in", w)
            enc2 = rng.choice([e for e in PORT_WIDTH if e != enc])
            w2 = PORT_WIDTH[enc2]
            b = None if a is None else place("out", w2, inside=set(range(a, a + w)))
            if b is None:
                continue
            take("in", a, w), take("out", b, w2)
            entries += [[a, enc, name, "INPUT", None, False], [b, enc2, rng.choice(["out", name]), "OUTPUT", None, False]]
        elif shape == "swap":
            a = place("in", w)
            if a is None:
                continue
            take("in", a, w)
            b = place("in", w)
            if b is None or not all(i in free["out"] for i in list(range(a, a + w)) + list(range(b, b + w))):
                free["in"] |= set(range(a, a + w))
                continue
            take("in", b, w), take("out", a, w), take("out", b, w)
            k1, k2, name2 = next(keys), next(keys), rng.choice(["qb", name])
            quad = [[a, enc, name, "INPUT", k1, False], [b, enc, name2, "INPUT", k2, False],
                    [b, enc, name, "OUTPUT", k1, False], [a, enc, name2, "OUTPUT", k2, False]]
            if rng.random() < 0.5:
                rng.shuffle(quad)
            entries += quad
        else:   # rerouted: needs a component on the modes of the early port
            if not touched:
                continue
            a = place("in", w, inside=touched)
            if a is None or not all(i in free["out"] for i in range(a, a + w)):
                continue
            take("in", a, w)                 # the output side is given back by the component
            b = place("out", w, avoid=a)
            if b is None:
                free["in"] |= set(range(a, a + w))
                continue
            take("out", b, w)
            keep_port = False
            key = next(keys)
            entries += [[a, enc, name, "IN_OUT", key, True], [b, enc, name, "OUTPUT", key, False]]
        shapes.append(shape + ("-wide" if w > 1 else ""))
    return entries, keep_port, shapes


def gen_experiment_case(rng, depth_max, m_max):
    names = rng.sample(NAMES, rng.randint(1, 3))
    m = rng.randint(2, m_max)
    items = []
    p_var = rng.choice([0.0, 0.5, 0.9])
    for _ in range(rng.randint(0, 5)):
        r = rng.random()
        if r < 0.15:
            c = gen_leaf(rng, names, 0.3, False, kinds=["td", "lc"])
        else:
            c = gen_comp(rng, m, rng.randint(0, depth_max), names, p_var, False)
        items.append({"off": rng.randint(0, m - comp_size(c)), "c": c})
    free = list(range(m))
    rng.shuffle(free)
    heralds, dets = [], []
    for _ in range(rng.choice([0, 0, 1, 2])):
        if len(free) > 1:
            heralds.append([free.pop(), rng.choice([0, 1]), rng.choice([None, None, "h_a", "anc"])])
    ports, keep_port, port_shapes = gen_ports(rng, m, [h[0] for h in heralds], items)
    for mode in range(m):
        if rng.random() < 0.3:
            dets.append([mode, gen_det(rng)])
    n_moi = m - len(heralds)
    inp = None
    r = rng.random()
    if r < 0.35:
        inp = {"bs": gen_state_text(rng, n_moi, "plain")}
    elif r < 0.45:
        inp = {"svd": [[gen_sv(rng, m, "plain"), 1.0]]}
    elif r < 0.5:
        inp = {"pol": gen_state_text(rng, m, "pol")}
    return {"fam": "experiment", "m": m, "name": rng.choice([None, None, "exp 1", "Experiment"]),
            "noise": gen_noise(rng) if rng.random() < 0.4 else None, "items": items, "heralds": heralds,
            "ports": ports, "keep_port": keep_port, "port_shapes": port_shapes, "dets": dets, "input": inp,
            "filter": rng.choice([None, None, 0, 0, 1, 2, rng.randint(0, 5)]),
            "ps": gen_ps_text(rng, m, EXP_POSTSELECTS) if rng.random() < 0.4 else None,
            "env": gen_env(rng, names), "entry": rng.choice(["text", "textz", "file", "filez"])}


# --- feed-forward configurators ---------------------------------------------------------------------
FF_STATES = {1: ["|0>", "|1>", "|2>"], 2: ["|0,0>", "|0,1>", "|1,0>", "|1,1>", "|2,0>"]}
FF_NAMES = ["fa", "fb", "fc"]


def coe_size(c):
    if "c" in c:
        return comp_size(c["c"])
    return c["e"]["m"] - len(c["e"]["heralds"])


def gen_sub_experiment(rng, w, names, depth):
    """an experiment of `w` modes of interest, to be held by a circuit provider"""
    h = 1 if rng.random() < 0.3 else 0
    m = w + h
    items = []
    for _ in range(rng.randint(0, 3)):
        c = gen_comp(rng, m, 0, names, rng.choice([0.0, 0.5]), False)
        items.append({"off": rng.randint(0, m - comp_size(c)), "c": c})
    s = {"fam": "experiment", "m": m, "name": rng.choice([None, None, "sub exp", "Experiment"]),
         "noise": gen_noise(rng) if rng.random() < 0.15 else None, "items": items,
         "heralds": [[m - 1, rng.choice([0, 1]), rng.choice([None, "h_s"])]] if h else [],
         "ports": [], "dets": [], "ffs": [], "post_items": [], "input": None,
         "filter": rng.choice([None, None, None, 0, 1]), "ps": None, "env": {}, "entry": "text"}
    if depth > 0 and w >= 2 and rng.random() < 0.35:
        place_ffs(rng, s, names, depth - 1, 1, free=list(range(w)))
    return s


def gen_coe(rng, w, names, depth, allow_exp=True):
    r = rng.random()
    if allow_exp and r < 0.25:
        return {"e": gen_sub_experiment(rng, w, names, depth)}
    if r < 0.45:      # a bare component (the writer wraps it into a Circuit)
        if w == 1:
            return {"c": gen_leaf(rng, names, 0.3, False, kinds=["ps"])}
        if w == 2:
            return {"c": gen_leaf(rng, names, 0.3, False, kinds=["bs_rx", "bs_ry", "bs_h"])}
        p_ = list(range(w))
        rng.shuffle(p_)
        return {"c": {"t": "perm", "p": p_}}
    return {"c": gen_circ(rng, w, rng.randint(0, 1), names, rng.choice([0.0, 0.5]), False,
                          named=rng.random() < 0.4, max_items=3)}


def ff_sim(s):
    """the generator's own bookkeeping of a provider spec: (maximal size, stale)"""
    cur, blocked, sizes = coe_size(s["default"]), False, {}
    for op in s["ops"]:
        if op[0] == "block":
            blocked = True
            continue
        w = coe_size(op[2])
        if blocked and w != cur:
            continue
        cur = max(cur, w)
        sizes[op[1]] = w
    return cur, cur != max([coe_size(s["default"])] + list(sizes.values()))


def gen_ffcp(rng, k, wmax, names, depth, illegal=False, allow_exp=True, stale_ok=False):
    """FFCircuitProvider: a default circuit and a history of add_configuration / block_circuit_size calls"""
    while True:
        if stale_ok and wmax >= 2 and rng.random() < 0.6:
            # a key first given the largest circuit, later a smaller one: the stored maximal size is attained no more
            big = rng.randint(2, wmax)
            keys = list(FF_STATES[k])
            rng.shuffle(keys)
            ops = [["add", keys[0], gen_coe(rng, big, names, depth, allow_exp)]]
            for kk in keys[1:rng.randint(1, min(3, len(keys)))]:
                ops.append(["add", kk, gen_coe(rng, rng.randint(1, big - 1), names, depth, allow_exp)])
            ops.append(["add", keys[0], gen_coe(rng, rng.randint(1, big - 1), names, depth, allow_exp)])
            if rng.random() < 0.4:
                ops.append(["block"])
            return {"t": "ffcp", "m": k, "offset": 0, "name": rng.choice([None, None, "provider", "FFC", "ff 1"]),
                    "default": gen_coe(rng, rng.randint(1, big - 1), names, depth, allow_exp), "ops": ops}
        d = rng.randint(1, wmax)
        ops, cur, blocked = [], d, False
        n_adds = rng.choice([0, 1, 1, 2, 2, 3])
        block_at = rng.choice([None, None, 0, n_adds, n_adds, rng.randint(0, n_adds)])
        for i in range(n_adds):
            if block_at == i:
                ops.append(["block"])
                blocked = True
            if blocked:
                w = cur
                if illegal and rng.random() < 0.5:
                    w = rng.choice([v for v in range(1, wmax + 2) if v != cur])
            else:
                w = rng.randint(1, wmax)
                cur = max(cur, w)
            ops.append(["add", rng.choice(FF_STATES[k]), gen_coe(rng, w, names, depth, allow_exp)])
        if block_at is not None and not blocked:
            ops.append(["block"])
        s = {"t": "ffcp", "m": k, "offset": 0, "name": rng.choice([None, None, "provider", "FFC", "ff 1"]),
             "default": gen_coe(rng, d, names, depth, allow_exp), "ops": ops}
        # a key assigned twice, the second time with a smaller circuit, leaves a maximal size that is not written
        # (Props/C15: FF.replaced_key_loses_max / FF.roundtrip_provider_any_history): the rebuilt provider holds the
        # largest size present.  Generated only stand-alone (`stale_ok`): the model decides what must come back.
        if stale_ok or not ff_sim(s)[1]:
            return s


def gen_ctrl_circuit(rng, w, names):
    """a circuit of `w` modes in which every variable occurs once (FFConfigurator copies its circuit)"""
    pool = list(names)
    rng.shuffle(pool)
    items = []
    for _ in range(rng.randint(1, 3)):
        kind = rng.choice(["ps", "bs_rx", "bs_h", "bs_ry"] if w >= 2 else ["ps"])
        ps = []
        for i in range(NSLOT[kind]):
            if pool and rng.random() < (0.75 if i == 0 else 0.15) and not (kind == "ps" and i == 1):
                ps.append({"k": "var", "n": pool.pop()})
            else:
                ps.append({"k": "fixed", "v": gen_value(rng, kind, i)})
        c = {"t": "leaf", "kind": kind, "ps": ps}
        items.append({"off": rng.randint(0, w - comp_size(c)), "c": c})
    return {"t": "circ", "m": w, "name": rng.choice([None, None, "ctrl"]), "items": items}


def spec_vars(c, out):
    def go(s, d):
        if s["t"] == "leaf":
            for p_ in s["ps"]:
                if p_["k"] == "var":
                    out.add(p_["n"])
    walk_comp_spec(c, go)
    return out


def gen_ffc(rng, k, w, wide=False):
    """FFConfigurator: a controlled circuit with variables and value tables (sent as 32-bit floats).
    `wide`: arbitrary doubles (Model/C15F32.lean says what comes back); otherwise values in [0, 6.2]"""
    ctrl = gen_ctrl_circuit(rng, w, FF_NAMES)
    vs = sorted(spec_vars(ctrl, set()))

    def cfg():
        if wide:
            return c15_ffv.gen_ffc_values(rng, vs)
        return {n: rng.choice([0, 1, 0.0, round(rng.uniform(0, 6.2), rng.choice([1, 3, 6])), rng.uniform(0, 6.2)])
                for n in vs}
    states = rng.sample(FF_STATES[k], rng.randint(0, min(3, len(FF_STATES[k]))))
    return {"t": "ffc", "m": k, "offset": 0, "name": rng.choice([None, None, "cfg", "FFC"]), "controlled": ctrl,
            "default_config": cfg(), "configs": [[st, cfg()] for st in states], "block": rng.random() < 0.3}


def gen_ff(rng, k, wmax, names, depth, illegal=False, standalone=False):
    """-> (spec, width of the controlled modes)"""
    if rng.random() < 0.62:
        s = gen_ffcp(rng, k, wmax, names, depth, illegal, stale_ok=standalone and rng.random() < 0.5)
        return s, ff_sim(s)[0]
    w = rng.randint(1, wmax)
    return gen_ffc(rng, k, w, wide=standalone and rng.random() < 0.4), w


def place_ffs(rng, s, names, depth, n_ff, free):
    """put `n_ff` configurators into the experiment spec `s`: detectors on their modes, controlled modes photonic.
    `free`: modes that may be used.  Returns the modes taken (classical, controlled)."""
    m = s["m"]
    classical, target = set(), set()
    for _ in range(n_ff):
        for attempt in range(6):
            k = rng.choice([1, 1, 2])
            ff, w = gen_ff(rng, k, 2, names, depth)
            cands = []
            for c0 in range(0, m - k + 1):
                cm = set(range(c0, c0 + k))
                if not cm <= set(free) or cm & target:
                    continue
                for o in range(-3, 4):
                    tm = set(range(c0 + k + o, c0 + k + o + w)) if o >= 0 else set(range(c0 + o - w + 1, c0 + o + 1))
                    if tm <= set(free) and not tm & (classical | cm):
                        cands.append((c0, o, cm, tm))
            if cands:
                c0, o, cm, tm = rng.choice(cands)
                ff["offset"] = o
                classical |= cm
                target |= tm
                s["ffs"].append({"mode": c0, "ff": ff})
                break
    have = {mode for mode, _ in s["dets"]}
    for mode in sorted(classical - have):
        s["dets"].append([mode, gen_det(rng)])
    s["dets"] = [d for d in s["dets"] if d[0] not in target]
    return classical, target


def gen_ff_experiment_case(rng, m_max):
    """an experiment with feed-forward: components, detectors, one or two configurators (Experiment.add freezes
    them), possibly components after them, heralds, input, filter"""
    names = rng.sample(NAMES, rng.randint(1, 2))
    m = rng.randint(3, max(3, m_max))
    items = []
    p_var = rng.choice([0.0, 0.5])
    pool = names + ([rng.choice(FF_NAMES)] if rng.random() < 0.4 else [])
    for _ in range(rng.randint(0, 4)):
        c = gen_comp(rng, m, rng.randint(0, 1), pool, p_var, False)
        items.append({"off": rng.randint(0, m - comp_size(c)), "c": c})
    if len(pool) > len(names):
        items.append({"off": rng.randint(0, m - 1),
                      "c": {"t": "leaf", "kind": "ps", "ps": [{"k": "var", "n": pool[-1]}, {"k": "fixed", "v": 0.0}]}})
    s = {"fam": "experiment", "m": m, "name": rng.choice([None, None, "exp ff", "Experiment"]),
         "noise": gen_noise(rng) if rng.random() < 0.3 else None, "items": items, "heralds": [], "ports": [],
         "dets": [[mode, gen_det(rng)] for mode in range(m) if rng.random() < 0.15], "ffs": [], "post_items": [],
         "input": None, "filter": rng.choice([None, None, 0, 1, 2]), "ps": None,
         "env": gen_env(rng, names), "entry": rng.choice(["text", "textz", "file", "filez"])}
    classical, target = place_ffs(rng, s, names, 1, rng.choice([1, 1, 1, 2]), free=list(range(m)))
    photonic = [i for i in range(m) if i not in classical and i not in {d[0] for d in s["dets"]}]
    if photonic and rng.random() < 0.4:
        s["post_items"].append({"off": rng.choice(photonic), "c": gen_leaf(rng, names, 0.3, False, kinds=["ps"])})
    idle = [i for i in photonic if i not in target]
    rng.shuffle(idle)
    for _ in range(rng.choice([0, 0, 1])):
        if idle and m - len(s["heralds"]) > 1:
            s["heralds"].append([idle.pop(), rng.choice([0, 1]), rng.choice([None, "h_a"])])
    if rng.random() < 0.5:
        s["input"] = {"bs": gen_state_text(rng, m - len(s["heralds"]), "plain")}
    return s


def build_experiment(s, b=None):
    """`b`: the builder of the enclosing object (a sub-experiment held by a circuit provider shares its parameters)"""
    pcvl = pc()
    from perceval.components import PortLocation
    from perceval.utils import BasicState, NoiseModel, PostSelect, SVDistribution
    own = b is None
    if own:
        b = Builder(s["env"])
        build_experiment.last_builder = b
    kw = {}
    if s["name"] is not None:
        kw["name"] = s["name"]
    if s["noise"] is not None:
        kw["noise"] = NoiseModel(**s["noise"])
    e = pcvl.Experiment(s["m"], **kw)
    port_objs = {}

    def declare(ent):
        mode, enc, name, loc = ent[:4]
        key = ent[4] if len(ent) > 4 else None
        port = port_objs.get(key) if key is not None else None
        if port is None:
            port = pcvl.Port(getattr(pcvl.Encoding, enc), name)
            if key is not None:
                port_objs[key] = port
        e.add_port(mode, port, location=getattr(PortLocation, loc))

    for ent in s["ports"]:
        if len(ent) > 5 and ent[5]:
            declare(ent)
    akw = {} if s.get("keep_port", True) else {"keep_port": False}
    for it in s["items"]:
        e.add(it["off"], b.comp(it["c"]), **akw)
    for mode, d in s["dets"]:
        e.add(mode, build_det(d))
    for f in s.get("ffs", []):
        n0 = len(b.ffs)
        e.add(f["mode"], b.ff(f["ff"]))          # freezes the circuit size of the configurator
        b.ffs[-1]["placed"] = True
        b.ffs[-1]["top"] = own
        assert len(b.ffs) >= n0 + 1
    for it in s.get("post_items", []):
        e.add(it["off"], b.comp(it["c"]))
    for mode, val, name in s["heralds"]:
        e.add_herald(mode, val, name)
    for ent in s["ports"]:
        if not (len(ent) > 5 and ent[5]):
            declare(ent)
    if own:
        b.finish()
    inp = s["input"]
    if inp is not None:
        if "bs" in inp:
            e.with_input(BasicState(inp["bs"]))
        elif "pol" in inp:
            e.with_polarized_input(BasicState(inp["pol"]))
        else:
            svd = SVDistribution()
            for terms, p in inp["svd"]:
                svd[build_sv(terms)] = p
            e.with_input(svd)
    if s["filter"] is not None:
        e.min_detected_photons_filter(s["filter"])
    if s["ps"] is not None:
        e.set_postselection(PostSelect(s["ps"]))
    return e


def desc_port(p):
    from perceval.components import Herald
    if isinstance(p, Herald):
        return {"herald": [p.expected, p.user_given_name]}
    return {"port": [p.name, p.encoding.value]}


def tagged(obj):
    """(tag, payload) of the default (uncompressed) `serialize(obj)`, or None"""
    from perceval.serialization import serialize
    if obj is None:
        return None
    tag, payload, z, _ = open_text(serialize(obj))
    return [tag, payload]


def desc_experiment(e, input_override=None):
    from perceval.components import IDetector
    return {"name": e.name, "m": e.circuit_size,
            "input": input_override if input_override is not None else tagged(e.input_state),
            "noise": tagged(e.noise), "ps": tagged(e.post_select_fn), "filter": e.min_photons_filter,
            "in": sorted([[modes[0], desc_port(p)] for p, modes in e._in_ports.items()], key=lambda t: t[0]),
            "out": sorted([[modes[0], desc_port(p)] for p, modes in e._out_ports.items()], key=lambda t: t[0]),
            "dets": [[i, desc_det(d)] for i, d in enumerate(e.detectors) if d is not None],
            "comps": [{"off": r[0], "c": desc_comp(c)} for r, c in e.components if not isinstance(c, IDetector)]}


def sort_ports(d):
    if d is None:
        return None
    d = dict(d)
    for k in ("in", "out", "dets"):
        d[k] = sorted(d[k], key=lambda t: t[0])
    return d


# ------------------------------------------------------------------------------------------------
# grid tolerance (the 1e-6 text precision of the property)
# ------------------------------------------------------------------------------------------------
def grid_bound(v):
    """half a unit of the last digit `simple_float` keeps for |v| (+ float slop)"""
    a = abs(v)
    e = 0
    if a:
        while a < 1:
            a *= 10
            e += 1
    if e <= 3:
        e = 0
    return 0.5 * 10.0 ** (-(6 + e)) * (1 + 1e-6) + 1e-15 + 4e-16 * abs(v)


def num_close(v, w):
    return abs(v - w) <= grid_bound(v)


# ------------------------------------------------------------------------------------------------
# semantic equality oracles on real objects (independent of Lean)
# ------------------------------------------------------------------------------------------------
def sv_items(sv):
    sv = copy.copy(sv)
    sv.normalize()
    return {str(k): complex(v) for k, v in sv}


def same_sv(a, b):
    ia, ib = sv_items(a), sv_items(b)
    # amplitudes that round to zero vanish from the sum on the reader's side
    for k in set(ia) | set(ib):
        va, vb = ia.get(k, 0j), ib.get(k, 0j)
        # the reader re-normalises a state whose amplitudes were rounded: allow that on top of the grid
        if not (abs(va.real - vb.real) <= grid_bound(va.real) + 2e-6 * abs(va.real)
                and abs(va.imag - vb.imag) <= grid_bound(va.imag) + 2e-6 * abs(va.imag)):
            return f"amplitude of {k}: {va} vs {vb}"
    return None


def same_obj(x, y):
    """None when `y` is an equivalent object, otherwise a short reason"""
    from perceval.utils import (BasicState, StateVector, SVDistribution, BSDistribution, BSCount, BSSamples,
                                NoiseModel, PostSelect, Matrix)
    from perceval.components import ACircuit, AComponent, Experiment, Herald, Port, Detector, BSLayeredPPNR
    if isinstance(x, BSSamples):
        if type(y) is not BSSamples or [str(s) for s in x] != [str(s) for s in y]:
            return "samples differ"
        return None
    if isinstance(x, BasicState):
        return None if isinstance(y, BasicState) and str(x) == str(y) and x == y else f"state {x} vs {y}"
    if isinstance(x, StateVector):
        return same_sv(x, y) if isinstance(y, StateVector) else "not a StateVector"
    if isinstance(x, SVDistribution):
        if type(y) is not SVDistribution or len(x) != len(y):
            return "SVDistribution size"
        rest = list(y.items())
        for sv, p in x.items():
            hit = next((i for i, (sv2, p2) in enumerate(rest) if same_sv(sv, sv2) is None and num_close(p, p2)), None)
            if hit is None:
                return f"no counterpart for {sv} : {p}"
            rest.pop(hit)
        return None
    if isinstance(x, BSCount):
        if type(y) is not BSCount or {str(k): v for k, v in x.items()} != {str(k): v for k, v in y.items()}:
            return "counts differ"
        return None
    if isinstance(x, BSDistribution):
        if type(y) is not BSDistribution:
            return "not a BSDistribution"
        dx, dy = {str(k): v for k, v in x.items()}, {str(k): v for k, v in y.items()}
        if set(dx) != set(dy):
            return "BSDistribution keys"
        for k in dx:
            if not num_close(dx[k], dy[k]):
                return f"probability of {k}: {dx[k]} vs {dy[k]}"
        return None
    if isinstance(x, NoiseModel):
        return None if isinstance(y, NoiseModel) and x.__dict__() == y.__dict__() and x == y else "noise model differs"
    if isinstance(x, PostSelect):
        if not isinstance(y, PostSelect):
            return "post-selection differs"
        return c15_ps.same_postselect(x, y)
    if isinstance(x, Matrix):
        if x.is_symbolic():
            return None if str(x) == str(y) else "symbolic matrix differs"
        return None if np.array(x).shape == np.array(y).shape and np.array_equal(np.array(x), np.array(y)) \
            else "matrix differs"
    if isinstance(x, (Detector, BSLayeredPPNR)):
        return None if type(x) is type(y) and desc_det(x) == desc_det(y) else "detector differs"
    if isinstance(x, (Herald, Port)):
        return None if type(x) is type(y) and desc_port(x) == desc_port(y) else "port differs"
    if isinstance(x, Experiment):
        return same_experiment(x, y)
    if is_ff(x):
        return same_ff(x, y)
    if isinstance(x, ACircuit):
        return same_circuit(x, y)
    if isinstance(x, AComponent):
        return None if type(x) is type(y) and norm_desc(desc_comp(x)) == desc_comp(y) else "component differs"
    if type(x) is dict:
        if type(y) is not dict or len(x) != len(y):
            return "dict shape"
        for (kx, vx), (ky, vy) in zip(x.items(), y.items()):
            r = same_obj(kx, ky) or same_obj(vx, vy)
            if r:
                return r
        return None
    if type(x) is list:
        if type(y) is not list or len(x) != len(y):
            return "list shape"
        for a, b in zip(x, y):
            r = same_obj(a, b)
            if r:
                return r
        return None
    return None if type(x) is type(y) and x == y else "values differ"


def identity_ok(y_objs):
    """every variable name is one object"""
    names = {}
    for p in y_objs:
        names.setdefault(p.name, set()).add(id(p))
    return all(len(v) == 1 for v in names.values())


def assign_once_per_name(objs, values):
    done = set()
    for p in sorted(objs, key=lambda q: q.pid):
        if p.name not in done:
            done.add(p.name)
            p.set_value(values[p.name], force=True)


def matrix_of(c):
    pc().random_seed(20260930)     # PS(max_error) draws a random phase error per evaluation
    pol = bool(c.requires_polarization)
    return np.array(c.compute_unitary(use_polarization=pol), dtype=complex)


def same_circuit(x, y):
    from perceval.components import Circuit, ACircuit
    if not isinstance(y, ACircuit):
        return "not a circuit"
    dx = norm_desc(wrap_desc(x, desc_comp(x)))
    dy = desc_comp(y)
    if dx != dy:
        return "structure, names or parameter values differ"
    vy = named_params(y)
    if not identity_ok(vy):
        return "one variable name is several Parameter objects after the round trip"
    # change every variable once per name, on both sides, and compare the matrices
    vx = named_params(x)
    names = sorted({p.name for p in vx})
    if sorted({p.name for p in vy}) != names:
        return "variable names differ"
    values = {n: 0.05 + 0.9 * ((i * 0.6180339887 + 0.123) % 1.0) for i, n in enumerate(names)}
    try:
        assign_once_per_name(vx, values)
        mx = matrix_of(x)
    except Exception:
        return None      # the original itself has no numeric matrix (outside the property)
    try:
        assign_once_per_name(vy, values)
        my = matrix_of(y)
    except Exception as e:
        return f"matrix of the round-tripped circuit raises {type(e).__name__}"
    if mx.shape != my.shape or not np.allclose(mx, my, rtol=1e-9, atol=1e-9):
        return "matrices differ after changing each variable once per name"
    return None


def first_diff(dx, dy):
    for k in dx:
        if dx[k] != dy.get(k):
            return k
    return "shape"


def same_coe(a, b):
    from perceval.components import Experiment
    if isinstance(a, Experiment):
        return same_experiment(a, b)
    return same_circuit(a, b)


def same_ff(x, y):
    """a feed-forward configurator: same fields, same circuits, same answers to `config_modes` / `configure`"""
    from perceval.components import FFCircuitProvider
    from perceval.utils import BasicState
    if type(x) is not type(y):
        return f"{type(x).__name__} became {type(y).__name__}"
    dx, dy = norm_desc(desc_comp(x)), desc_comp(y)
    provider = isinstance(x, FFCircuitProvider)
    stale = False
    if provider:
        true_max = max([x.default_circuit.m] + [c.m for c in x._map.values()])
        stale = x._max_circuit_size != true_max
        if stale:
            # the maximal size is not written: the reader computes the largest size present
            # (Props/C15: FF.roundtrip_provider_any_history) — documented boundary, everything else must survive
            if y._max_circuit_size != true_max:
                return f"feed-forward configurator: max {x._max_circuit_size} (largest present {true_max}) became " \
                       f"{y._max_circuit_size}"
            dx, dy = dict(dx, max=None), dict(dy, max=None)
    if dx != dy:
        k = first_diff(dx, dy)
        return f"feed-forward configurator: {k} differs" + (f" ({dx[k]} became {dy.get(k)})" if k in
                                                             ("name", "offset", "blocked", "max", "m") else "")
    modes = tuple(range(7, 7 + x.m))
    if not stale and x.config_modes(modes) != y.config_modes(modes):
        return "config_modes differ"
    # a table value of 32 or more in modulus moves by more than the text precision in a 32-bit float
    # (Props/C15: F32.f32_within_text_precision / f32_beyond_text_precision): the configured matrices are compared
    # only below; the tables themselves are compared as 32-bit floats by `desc_comp` above
    wide = (not provider) and any(abs(float(v)) >= 32 for t in [x._default_config] + list(x._configs.values())
                                  for v in t.values())
    if not identity_ok({id(p): p for p in ff_named_params(y, [])}.values()):
        return "one variable name is several Parameter objects after the round trip"
    states = list(x._map if provider else x._configs) + [BasicState([3] * x.m)]
    for st in states:
        try:
            cx_ = x.configure(st)
            mx = None if provider else matrix_of(cx_)
        except Exception:
            continue
        try:
            cy_ = y.configure(st)
            if provider:
                r = same_coe(cx_, cy_)
            else:       # the values travelled as 32-bit floats: compare the configured matrices within the text precision
                my = matrix_of(cy_)
                r = None if mx.shape == my.shape and (wide or np.allclose(mx, my, rtol=0, atol=5e-6)) \
                    else "matrix differs"
        except Exception as e:
            return f"configure({st}) raises {exc_name(e)} after the round trip"
        if r:
            return f"configure({st}): {r}"
    if not provider:
        own = {p.name: p for p in named_params(y._controlled)}
        for n, p_ in y._linked_vars.items():
            if own.get(n) is not p_:
                return "a linked variable is not the parameter of the controlled circuit"
        r = same_circuit(x._controlled, y._controlled)
        if r:
            return "controlled circuit: " + r
    return None


def exp_extra(e):
    """what `desc_experiment` (the model's abstract syntax) does not carry"""
    return {"is_unitary": bool(e.is_unitary), "has_td": bool(e.has_td), "has_feedforward": bool(e.has_feedforward),
            "detectors_injected": sorted(e.detectors_injected), "mode_type": [t.name for t in e._mode_type],
            "m": e.m, "heralds": sorted([k, v] for k, v in e.heralds.items()),
            "input ports per mode": [None if e.get_input_port(i) is None else desc_port(e.get_input_port(i))
                                     for i in range(e.circuit_size)],
            "output ports per mode": [None if e.get_output_port(i) is None else desc_port(e.get_output_port(i))
                                      for i in range(e.circuit_size)],
            "in_port_names": port_names(e, e.in_port_names), "out_port_names": port_names(e, e.out_port_names)}


def port_names(e, names):
    """`in_port_names` / `out_port_names` without the auto-generated herald names (numbered in declaration order by
    the original, in mode order by the reader: not user data)"""
    anon = {m for p, ms in e._in_ports.items() if "herald" in desc_port(p) and p.user_given_name is None for m in ms}
    return [None if i in anon else n for i, n in enumerate(names)]


def ff_named_params(c, out):
    from perceval.components import Experiment
    for v in ff_payloads(c):
        if isinstance(v, Experiment):
            exp_named_params(v, out)
        else:
            out.extend(named_params(v))
    return out


def exp_named_params(e, out):
    """every named Parameter object reachable from an experiment, through feed-forward configurators too"""
    from perceval.components import IDetector
    for _, c in e.components:
        if isinstance(c, IDetector):
            continue
        if is_ff(c):
            ff_named_params(c, out)
        else:
            out.extend(named_params(c))
    return out


def same_experiment(x, y):
    from perceval.components import Experiment
    if not isinstance(y, Experiment):
        return "not an experiment"
    r = same_obj(x.input_state, y.input_state) if x.input_state is not None else \
        (None if y.input_state is None else "input appeared")
    if r:
        return "input state: " + r
    dx = norm_desc(desc_experiment(x, input_override=[]))
    dy = desc_experiment(y, input_override=[])
    for k in dx:
        if dx[k] != dy[k]:
            return {"filter": f"min_photons_filter {dx[k]} became {dy[k]}",
                    "in": f"input ports [first mode, port] {dx[k]} became {dy[k]}",
                    "out": f"output ports [first mode, port] {dx[k]} became {dy[k]}",
                    "ps": f"post-selection {dx[k]} became {dy[k]}"}.get(k, f"field {k} differs")
    ex, ey = exp_extra(x), exp_extra(y)
    for k in ex:
        if ex[k] != ey[k]:
            return f"{k}: {ex[k]} became {ey[k]}"
    if x.post_select_fn is not None:
        if y.post_select_fn is None:
            return "the post-selection is lost"
        r = c15_ps.same_postselect(x.post_select_fn, y.post_select_fn, width=x.circuit_size)
        if r:
            return r
    elif y.post_select_fn is not None:
        return "a post-selection appeared"
    objs = exp_named_params(y, [])
    if not identity_ok({id(p): p for p in objs}.values()):
        return "one variable name is several Parameter objects after the round trip"
    for a, b in zip([c for _, c in x.components if is_ff(c)], [c for _, c in y.components if is_ff(c)]):
        r = same_ff(a, b)
        if r:
            return r
    return None


# ------------------------------------------------------------------------------------------------
# running the real entry points
# ------------------------------------------------------------------------------------------------
def roundtrip(x, entry, tmpdir):
    """-> (text or bytes produced, result).  Raises what the real code raises."""
    from perceval.serialization import (serialize, deserialize, serialize_binary, deserialize_circuit,
                                        serialize_to_file, deserialize_file)
    if entry in ("text", "textz"):
        s = serialize(x, compress=(entry == "textz"))
        return s, deserialize(s)
    if entry == "default":
        s = serialize(x)
        return s, deserialize(s)
    if entry == "binary":
        b = serialize_binary(x)
        return b, deserialize_circuit(b)
    if entry == "b64":
        b = serialize_binary(x)
        return b, deserialize_circuit(base64.b64encode(b).decode())
    if entry in ("file", "filez"):
        path = os.path.join(tmpdir, "obj.json")
        serialize_to_file(x, path, compress=(entry == "filez"))
        with open(path) as f:
            s = json.loads(f.read())
        return s, deserialize_file(path)
    raise ValueError(entry)


def count_entry(chk, entry):
    chk.count("entry", entry)
    if entry in ("textz", "filez"):
        chk.branch("compress-on")
    if entry in ("text", "file"):
        chk.branch("compress-off")
    if entry in ("binary", "b64"):
        chk.branch("binary-entry")
    if entry in ("file", "filez"):
        chk.branch("file-entry")


def exc_name(e):
    return type(e).__name__


def explain(chk, op, obj, evs, enc_py, dec_py):
    """which repair(s) of the model, switched off, reproduce what the code did → defect signature"""
    subsets = sorted(([i for i in range(4) if not (mask >> i) & 1] for mask in range(15)), key=len)
    for off in subsets:
        cfg = [i not in off for i in range(4)]
        rep = chk.lean.ask({"op": op, "cfg": cfg, "obj": obj, "evs": evs})
        if "err" in rep:
            continue
        dec = sort_ports(rep["dec"]) if op == "experiment" else rep["dec"]
        if rep["enc"] == enc_py and dec == dec_py:
            return "+".join(FLAGS[i] for i in off)
    return None


# ------------------------------------------------------------------------------------------------
# feed-forward configurators against the model (Model/C15FF.lean) and against their message
# ------------------------------------------------------------------------------------------------
def ffcp_request(rec, wire=None):
    s, f = rec["spec"], rec["obj"]
    ops = []
    for i, op in enumerate(s["ops"]):
        ops.append(["block"] if op[0] == "block" else ["add", str(pc().BasicState(op[1])), [i + 1, rec["sizes"][i]]])
    if rec["placed"]:
        ops.append(["block"])          # Experiment.add
    return {"op": "ffcp", "m": s["m"], "offset": s["offset"], "name": f.name, "default": [0, rec["default_size"]],
            "ops": ops, "wire": wire}


def ff_message_check(x, d):
    """the dumped message of a configurator against the object (independent of the writer); None or a reason"""
    from perceval.components import FFCircuitProvider, Experiment
    if isinstance(x, FFCircuitProvider):
        m = d.get("ffcp")
        if m is None:
            return "not a circuit-provider message"
        if [m["name"], m["offset"], m["block"]] != [x.name, x._offset, bool(x._blocked_circuit_size)]:
            return "name / offset / blocked flag"
        want = sorted([[str(k), "experiment" if isinstance(v, Experiment) else "circuit", v.m] for k, v in x._map.items()])
        got = [[k, "experiment" if "experiment" in v else "circuit", pb_payload_size(v)] for k, v in m["configs"]]
        if want != got:
            return "configured circuits (keys, kinds, sizes)"
        if pb_payload_size(m["default"]) != x.default_circuit.m:
            return "default circuit size"
        return None
    m = d.get("ffc")
    if m is None:
        return "not a configurator message"
    if [m["name"], m["offset"], m["block"]] != [x.name, x._offset, bool(x._blocked_circuit_size)]:
        return "name / offset / blocked flag"
    if m["controlled"] is None or m["controlled"]["circuit"]["n_mode"] != x._controlled.m:
        return "controlled circuit"
    if m["default_config"] != sorted([n, f32(v)] for n, v in x._default_config.items()):
        return "default configuration"
    if m["configs"] != sorted([[str(k), sorted([n, f32(v)] for n, v in cfg.items())] for k, cfg in x._configs.items()],
                              key=lambda t: t[0]):
        return "configurations"
    return None


def ffcp_model_check(chk, rec, d, y, reader_raised):
    """the bookkeeping of an FFCircuitProvider (object after its history of calls, message, reader) against the model.
    -> (None | reason, reply)"""
    x = rec["obj"]
    wire = d["wire"] if d is not None else None
    rep = chk.lean.ask(ffcp_request(rec, wire))
    if "err" in rep:
        return f"driver: {rep['err']}", rep
    if rep["raised"] != rec["raised"]:
        return f"calls that raise: code {rec['raised']}, model {rep['raised']}", rep
    st = rep["state"]
    real_map = [[str(k), rec["ids"].get(str(k)), v.m] for k, v in x._map.items()]
    if [st["max"], st["blocked"], st["map"]] != [x._max_circuit_size, bool(x._blocked_circuit_size), real_map]:
        return "state of the provider after its history of calls", rep
    if d is not None:
        m = d["ffcp"]
        enc = rep["enc"]
        got = [m["name"], m["offset"], m["block"], pb_payload_size(m["default"]),
               sorted([k, pb_payload_size(v)] for k, v in m["configs"])]
        want = [enc["name"], enc["offset"], enc["block"], enc["default"][1], sorted([k, sz] for k, _, sz in enc["configs"])]
        if got != want:
            return "the message", rep
    if reader_raised:
        if rep["dec"] is not None:
            return "the reader raised, the model's reader does not", rep
    elif y is not None:
        dec = rep["dec"]
        if dec is None:
            return "the model's reader raises, the reader did not", rep
        if [dec["name"], dec["offset"], dec["max"], dec["blocked"], sorted([k, sz] for k, _, sz in dec["map"])] != \
                [y.name, y._offset, y._max_circuit_size, bool(y._blocked_circuit_size),
                 sorted([str(k), v.m] for k, v in y._map.items())]:
            return "the rebuilt provider", rep
    return None, rep


def ff_raise_signature(chk, recs, e):
    """the reader raised on a legally built object: which known reordering of the reader reproduces it?"""
    if not isinstance(e, RuntimeError) or "size mismatch" not in str(e):
        return None
    for rec in recs:
        if rec["spec"]["t"] != "ffcp":
            continue
        rep = chk.lean.ask(ffcp_request(rec))
        if "err" not in rep and rep["dec"] is not None and rep["dec_flag_first"] is None:
            return "ffcp-flag-before-configs"
    return None


def ff_signature(bad):
    """stable names for the two feed-forward defects of the reader"""
    if any(k + ": " in bad for k in ("is_unitary", "has_feedforward", "detectors_injected")):
        return "feedforward-flags"         # ExperimentBuilder appends the configurator without Experiment.add's records
    if "several Parameter objects" in bad:
        return "provider-name-table"       # every circuit of a stand-alone provider is read with its own name table
    return None


def ff_stats(chk, rec, where):
    s = rec["spec"]
    chk.count("ff", s["t"] + ":" + where)
    chk.branch("ff-" + where)
    if s["offset"] < 0:
        chk.branch("ff-negative-offset")
    if s["t"] == "ffc":
        chk.branch("ffc-configurator")
        if s["configs"]:
            chk.branch("ffc-configs")
        return
    f = rec["obj"]
    sizes = {v.m for v in f._map.values()}
    if f._blocked_circuit_size and sizes - {rec["default_size"]}:
        chk.branch("ffcp-frozen-other-size")       # the default circuit is not the widest and the size is blocked
    seen_block, keys = False, set()
    for i, op in enumerate(s["ops"]):
        if op[0] == "block":
            seen_block = True
            continue
        if seen_block:
            chk.branch("ffcp-add-after-block")
        if op[1] in keys:
            chk.branch("ffcp-replaced-key")
        keys.add(op[1])
        if "e" in op[2]:
            chk.branch("ffcp-experiment-payload")
            if op[2]["e"].get("ffs"):
                chk.branch("ff-nested")
    if "e" in s["default"]:
        chk.branch("ffcp-experiment-payload")
        if s["default"]["e"].get("ffs"):
            chk.branch("ff-nested")
    if rec["raised"]:
        chk.branch("ffcp-rejected-add")


# ------------------------------------------------------------------------------------------------
# families
# ------------------------------------------------------------------------------------------------
def walk_comp_spec(s, f, depth=0):
    f(s, depth)
    if s["t"] == "circ":
        for it in s["items"]:
            walk_comp_spec(it["c"], f, depth + 1)


def first_use_nested(spec):
    """a variable whose first occurrence (in reading order) is inside a nested sub-circuit and that occurs again"""
    order = []

    def go(s, depth):
        if s["t"] == "leaf":
            for p in s["ps"]:
                for n in ([p["n"]] if p["k"] in ("var",) else p.get("subs", [])):
                    order.append((n, depth))
    walk_comp_spec(spec, go)
    first = {}
    cnt = {}
    for n, d in order:
        first.setdefault(n, d)
        cnt[n] = cnt.get(n, 0) + 1
    return any(first[n] >= 2 and cnt[n] >= 2 for n in first)


def stats_circuit(chk, spec, dx):
    depth = [0]

    def go(s, d):
        depth[0] = max(depth[0], d)
        chk.count("component", s["kind"] if s["t"] == "leaf" else s["t"])
        if s["t"] == "unitary":
            if s.get("pol"):
                chk.branch("unitary-polarised")
            if s.get("name") not in (None, "Unitary"):
                chk.branch("unitary-named")
        if s["t"] == "leaf":
            if s["kind"] == "ps":
                me = s["ps"][1]
                if s.get("default") or (me["k"] == "fixed" and me["v"] == 0):
                    chk.branch("max-error-zero")
                else:
                    chk.branch("max-error-set")
            exprs = [p["e"] for p in s["ps"] if p["k"] == "expr"]
            if len(exprs) != len(set(exprs)):
                chk.branch("expr-two-slots")
            for p in s["ps"]:
                chk.count("param_kind", p["k"])
    walk_comp_spec(spec["c"], go)
    chk.count("depth", depth[0])
    if first_use_nested(spec["c"]):
        chk.branch("nested-shared-param")
    txt = json.dumps(dx)
    if '"k": "expr"' in txt:
        env = spec["env"]

        def go2(s, d):
            if s["t"] == "leaf":
                for p in s["ps"]:
                    if p["k"] == "expr":
                        chk.branch("expr-defined" if all(env.get(n) is not None for n in p["subs"]) else "expr-symbolic")
        walk_comp_spec(spec["c"], go2)
    return depth[0]


def judge_circuit(chk, spec, tmpdir, stats=False):
    """-> None or (kind, signature, what)"""
    from perceval.components import ACircuit
    from perceval.serialization import _schema_circuit_pb2 as pb
    try:
        b = Builder(spec["env"])
        x = b.comp(spec["c"])
        b.finish()
        dx = desc_comp(x)
    except Exception as e:
        chk.branch("gen-reject")
        chk.count("gen_reject", exc_name(e))
        return None
    if not isinstance(x, ACircuit):
        return None
    entry = spec["entry"]
    if stats:
        count_entry(chk, entry)
        depth = stats_circuit(chk, spec, dx)
    evs = [[k, v] for k, v in sorted(expr_values(x).items())]
    # --- real code
    enc_py, dec_py, y, raised = None, None, None, None
    try:
        out, y = roundtrip(x, entry, tmpdir)
        if isinstance(out, bytes):
            msg = pb.Circuit()
            msg.ParseFromString(out)
        else:
            tag, payload, z, _ = open_text(out)
            if tag != "ACircuit" or z != (entry in ("textz", "filez")):
                return ("broken", "model-vs-code:envelope", f"tag {tag} / compression flag {z} for entry {entry}")
            msg = pb_of(pb.Circuit, payload)
        enc_py = dump_circuit(msg)
        dec_py = desc_comp(y)
    except Exception as e:
        raised = e
        try:
            enc_py = dump_circuit(__import__("perceval.serialization._circuit_serialization", fromlist=["x"])
                                  .serialize_circuit(x))
        except Exception:
            enc_py = None
    # --- model
    rep = chk.lean.ask({"op": "circuit", "cfg": FIXED, "obj": dx, "evs": evs})
    if "err" in rep:
        return ("broken", "driver-rejects", f"driver: {rep['err']}")
    agree = rep["enc"] == enc_py and rep["dec"] == dec_py
    if agree and y is not None:
        # the reader constructed one Parameter per name: compare with the model's allocation log
        if sorted(p.name for p in variables(y)) != sorted(rep.get("allocs", [])):
            agree = False
    # --- the property on the real code
    if raised is not None:
        bad = f"round trip raises {exc_name(raised)}: {str(raised)[:120]}"
    else:
        bad = same_circuit(x, y)
    if bad is None and agree:
        if stats:
            chk.case(("circuit", json.dumps(spec["c"], sort_keys=True)[:400], entry),
                     nontrivial=depth >= 1 or '"k": "expr"' in json.dumps(dx) or '"k": "var"' in json.dumps(dx),
                     sample={"family": "circuit", "entry": entry, "depth": depth,
                             "components": len(json.dumps(dx).split('"t"')) - 1})
        return None
    if bad is not None:
        sig = (None if agree else explain(chk, "circuit", dx, evs, enc_py, dec_py)) or "circuit-roundtrip"
        return ("violation", sig, f"circuit ({entry}): {bad}")
    return ("broken", "model-vs-code:circuit",
            "model and code disagree on " + ("the message" if rep["enc"] != enc_py else "the rebuilt object")
            + " but the round trip is semantically correct")


def shrink_circuit(chk, spec, tmpdir, sig_kind):
    cur = copy.deepcopy(spec)
    budget = 80

    def fails(s):
        r = judge_circuit(chk, s, tmpdir)
        return r is not None and r[0] == sig_kind

    def circs(s, out):
        if s["t"] == "circ":
            out.append(s)
            for it in s["items"]:
                circs(it["c"], out)
        return out

    changed = True
    while changed and budget > 0:
        changed = False
        if cur["c"]["t"] != "circ":
            break
        nodes = circs(cur["c"], [])
        for ni in range(len(nodes)):
            for ii in range(len(nodes[ni]["items"])):
                if budget <= 0:
                    break
                cand = copy.deepcopy(cur)
                cn = circs(cand["c"], [])[ni]
                del cn["items"][ii]
                budget -= 1
                try:
                    ok = fails(cand)
                except Exception:
                    ok = False
                if ok:
                    cur = cand
                    changed = True
                    break
            if changed:
                break
    for entry in ("text",):
        cand = dict(cur, entry=entry)
        try:
            if fails(cand):
                cur = cand
        except Exception:
            pass
    return cur


def strip_ff(d):
    """an experiment description / message dump without its feed-forward configurators (outside `Model/C15.lean`)"""
    if d is None:
        return None
    d = dict(d)
    d["comps"] = [c for c in d["comps"] if not (c["c"]["t"] in ("ffcp", "ffc") if "c" in c else is_ff_dump(c))]
    return d


def port_stats(chk, e, spec):
    """required-branch bookkeeping of the port layout, read off the object that was built"""
    from perceval.components import Herald
    ins = {id(p): (p, ms) for p, ms in e._in_ports.items() if not isinstance(p, Herald)}
    outs = {id(p): (p, ms) for p, ms in e._out_ports.items() if not isinstance(p, Herald)}
    crossed = []
    for k, (p, ms) in ins.items():
        if k in outs:
            if outs[k][1] != ms:
                chk.branch("port-shared-object-different-modes")
                chk.count("port_shape", "one object, input and output at different modes")
                crossed.append((ms, outs[k][1]))
                if len(ms) > 1:
                    chk.branch("port-shared-object-different-modes-wide")
                if e.heralds:
                    chk.branch("port-shared-object-with-herald")
                if not spec.get("keep_port", True):
                    chk.branch("port-rerouted-by-component")
            else:
                chk.branch("port-shared-object-same-modes")
                chk.count("port_shape", "one object, same modes on both sides")
        else:
            chk.branch("port-one-sided")
            chk.count("port_shape", "input only")
            if any(desc_port(q) == desc_port(p) for q, _ in outs.values()):
                chk.branch("port-twin-objects")
    for k in outs:
        if k not in ins:
            chk.branch("port-one-sided")
            chk.count("port_shape", "output only")
    if any((b, a) in crossed for a, b in crossed):
        chk.branch("port-swap")
    for i in range(e.circuit_size):
        a, b = e.get_input_port(i), e.get_output_port(i)
        if a is not None and b is not None and not isinstance(a, Herald) and desc_port(a) != desc_port(b):
            chk.branch("port-sides-differ-on-a-mode")
            break
    keyed = [(ent[3], ent[4]) for ent in spec["ports"] if len(ent) > 4 and ent[4] is not None]
    if any(loc == "OUTPUT" and ("INPUT", key) in keyed[i + 1:] for i, (loc, key) in enumerate(keyed)):
        chk.branch("port-output-declared-first")


def judge_experiment(chk, spec, tmpdir, stats=False):
    from perceval.serialization import _schema_circuit_pb2 as pb
    from perceval.components import IDetector
    try:
        x = build_experiment(spec)
        recs = build_experiment.last_builder.ffs
        dx = desc_experiment(x)
    except Exception as e:
        chk.branch("gen-reject")
        chk.count("gen_reject", exc_name(e))
        if spec.get("ffs"):
            chk.count("gen_reject_ff", exc_name(e) + ": " + str(e)[:60])
        return None
    entry = spec["entry"]
    top = [r for r in recs if r.get("top")]
    if stats:
        count_entry(chk, entry)
        chk.count("filter", spec["filter"])
        if spec["filter"] == 0:
            chk.branch("filter-zero")
        if spec["filter"] is None:
            chk.branch("filter-none")
        for _, _, name in spec["heralds"]:
            chk.branch("herald-named" if name else "herald-auto")
        for _, d in spec["dets"]:
            if "det" in d and d["det"][0] is None:
                chk.branch("detector-unset-wires")
        if any(it["c"]["t"] == "leaf" and it["c"]["kind"] in ("td", "lc") for it in spec["items"]):
            chk.branch("experiment-non-unitary")
        chk.count("input", "none" if spec["input"] is None else list(spec["input"])[0])
        port_stats(chk, x, spec)
        if x.post_select_fn is not None:
            ps_text_branches(chk, x.post_select_fn, "experiment")
        for r in recs:
            ff_stats(chk, r, "in-experiment" if r.get("top") else "nested")
        if len(top) >= 2:
            chk.branch("ff-two-in-experiment")
            if len(x.detectors_injected) < sum(r["obj"].m for r in top):
                chk.branch("ff-shared-detector")
        if top:
            if spec.get("post_items"):
                chk.branch("ff-then-component")
            shared = {p.name for p in exp_named_params(x, [])} & set(FF_NAMES)
            main = set()
            for _, c in x.components:
                if not isinstance(c, IDetector) and not is_ff(c):
                    main |= {p.name for p in named_params(c)}
            if shared & main:
                chk.branch("ff-shared-variable")
    evs = {}
    for _, c in x.components:
        if not isinstance(c, IDetector):
            expr_values(c, evs)
    evs = [[k, v] for k, v in sorted(evs.items())]
    enc_py, dec_py, y, raised = None, None, None, None
    try:
        out, y = roundtrip(x, entry, tmpdir)
        tag, payload, z, _ = open_text(out)
        if tag != "Experiment" or z != (entry in ("textz", "filez")):
            return ("broken", "model-vs-code:envelope", f"tag {tag} / compression flag {z} for entry {entry}")
        enc_py = dump_experiment(pb_of(pb.Experiment, payload))
        same_in = x.input_state is not None and y.input_state is not None and \
            same_obj(x.input_state, y.input_state) is None
        dec_py = desc_experiment(y, input_override=dx["input"] if same_in else None)
    except Exception as e:
        raised = e
        try:
            from perceval.serialization._experiment_serialization import serialize_experiment
            enc_py = dump_experiment(serialize_experiment(x))
        except Exception:
            enc_py = None
    dx_l, enc_l, dec_l = strip_ff(dx), strip_ff(enc_py), strip_ff(dec_py)
    rep = chk.lean.ask({"op": "experiment", "cfg": FIXED, "obj": dx_l, "evs": evs})
    if "err" in rep:
        return ("broken", "driver-rejects", f"driver: {rep['err']}")
    agree = rep["enc"] == enc_l and sort_ports(rep["dec"]) == dec_l
    # feed-forward configurators: message against the object, provider bookkeeping against Model/C15FF.lean
    ff_bad = None
    if top and enc_py is not None:
        dumps = [c["t"] for c in enc_py["comps"] if is_ff_dump(c)]
        ys = [c for _, c in y.components if is_ff(c)] if raised is None else []
        if len(dumps) != len(top) or (raised is None and len(ys) != len(top)):
            ff_bad = ("model-vs-code:ff-message", "number of feed-forward configurators")
        else:
            for i, (r, d) in enumerate(zip(top, dumps)):
                why = ff_message_check(r["obj"], d)
                if why:
                    ff_bad = ("model-vs-code:ff-message", why)
                    break
                if r["spec"]["t"] == "ffcp":
                    why, _ = ffcp_model_check(chk, r, d, ys[i] if ys else None, False)
                    if why:
                        ff_bad = ("model-vs-code:ffcp", why)
                        break
    if raised is not None:
        bad = f"round trip raises {exc_name(raised)}: {str(raised)[:120]}"
    else:
        bad = same_experiment(x, y)
    if bad is None and agree and ff_bad is None:
        if stats:
            chk.case(("experiment", json.dumps(spec, sort_keys=True)[:400]),
                     nontrivial=bool(spec["items"]) and (bool(spec["heralds"]) or bool(spec["dets"]) or
                                                         spec["filter"] is not None),
                     sample={"family": "experiment", "m": spec["m"], "heralds": len(spec["heralds"]),
                             "filter": spec["filter"], "entry": entry, "ff": len(recs)})
        return None
    if bad is not None:
        sig = None
        if raised is not None:
            sig = ff_raise_signature(chk, recs, raised)
        if sig is None and recs:
            sig = ff_signature(bad)
        if sig is None and not agree:
            sig = explain(chk, "experiment", dx_l, evs, enc_l, dec_l)
        return ("violation", sig or "experiment-roundtrip", f"experiment ({entry}): {bad}")
    if not agree:
        return ("broken", "model-vs-code:experiment",
                "model and code disagree on " + ("the message" if rep["enc"] != enc_l else "the rebuilt experiment")
                + " but the round trip is semantically correct")
    return ("broken", ff_bad[0], "feed-forward configurator: model/object and code disagree on " + ff_bad[1]
            + " but the round trip is semantically correct")


def shrink_experiment(chk, spec, tmpdir, kind):
    cur = copy.deepcopy(spec)

    def fails(s):
        try:
            r = judge_experiment(chk, s, tmpdir)
        except Exception:
            return False
        return r is not None and r[0] == kind

    for key in ("post_items", "ffs", "items", "dets", "heralds", "ports"):
        i = 0
        while i < len(cur.get(key, [])):
            cand = copy.deepcopy(cur)
            del cand[key][i]
            if key == "heralds" and cand["input"] is not None:
                cand["input"] = None
            if fails(cand):
                cur = cand
            else:
                i += 1
    for fi in range(len(cur.get("ffs", []))):
        if cur["ffs"][fi]["ff"]["t"] != "ffcp":
            continue
        i = 0
        while i < len(cur["ffs"][fi]["ff"]["ops"]):
            cand = copy.deepcopy(cur)
            del cand["ffs"][fi]["ff"]["ops"][i]
            if fails(cand):
                cur = cand
            else:
                i += 1

    def circs(sp, out):
        if sp["t"] == "circ":
            out.append(sp)
            for it in sp["items"]:
                circs(it["c"], out)
        return out
    budget = 60
    changed = True
    while changed and budget > 0:
        changed = False
        nodes = []
        for it in cur["items"]:
            circs(it["c"], nodes)
        for ni in range(len(nodes)):
            for ii in range(len(nodes[ni]["items"])):
                cand = copy.deepcopy(cur)
                cn = []
                for it in cand["items"]:
                    circs(it["c"], cn)
                del cn[ni]["items"][ii]
                budget -= 1
                if budget > 0 and fails(cand):
                    cur = cand
                    changed = True
                    break
            if changed:
                break
    for key in ("noise", "input", "ps", "name"):
        if cur[key] is not None:
            cand = dict(cur, **{key: None})
            if fails(cand):
                cur = cand
    cand = dict(cur, entry="text")
    if fails(cand):
        cur = cand
    if not cur.get("keep_port", True):
        cand = dict(cur, keep_port=True)
        if fails(cand):
            cur = cand
    cur.pop("port_shapes", None)
    return cur


# --- stand-alone objects -------------------------------------------------------------------------
def gen_simple_case(rng, fam=None):
    fam = fam or rng.choice(["det", "det", "port", "herald", "noise", "noise", "matrix", "matrix", "state", "state",
                      "sv", "sv", "svd", "bsd", "bsd", "bsc", "bss", "bss", "postselect", "postselect", "postselect", "postselect", "postselect",
                      "component",
                      "container", "container", "ff", "ff", "ff", "ff", "ff", "ff"])
    s = {"fam": fam, "entry": rng.choice(["text", "textz", "default", "file", "filez"])}
    m = rng.randint(1, 4)
    if fam == "det":
        s["d"] = gen_det(rng)
    elif fam == "port":
        s["p"] = [rng.choice(["RAW", "DUAL_RAIL", "POLARIZATION", "QUDIT2", "TIME"]), rng.choice(["q", "", "data 1"])]
    elif fam == "herald":
        s["h"] = [rng.choice([0, 1]), rng.choice(["anc", "h", 0, 3])]
    elif fam == "noise":
        s["n"] = gen_noise(rng)
    elif fam == "matrix":
        r, c = rng.randint(1, 4), rng.randint(1, 4)
        if rng.random() < 0.25:
            s["sym"] = [[rng.choice(["a", "2*b", "a + b", "1", "0", "cos(a)"]) for _ in range(c)] for _ in range(r)]
        else:
            s["num"] = [[[rng.choice([0.0, 1.0, rng.uniform(-2, 2)]), rng.choice([0.0, 0.0, rng.uniform(-2, 2)])]
                         for _ in range(c)] for _ in range(r)]
            # the SAME logical matrix held as a view that is not C-contiguous (transpose, dagger, reversed columns):
            # what `M.T`, `U.conj().T`, `M[:, ::-1]` hand to the serialiser
            s["layout"] = rng.choice([None, None, "T", "H", "rev"])
    elif fam == "state":
        s["s"] = gen_state_text(rng, m)
    elif fam == "sv":
        s["terms"] = gen_sv(rng, m, rng.choice(["plain", "plain", "annot"]))
    elif fam == "svd":
        k = rng.choice([0, 1, 2, 2, 3, 3, 4, 5])
        ps = gen_prob_list(rng, k) if k else []
        s["svd"] = [[gen_sv(rng, m, rng.choice(["plain", "annot"])), p] for p in ps]
    elif fam in ("bsd", "bsc", "bss"):
        k = rng.randint(0, 5)
        sts = []
        style = rng.choice(["plain", "plain", "annot", "tag"])
        for _ in range(k):
            st = gen_state_text(rng, m, style)
            if st not in sts or fam == "bss":
                sts.append(st)
        if fam == "bsd":
            s["bsd"] = list(zip(sts, gen_prob_list(rng, len(sts)))) if sts else []
        elif fam == "bsc":
            s["bsc"] = [[st, rng.choice([0, 1, 7, 10 ** 6])] for st in sts]
        else:
            s["bss"] = [rng.choice(sts) for _ in range(rng.randint(1, 12))] if sts else []
    elif fam == "postselect":
        s["ps"] = gen_ps_text(rng)
    elif fam == "component":
        s["c"] = gen_leaf(rng, ["a"], rng.choice([0.0, 0.7]), False, kinds=["td", "lc"])
        s["env"] = {"a": rng.choice([None, 0.25])}
    elif fam == "ff":
        names = rng.sample(NAMES, rng.randint(1, 2))
        s["ff"], _ = gen_ff(rng, rng.choice([1, 1, 2]), 3, names, 1, illegal=True, standalone=True)
        s["ff"]["offset"] = rng.randint(-3, 3)
        s["env"] = gen_env(rng, names)      # the variables of a controlled circuit hold no value (boundary, see run)
    else:
        depth = rng.randint(1, 3)
        s["tree"] = gen_container(rng, depth)
    return s


def gen_container(rng, depth):
    def leaf():
        r = rng.random()
        t = gen_simple_case(rng, "ff" if r < 0.15 else "postselect" if r < 0.33 else None)
        while t["fam"] in ("container",):
            t = gen_simple_case(rng)
        return {"leaf": t}
    if depth == 0:
        return rng.choice([leaf(), leaf(), {"raw": rng.choice([1, "text", 2.5, None, True])}])
    if rng.random() < 0.5:
        return {"list": [gen_container(rng, depth - 1) for _ in range(rng.randint(0, 3))]}
    keys = rng.sample(["k1", "k2", "results", "|1,0>", "|0,1>"], rng.randint(0, 3))
    return {"dict": [[k, gen_container(rng, depth - 1)] for k in keys]}


def matrix_with_layout(pcvl, rows, layout):
    """the logical matrix `rows` as a perceval Matrix; `layout` chooses how it is held in memory"""
    a = np.array(rows, dtype=complex)
    if layout == "T":
        return pcvl.Matrix(a.T.copy()).T
    if layout == "H":
        return pcvl.Matrix(a.conj().T.copy()).conj().T
    if layout == "rev":
        return pcvl.Matrix(a[:, ::-1].copy())[:, ::-1]
    return pcvl.Matrix(rows)


def build_simple(s):
    pcvl = pc()
    from perceval.utils import (BasicState, SVDistribution, BSDistribution, BSCount, BSSamples, NoiseModel,
                                PostSelect)
    fam = s["fam"]
    if fam == "det":
        return build_det(s["d"])
    if fam == "port":
        return pcvl.Port(getattr(pcvl.Encoding, s["p"][0]), s["p"][1])
    if fam == "herald":
        from perceval.components import Herald
        return Herald(s["h"][0], s["h"][1])
    if fam == "noise":
        return NoiseModel(**s["n"])
    if fam == "matrix":
        if "sym" in s:
            return pcvl.Matrix(s["sym"], use_symbolic=True)
        return matrix_with_layout(pcvl, [[complex(a, b) for a, b in row] for row in s["num"]], s.get("layout"))
    if fam == "state":
        return BasicState(s["s"])
    if fam == "sv":
        return build_sv(s["terms"])
    if fam == "svd":
        d = SVDistribution()
        for terms, p in s["svd"]:
            d[build_sv(terms)] = p
        return d
    if fam == "bsd":
        d = BSDistribution()
        for st, p in s["bsd"]:
            d[BasicState(st)] = p
        return d
    if fam == "bsc":
        d = BSCount()
        for st, n in s["bsc"]:
            d[BasicState(st)] = n
        return d
    if fam == "bss":
        d = BSSamples()
        for st in s["bss"]:
            d.append(BasicState(st))
        return d
    if fam == "postselect":
        return PostSelect(s["ps"])
    if fam == "component":
        b = Builder(s["env"])
        c = b.comp(s["c"])
        b.finish()
        return c
    if fam == "ff":
        b = Builder(s["env"])
        c = b.ff(s["ff"])
        b.finish()
        build_simple.last_builder = b
        return c
    if fam == "container":
        return build_tree(s["tree"])
    raise ValueError(fam)


def build_tree(t):
    from perceval.utils import BasicState
    if "leaf" in t:
        return build_simple(t["leaf"])
    if "raw" in t:
        return t["raw"]
    if "list" in t:
        return [build_tree(c) for c in t["list"]]
    return {(BasicState(k) if k.startswith("|") else k): build_tree(v) for k, v in t["dict"]}


def leaf_fams(t, out):
    if "leaf" in t:
        out.append(t["leaf"]["fam"])
    for c in t.get("list", []):
        leaf_fams(c, out)
    for _, v in t.get("dict", []):
        leaf_fams(v, out)
    return out


def text_numbers(payload):
    """the decimal numbers `simple_float` wrote into a state-vector / distribution payload"""
    import re
    out = []
    for mm in re.finditer(r"\(([^(),|]*),([^(),|]*)\)\*", payload):
        out.extend([mm.group(1), mm.group(2)])
    for mm in re.finditer(r"=([-0-9.e]+)", payload):
        out.append(mm.group(1))
    return out


def tree_leaves(t, out):
    if type(t) is dict:
        for k, v in t.items():
            tree_leaves(k, out)
            tree_leaves(v, out)
    elif type(t) is list:
        for v in t:
            tree_leaves(v, out)
    else:
        out.append(t)
    return out


def judge_simple(chk, spec, tmpdir, stats=False):
    from perceval.serialization import _schema_circuit_pb2 as pb
    from perceval.serialization import serialize
    fam = spec["fam"]
    entry = spec["entry"]
    try:
        x = build_simple(spec)
    except Exception as e:
        chk.branch("gen-reject")
        chk.count("gen_reject", exc_name(e))
        if fam == "ff":
            chk.count("gen_reject_ff", exc_name(e) + ": " + str(e)[:60])
        return None
    recs = build_simple.last_builder.ffs if fam == "ff" else []
    if stats:
        count_entry(chk, entry)
        chk.count("family", fam)
        if fam == "container":
            chk.branch("container")
            for f in leaf_fams(spec["tree"], []):
                chk.count("container_leaf", f)
                if f == "ff":
                    chk.branch("ff-in-container")
        for r in recs:
            ff_stats(chk, r, "standalone" if r is recs[-1] else "nested")
        if fam == "postselect":
            ps_text_branches(chk, x, "object")
        if fam == "container":
            for leaf in tree_leaves(x, []):
                if type(leaf).__name__ == "PostSelect":
                    ps_text_branches(chk, leaf, "container")
    # what the original holds, before the writer touches it (serialize_statevector normalises in place)
    x0 = build_simple(spec) if fam in ("sv", "svd", "container") else x
    try:
        out, y = roundtrip(x, entry, tmpdir)
    except Exception as e:
        sig = f"{fam}-raises-{exc_name(e)}"
        if isinstance(e, TypeError) and "unexpected keyword argument 'compress'" in str(e):
            # which overload refuses `compress=`?  ask the model of the code as found
            tags = sorted(t for t in TAG_OF.values()
                          if not chk.lean.ask({"op": "kw", "tag": t}).get("accepted_as_found", True))
            sig = "compress-keyword" if tags else sig
        if fam == "ff":
            sig = ff_raise_signature(chk, recs, e) or sig
        return ("violation", sig, f"{fam} ({entry}): round trip raises {exc_name(e)}: {str(e)[:140]}")
    bad = same_obj(x0, y)
    if bad is not None:
        sig = f"{fam}-roundtrip"
        if fam == "matrix" and "num" in spec and not x.flags["C_CONTIGUOUS"]:
            sig = "matrix-memory-order"
        if fam == "matrix" and "sym" in spec:
            rep = chk.lean.ask({"op": "mat", "obj": {"sym": [[str(v) for v in row] for row in x.tolist()]},
                                "asfound": True})
            if rep.get("dec") == {"sym": [[str(v) for v in row] for row in y.tolist()]}:
                sig = "symbolic-matrix-order"
        if fam == "ff":
            sig = ff_signature(bad) or sig
        return ("violation", sig, f"{fam} ({entry}): {bad}")
    if fam == "container" or not isinstance(out, str):
        if stats:
            chk.case(("container", json.dumps(spec, sort_keys=True)[:300]), nontrivial=True,
                     sample={"family": fam, "entry": entry})
        return None
    # --- model comparisons on the text the writer produced
    tag, payload, z, plain = open_text(out)
    want_z = {"textz": True, "filez": True, "text": False, "file": False}.get(entry)
    if want_z is not None and z != want_z:
        return ("broken", "model-vs-code:envelope", f"{fam}: compress={want_z} produced compressed={z}")
    reqs = [{"op": "envelope", "tag": tag, "payload": payload, "compress": False}, {"op": "open", "text": plain},
            {"op": "kw", "tag": tag}]
    checks = []
    if fam == "det":
        is_ppnr = "ppnr" in spec["d"]
        msg = pb_of(pb.BSLayeredPPNR if is_ppnr else pb.Detector, payload)
        enc = dump_ppnr(msg) if is_ppnr else dump_detector(msg)
        reqs.append({"op": "det", "obj": desc_det(x)})
        checks.append((enc, desc_det(y)))
    elif fam == "port":
        msg = pb_of(pb.Port, payload)
        reqs.append({"op": "port", "obj": desc_port(x)})
        checks.append((["port", msg.name, msg.encoding], desc_port(y)))
    elif fam == "herald":
        msg = pb_of(pb.Herald, payload)
        reqs.append({"op": "port", "obj": desc_port(x)})
        checks.append((["herald", bool(msg.autogenerated_name), msg.name, msg.value], desc_port(y)))
    elif fam == "noise":
        kv = [[k, (v if isinstance(v, bool) else rat(v))] for k, v in json.loads(payload).items()]
        reqs.append({"op": "noise", "obj": [[k, (v if isinstance(v, bool) else rat(v))] for k, v in x.__dict__().items()]})
        checks.append((sorted(kv), sorted([[k, (v if isinstance(v, bool) else rat(v))] for k, v in y.__dict__().items()])))
    elif fam == "matrix":
        msg = pb_of(pb.Matrix, payload)
        if "num" in spec:
            reqs.append({"op": "mat", "obj": desc_matrix(x)})
            checks.append((dump_mat(msg), desc_matrix(y)))
            if not x.flags["C_CONTIGUOUS"]:
                chk.branch("matrix-not-c-contiguous")
        else:   # sympy's printing/parsing of an entry is external: entries are compared as printed
            reqs.append({"op": "mat", "obj": {"sym": [[str(v) for v in row] for row in x.tolist()]}})
            checks.append((dump_mat(msg), {"sym": [[str(v) for v in row] for row in y.tolist()]}))
            if len(spec["sym"]) != len(spec["sym"][0]):
                chk.branch("symbolic-rectangular")
    elif fam == "bss":
        reqs.append({"op": "bss", "samples": [str(s) for s in x]})
    elif fam == "component":
        msg = pb_of(pb.Component, payload)
        evs = [[k, v] for k, v in sorted(expr_values(x).items())]
        reqs.append({"op": "component", "cfg": FIXED, "obj": desc_comp(x), "evs": evs})
        checks.append((dump_comp(msg), desc_comp(y)))
    elif fam == "ff":
        d = dump_comp(pb_of(pb.Component, payload))
        if d["start"] != 0 or d["n"] != x.m:
            return ("broken", "model-vs-code:ff-message", "ff: starting mode / mode count of the component message")
        why = ff_message_check(x, d["t"])
        if why:
            return ("broken", "model-vs-code:ff-message", f"ff: the message disagrees with the object on {why}")
        if spec["ff"]["t"] == "ffcp":
            why, _ = ffcp_model_check(chk, recs[-1], d["t"], y, False)
            if why:
                return ("broken", "model-vs-code:ffcp", f"ff: model and code disagree on {why}")
            if x._max_circuit_size != max([x.default_circuit.m] + [c.m for c in x._map.values()]):
                chk.branch("ffcp-stale-max")
        else:
            # the value tables: message = 32-bit float of every value, rebuilt tables = those values (Model/C15F32.lean)
            # (on a fresh copy of the object: the direct oracle above has given the variables of `x` values)
            counter = {}
            res = c15_ffv.judge_ffc(chk.lean, build_simple(spec), pb_of(pb.Component, payload).ff_configurator, y, counter)
            for k_, n_ in counter.items():
                chk.count("ffc_values", k_, n_)
            if res is not None:
                return res
            chk.branch("ffc-tables-model")
            if counter.get("ffc-values-beyond-32"):
                chk.branch("ffc-values-beyond-precision")
    nums = text_numbers(payload) if fam in ("sv", "svd", "bsd") else []
    for tx in nums[:12]:
        fr = abs(Fraction(tx))
        # ask the model what the grid gives for the printed value itself (idempotence) — the
        # value-level comparison against the original float is done below
        reqs.append({"op": "grid", "n": fr.numerator, "d": fr.denominator})
    reps = chk.lean.ask_many(reqs)
    for r in reps:
        if "err" in r:
            return ("broken", "driver-rejects", f"driver: {r['err']}")
    if reps[0]["text"] != plain or reps[0]["open"] != [tag, payload] or reps[1]["open"] != [tag, payload]:
        return ("broken", "model-vs-code:envelope", f"envelope of {fam} differs from the model")
    if not (reps[2]["known"] and reps[2]["accepted"]):
        return ("broken", "model-vs-code:keyword", f"tag {tag}: the model does not list it / refuses compress=")
    k = 3
    if fam == "bss":
        r = reps[k]
        k += 1
        left, right = payload.split("/")
        d_py = left.split(";") if left else []
        o_py = [int(v) for v in right.split(";")] if right else []
        if r["dict"] != d_py or r["order"] != o_py or r["dec"] != [str(s) for s in y]:
            return ("broken", "model-vs-code:bssamples", "dictionary/index encoding differs from the model")
        if len(set(spec["bss"])) < len(spec["bss"]):
            chk.branch("bss-repeat")
    for enc, dec in checks:
        r = reps[k]
        k += 1
        r_enc, r_dec = r["enc"], r["dec"]
        if fam == "noise":
            r_enc, r_dec = sorted(r_enc), (sorted(r_dec) if r_dec is not None else None)
        if r_enc != enc or r_dec != dec:
            return ("broken", f"model-vs-code:{fam}", f"{fam}: model and code disagree on "
                    + ("the message" if r_enc != enc else "the rebuilt object"))
    for tx in nums[:12]:
        r = reps[k]
        k += 1
        fr = abs(Fraction(tx))
        # a printed value is a fixed point of the grid: num / 10^(6+exp) = the value itself
        if Fraction(r["num"], 10 ** (6 + r["exp"])) != fr:
            return ("broken", "model-vs-code:grid", f"printed number {tx} is not on the model's grid")
        if r["exp"] > 0:
            chk.branch("grid-small")
    if fam in c15_text.TEXT_FAMS:
        # the text formats: writer and reader against Model/C15Text.lean, then variants of the text for the readers
        res = c15_text.judge_text(chk, fam, x, y, payload)
        if res is not None:
            return res
        if stats:
            res = c15_text.reader_stream(chk, fam, payload, chk.rng, chk.pick(4, 8))
            if res is not None:
                return res
    if stats:
        chk.case((fam, json.dumps(spec, sort_keys=True)[:300]), nontrivial=fam not in ("port", "postselect"),
                 sample={"family": fam, "entry": entry})
    return None


def check_grid_values(chk, rng, n):
    """`simple_float(v, nsimplify=False)` against the model's grid on the exact rational of the float"""
    from perceval.utils import simple_float
    vals = []
    for _ in range(n):
        r = rng.random()
        v = rng.random() if r < 0.4 else rng.random() * 10 ** (-rng.randint(1, 12)) if r < 0.8 else \
            rng.choice([0.0, 1.0, 0.5, 1e-3, 1e-4, 9.999995e-4, 0.9999995, 123.4567891, 2.5e-7, 1 / 3, 2 / 3])
        vals.append(v)
    reqs = []
    for v in vals:
        fr = Fraction(*v.as_integer_ratio())
        reqs.append({"op": "grid", "n": fr.numerator, "d": fr.denominator})
    reps = chk.lean.ask_many(reqs)
    exact = 0
    for v, r in zip(vals, reps):
        if "err" in r:
            return ("broken", "driver-rejects", r["err"])
        txt = simple_float(v, nsimplify=False)[1]
        got = Fraction(txt)
        want = Fraction(r["num"], 10 ** (6 + r["exp"]))
        unit = Fraction(1, 10 ** (6 + r["exp"]))
        if got == want:
            exact += 1
        elif abs(got - want) > unit:      # float rounding of alpha/precision may move a tie by one unit
            return ("broken", "model-vs-code:grid", f"simple_float({v!r}) = {txt}, model grid gives {float(want)!r}")
        # the property's own bound: the text is within half a unit (+ one unit of float slop at ties)
        if abs(got - Fraction(*v.as_integer_ratio())) > unit * Fraction(3, 2):
            return ("violation", "grid-precision", f"simple_float({v!r}) = {txt} is off by more than the 1e-6 grid")
        if r["exp"] > 0:
            chk.branch("grid-small")
        chk.case(("grid", txt), nontrivial=r["exp"] > 0)
    chk.count("grid", "exact", exact)
    chk.count("grid", "within-one-unit", len(vals) - exact)
    return None


# --- post-selection expressions (Model/C15PS.lean) ------------------------------------------------------
PS_FEATURE_BRANCHES = {"not-single": "negated-single", "not-single-multidigit": "negated-single-multidigit",
                       "not-single-multidigit-nonlast": "negated-single-multidigit-not-last",
                       "not-single-mode-multidigit": "negated-single-mode-multidigit",
                       "not-group": "negated-group", "not-group-multidigit": "negated-group-multidigit",
                       "not-not": "double-negation", "value-multidigit": "value-multidigit", "value-max": "value-max",
                       "mode-multidigit": "mode-multidigit", "modes-list-multidigit": "mode-list-multidigit"}


def judge_psx(chk, spec, tmpdir, stats=False):
    import random
    from collections import Counter
    from perceval.serialization import serialize, deserialize
    st = Counter()
    res = c15_ps.judge(chk.lean, spec["x"], random.Random(spec["seed"]), serialize, deserialize, fixed=True, stats=st,
                       n_mut=chk.pick(4, 8) if stats else 0)
    if stats:
        for k, v in st.items():
            if isinstance(v, int):
                chk.count("postselect", k, v)
        f = c15_ps.features(spec["x"])
        chk.branch("ps-model")
        if not c15_ps.not_last_free(spec["x"]):
            chk.branch("ps-negation-not-last")
        if any("not" in str(k) for k in f):
            chk.branch("ps-negation")
        if c15_ps.spec_depth(spec["x"]) >= 3:
            chk.branch("ps-nested")
        for k in PS_FEATURE_BRANCHES:
            if k in f:
                chk.branch("ps-" + PS_FEATURE_BRANCHES[k])
        if st.get("keyword-text"):
            chk.branch("ps-keyword-spelling")
        if st.get("writer-model-payload"):
            chk.branch("ps-writer-model")
        if st.get("writer-model-text"):
            chk.branch("ps-writer-model-private-function")       # not required: a private name may change
        for k in f:
            chk.count("postselect_shape", k)
        if res is None:
            chk.case(("psx", json.dumps(spec["x"], sort_keys=True)[:300]), nontrivial=c15_ps.spec_size(spec["x"]) > 1,
                     sample={"family": "postselect-expression"})
    return res


def shrink_psx(chk, spec, tmpdir, res):
    def fails(x):
        r = judge_psx(chk, dict(spec, x=x), tmpdir)
        return r is not None and r[:2] == res[:2]
    return dict(spec, x=c15_ps.shrink(spec["x"], fails))


# --- dict / list containers (Model/C15Tree.lean) -----------------------------------------------------------
TREE_LEAF_FAMS = ["det", "port", "herald", "noise", "matrix", "state", "state", "sv", "svd", "bsd", "bsc", "bss",
                  "postselect", "component"]


def gen_tree_leaf(rng):
    s = gen_simple_case(rng, rng.choice(TREE_LEAF_FAMS))
    s.pop("entry", None)
    return s, build_simple


def gen_tree_case(rng):
    depth = rng.choice([0, 1, 2, 2, 3, 3, 4])
    return {"fam": "tree", "tree": c15_tree.gen_tree(rng, depth, gen_tree_leaf), "entry": c15_tree.gen_entry(rng)}


def judge_tree_case(chk, spec, tmpdir, stats=False):
    info = {}
    res = c15_tree.judge_tree(chk.lean, spec["tree"], build_simple, same_obj, spec["entry"], tmpdir, info=info)
    if stats:
        if "reject" in info:
            chk.branch("gen-reject")
            chk.count("gen_reject", "tree: " + str(info["reject"])[:50])
            return res
        st = info.get("stats") or {}
        chk.branch("tree-model")
        chk.count("tree_entry", c15_tree.entry_name(spec["entry"]))
        chk.count("tree_depth", str(st.get("depth")))
        if st.get("obj_keys", 0) > 0:
            chk.branch("tree-object-key")
        if (st.get("depth") or 0) >= 3:
            chk.branch("tree-deep")
        if isinstance(c15_tree.norm_entry(spec["entry"]).get("compress"), list):
            chk.branch("tree-compress-list")
        if c15_tree.norm_entry(spec["entry"]).get("via") == "file":
            chk.branch("tree-file")
        if res is None:
            chk.case(("tree", json.dumps(spec, sort_keys=True, default=str)[:300]), nontrivial=(st.get("depth") or 0) >= 1,
                     sample={"family": "tree", "entry": c15_tree.entry_name(spec["entry"])})
    return res


def shrink_tree(chk, spec, tmpdir, res):
    def fails(t):
        r = judge_tree_case(chk, dict(spec, tree=t), tmpdir)
        return r is not None and r[:2] == res[:2]
    return dict(spec, tree=c15_tree.shrink(spec["tree"], fails))


# --- malformed stream -------------------------------------------------------------------------------
def tamper(rng, msg):
    """one tampering of a valid pb.Circuit message; returns its name or None"""
    from perceval.serialization import _schema_circuit_pb2 as pb
    comps = list(msg.components)

    def all_comps(m, out):
        for c in m.components:
            out.append((m, c))
            if c.WhichOneof("type") == "circuit":
                all_comps(c.circuit, out)
        return out
    allc = all_comps(msg, [])
    if not allc:
        return None
    parent, c = rng.choice(allc)
    t = c.WhichOneof("type")
    choice = rng.choice(["start", "unset", "mat", "perm", "nmode0", "clash", "param-unset", "unitary-nomat"])
    if choice == "start":
        c.starting_mode = parent.n_mode - rng.randint(0, 1)
        return "start-out-of-range"
    if choice == "unset":
        c.ClearField(t)
        return "oneof-unset"
    if choice == "mat" and t == "unitary":
        if len(c.unitary.mat.numeric.data) > 1:
            del c.unitary.mat.numeric.data[-1]
            return "matrix-short"
    if choice == "unitary-nomat" and t == "unitary":
        c.unitary.ClearField("mat")
        return "unitary-no-matrix"
    if choice == "perm" and t == "permutation":
        c.permutation.permutations[0] = c.permutation.permutations[-1]
        return "perm-duplicate"
    if choice == "nmode0" and t == "circuit":
        c.circuit.n_mode = 0
        return "subcircuit-zero-modes"
    if choice == "clash" and t in ("phase_shifter",):
        p = c.phase_shifter.phi
        if p.WhichOneof("type") == "real_value" and p.name:
            q = pb.Component()
            q.CopyFrom(c)
            q.phase_shifter.phi.real_value = p.real_value + 0.5
            parent.components.append(q)
            return "value-clash"
    if choice == "param-unset" and t in ("polarization_rotator", "phase_shifter"):
        f = "delta" if t == "polarization_rotator" else "phi"
        getattr(c, t).ClearField(f)
        return "parameter-unset"
    return None


def judge_malformed(chk, spec, rng_seed, tmpdir, stats=False):
    import random
    from perceval.serialization._circuit_serialization import serialize_circuit
    from perceval.serialization import deserialize_circuit
    try:
        b = Builder(spec["env"])
        x = b.comp(spec["c"])
        b.finish()
        msg = serialize_circuit(x)
    except Exception:
        chk.branch("gen-reject")
        return None
    what = tamper(random.Random(rng_seed), msg)
    if what is None:
        return None
    if judge_circuit(chk, dict(spec, fam="circuit", entry="binary"), tmpdir) is not None:
        return None      # reported by the circuit family; a tampered copy adds nothing
    try:
        pbd = dump_circuit(msg)
    except TypeError:
        return None
    try:
        y = deserialize_circuit(msg.SerializeToString())
        dec_py = desc_comp(y)
    except Exception as e:
        dec_py = None
        err = exc_name(e)
    rep = chk.lean.ask({"op": "decpb", "cfg": FIXED, "pb": pbd, "top": True, "n": 0})
    if "err" in rep:
        return ("broken", "driver-rejects", f"driver: {rep['err']}")
    if stats:
        chk.count("malformed", what + (":rejected" if dec_py is None else ":accepted"))
        if dec_py is None:
            chk.branch("malformed-rejected")
        chk.case(("malformed", what, json.dumps(pbd, sort_keys=True)[:200]), nontrivial=True)
    if rep["dec"] != dec_py:
        return ("broken", "model-vs-code:reader", f"tampered message ({what}): the reader "
                + ("raised" if dec_py is None else "accepted") + " but the model "
                + ("rejects" if rep["dec"] is None else "accepts/differs"))
    return None


# ------------------------------------------------------------------------------------------------
JUDGES = {"circuit": judge_circuit, "experiment": judge_experiment}


def handle(chk, spec, tmpdir, stats=True, shrink=True, seen=None):
    """judge one case; the first case of every signature is shrunk and reported, later ones are only counted"""
    fam = spec["fam"]
    judge = {"circuit": judge_circuit, "experiment": judge_experiment}.get(fam)
    if judge is not None:
        res = judge(chk, spec, tmpdir, stats)
    elif fam == "malformed":
        res = judge_malformed(chk, spec, spec["seed"], tmpdir, stats)
    elif fam == "psx":
        res = judge_psx(chk, spec, tmpdir, stats)
    elif fam == "tree":
        res = judge_tree_case(chk, spec, tmpdir, stats)
    else:
        res = judge_simple(chk, spec, tmpdir, stats)
    if res is None:
        return None
    if seen is not None:
        seen[res[1]] = seen.get(res[1], 0) + 1
        if seen[res[1]] > 1:
            return res
    if judge is not None and shrink:
        small = (shrink_circuit if fam == "circuit" else shrink_experiment)(chk, spec, tmpdir, res[0])
        res2 = judge(chk, small, tmpdir)
        if res2 is not None and res2[0] == res[0]:
            if seen is not None and res2[1] != res[1]:
                seen[res2[1]] = seen.get(res2[1], 0) + 1
            res, spec = res2, small
    if fam in ("psx", "tree") and shrink:
        small = (shrink_psx if fam == "psx" else shrink_tree)(chk, spec, tmpdir, res)
        res2 = (judge_psx if fam == "psx" else judge_tree_case)(chk, small, tmpdir)
        if res2 is not None and res2[:2] == res[:2]:
            res, spec = res2, small
    kind, sig, what = res
    chk.fail(kind, sig, what, {"spec": spec})
    return res


def load_corpus():
    out = []
    for p in sorted(glob.glob(os.path.join(core.VERIF, "corpus", "C15", "*.json"))):
        out.append(json.load(open(p))["spec"])
    return out


DETC_BRANCHES = ["detc-ctor-rejects", "detc-cap-zero", "detc-negative-cap", "detc-out-of-range",
                 "detc-wires-none-cap-dropped", "detc-type-Threshold", "detc-type-PNR", "detc-type-PPNR",
                 "detc-how-zip", "detc-how-list", "detc-identical", "detc-reader-rejects"]


NOISEC_BRANCHES = ["noisec-ctor-rejects", "noisec-set-rejected-value", "noisec-set-keyerror", "noisec-set-typeerror",
                   "noisec-reset-to-default", "noisec-pi-end", "noisec-pi-next-double-refused", "noisec-how-zip",
                   "noisec-how-list", "noisec-identical", "noisec-reader-rejects"]


def run(chk: core.Check):
    chk.rule = ("random objects of every serialisable type built with the public constructors: circuits nested up to "
                "depth 4 with fixed / variable (with and without value) / expression parameters, shared variables, "
                "named and polarised Unitary, permutations, barriers, polarisation components; experiments with "
                "heralds, ports, detectors, noise, input, filter (None/0/n), post-selection, TD/LC; detectors, ports, "
                "heralds, noise models, numeric and symbolic matrices, basic states with annotations, state vectors, "
                "the three distributions, sample lists (their texts compared character by character with "
                "Model/C15Text.lean, plus respelled / damaged variants of every text for the readers), post-selection "
                "expressions generated as syntax trees (all comparators and operators, negations of single conditions "
                "and of groups in every position, nesting, values and mode indices of one to ten digits, keyword "
                "spellings; Model/C15PS.lean, the regex pass of the writer Model/C15PSW.lean), also inside experiments, "
                "containers and files; experiments whose ports are histories over Port objects (one object on both sides "
                "at different modes, swaps, re-routing by a component, widths 1/2/4, mixed with heralds); dict/list trees nested to depth 4 with string and object keys, every "
                "kind of passthrough value and every form of the compress argument (Model/C15Tree.lean), 32-bit float "
                "conversion of doubles of 14 classes (Model/C15F32.lean); feed-forward circuit "
                "providers (histories of add_configuration / block_circuit_size calls, circuits and experiments of "
                "different sizes as payloads, frozen or not, nested) and configurators, stand-alone, in containers and "
                "inside experiments (one or two, shared detectors, components after them, shared variables); entry points text "
                "(compress on/off/default), binary, base64, file; plus tampered messages. distinct = distinct "
                "(family, spec, entry); non-trivial = nested or parametrised circuit / experiment with components "
                "and heralds, detectors or filter / any stand-alone object except bare ports and post-selections. "
                "Extension 8: Detector(n_wires, max_detections) over all int-or-None argument pairs from a pool "
                "(exhaustive over the pool, plus random) through the constructor and the factories - which calls raise, "
                "state, type, message fields, rebuilt object, detect(0..4); NoiseModel constructor calls followed by "
                "set_value histories - which calls raise and what, __dict__(), JSON payload, rebuilt object, native ==; "
                "tampered detector messages and noise payloads")
    chk.assumptions = [
        "protobuf wire encoding, base64, zlib and json are trusted (DESIGN section 8); the model starts at message fields",
        "float(expression) (sympy) is an external function; Expression sub-parameters are plain Parameters",
        "Parameter bounds (min/max/periodic) are not serialised and not compared",
        "feed-forward: the size bookkeeping of FFCircuitProvider (any history of add_configuration / block_circuit_size "
        "calls, message, reader) and the value tables of FFConfigurator (32-bit floats, Model/C15F32.lean) are "
        "modelled (Model/C15FF.lean); their payload circuits / experiments are checked by the direct round-trip "
        "oracle; a table value of modulus 32 or more moves by more than 1e-6 (theorem F32.f32_beyond_text_precision): "
        "there only the 32-bit value is compared",
        "a provider key assigned twice, the second time with a smaller circuit than the one that set the maximal size: "
        "the maximal size is not serialised, the rebuilt provider holds the largest size present (theorem "
        "FF.roundtrip_provider_any_history); generated stand-alone, everything else must survive",
        "text formats: the native StateVector drops a term whose squared modulus is not above 1e-12 and normalises "
        "lazily (keys of an SVDistribution are normalised when inserted): the model's reader returns the formal sum of "
        "the text, compared up to those two effects; annotation values other than natural numbers up to 2^24 and "
        "polarisation letters (complex / fractional values) are outside the model (direct oracle only); the model "
        "readers accept a sub-language of what the real readers accept (compared one way on damaged texts)",
        "containers: keys are strings or serialisable objects hashed by value; int/float/bool/None keys (json turns "
        "them into strings), tuples, and strings that start with ':PCVL:' are boundaries outside the generator",
        "empty parameter names, constant Expressions and names sympy treats as constants are boundary inputs outside "
        "the generator",
        "extension 8, Detector: every int-or-None argument pair of the constructor and the factories is generated "
        "(negative caps, cap 0, values around +-2^31); Detector(n, 0) is the stated boundary (`max_detections or None`: "
        "read back as Detector(n, n), theorem DetC.roundtrip_detector_exact_iff) - there everything but the cap must "
        "survive; bool / float arguments and a detector without a name (protobuf TypeError) are outside",
        "extension 8, NoiseModel: constructor arguments and set_value histories are numbers (int / float) into any "
        "name and bools into g2_distinguishable; a bool into a float field (Python's bool is a Number: accepted and "
        "stored as a bool) and None are outside the model; tampered payloads carry one defect each (the order in "
        "which several defects are reported is not modelled)",
    ]
    chk.required_branches = ["matrix-not-c-contiguous", "nested-shared-param", "expr-defined", "expr-symbolic", "expr-two-slots",
                             "unitary-polarised", "unitary-named", "filter-zero", "filter-none", "max-error-zero",
                             "max-error-set", "compress-on", "compress-off", "binary-entry", "file-entry",
                             "herald-named", "herald-auto", "detector-unset-wires", "experiment-non-unitary",
                             "malformed-rejected", "grid-small", "bss-repeat", "container", "symbolic-rectangular",
                             "ff-standalone", "ff-in-experiment", "ff-nested", "ff-in-container", "ff-negative-offset",
                             "ff-two-in-experiment", "ff-shared-detector", "ff-then-component", "ff-shared-variable",
                             "ffcp-frozen-other-size", "ffcp-add-after-block", "ffcp-replaced-key",
                             "ffcp-experiment-payload", "ffcp-rejected-add", "ffc-configurator", "ffc-configs",
                             "text-model-state", "text-model-sv", "text-model-svd", "text-model-bsd", "text-model-bsc",
                             "text-model-bss", "text-model-annotated", "text-model-annotated-sv", "text-number-exponent",
                             "text-reader-both-accept", "text-reader-both-reject", "text-reader-respelled",
                             "ps-model", "ps-negation", "ps-negation-not-last", "ps-nested",
                             "ps-negated-single", "ps-negated-single-multidigit", "ps-negated-single-multidigit-not-last",
                             "ps-negated-single-mode-multidigit", "ps-negated-group", "ps-negated-group-multidigit",
                             "ps-double-negation", "ps-value-multidigit", "ps-value-max", "ps-mode-multidigit",
                             "ps-mode-list-multidigit", "ps-keyword-spelling", "ps-writer-model",
                             "ps-in-experiment", "ps-in-experiment-negated-single",
                             "ps-in-experiment-negated-single-multidigit", "ps-in-experiment-negated-group",
                             "ps-in-object", "ps-in-object-negated-single-multidigit", "ps-in-object-negated-group",
                             "ps-in-container",
                             "port-shared-object-different-modes", "port-shared-object-different-modes-wide",
                             "port-shared-object-same-modes", "port-shared-object-with-herald", "port-one-sided",
                             "port-twin-objects", "port-swap", "port-rerouted-by-component",
                             "port-output-declared-first", "port-sides-differ-on-a-mode",
                             "tree-model", "tree-object-key", "tree-deep", "tree-compress-list", "tree-file",
                             "ffcp-stale-max", "ffc-tables-model", "ffc-values-beyond-precision", "f32-model"] + DETC_BRANCHES + NOISEC_BRANCHES
    chk.lean = core.LeanDriver("C15")
    rng = chk.rng
    pc().random_seed(chk.seed)
    n_circ = chk.pick(450, 9000)
    n_exp = chk.pick(300, 4500)
    n_ffexp = chk.pick(200, 3000)
    n_ff = chk.pick(150, 2500)
    n_simple = chk.pick(500, 10000)
    n_mal = chk.pick(150, 3000)
    n_grid = chk.pick(400, 6000)
    depth_max = chk.pick(3, 4)
    m_max = chk.pick(5, 7)
    with tempfile.TemporaryDirectory(prefix="c15-") as tmpdir:
        for spec in load_corpus():
            chk.branch("corpus")
            if spec.get("fam") in ("detc", "noisec"):
                mod_ = c15_det if spec["fam"] == "detc" else c15_noise
                res = mod_.check_cases(chk.lean, [spec["case"]], {})
                if res is not None:
                    chk.fail(res[0], res[1], res[2], {"spec": spec})
                continue
            handle(chk, spec, tmpdir, stats=False, shrink=False)
        specs = []
        for _ in range(n_circ):
            specs.append(gen_circuit_case(rng, depth_max, m_max))
        for _ in range(n_exp):
            specs.append(gen_experiment_case(rng, min(depth_max, 2), m_max))
        for _ in range(n_ffexp):
            specs.append(gen_ff_experiment_case(rng, m_max))
        for _ in range(n_simple):
            specs.append(gen_simple_case(rng))
        for _ in range(n_ff):
            specs.append(gen_simple_case(rng, "ff"))
        for _ in range(chk.pick(600, 6000)):
            specs.append({"fam": "psx", "x": c15_ps.gen_expr(rng, rng.choice([0, 1, 1, 2, 2, 3]), wide=rng.random() < 0.6),
                          "seed": rng.randint(0, 10 ** 9)})
        for _ in range(chk.pick(250, 4000)):
            specs.append(gen_tree_case(rng))
        for _ in range(n_mal):
            s = gen_circuit_case(rng, 2, m_max)
            s["fam"] = "malformed"
            s["seed"] = rng.randint(0, 10 ** 9)
            specs.append(s)
        seen_sigs = {}
        for spec in specs:
            # a defect that reproduces on hundreds of inputs is shrunk and reported a few times only
            res = handle(chk, spec, tmpdir, stats=True, seen=seen_sigs)
        res = check_grid_values(chk, rng, n_grid)
        if res is not None:
            chk.fail(res[0], res[1], res[2], {"spec": {"fam": "grid"}})
        counter = {}
        res = c15_ffv.check_f32(chk.lean, rng, chk.pick(600, 8000), counter)
        for k_, n_ in counter.items():
            chk.count("f32", k_, n_)
        if res is not None:
            chk.fail(res[0], res[1], res[2], {"spec": {"fam": "f32"}})
        else:
            chk.branch("f32-model")
        # extension 8: the constructor layer of Detector (Model/C15Det.lean)
        counter = {}
        res = c15_det.check_cases(chk.lean, c15_det.gen_cases(rng, chk.pick(300, 4000)), counter)
        if res is None:
            res = c15_det.check_tampered(chk.lean, rng, chk.pick(150, 1500), counter)
        for k_, n_ in counter.items():
            chk.count("detector-ctor", k_, n_)
            if k_ in DETC_BRANCHES and n_:
                chk.branch(k_)
        if res is not None:
            chk.fail(res[0], res[1], res[2], {"spec": {"fam": "detc", "case": res[3]}})
        # extension 8: the validation layer of NoiseModel (Model/C15Noise.lean)
        counter = {}
        res = c15_noise.check_cases(chk.lean, c15_noise.fixed_cases() +
                                    [c15_noise.gen_case(rng) for _ in range(chk.pick(500, 6000))], counter)
        if res is None:
            res = c15_noise.check_tampered(chk.lean, rng, chk.pick(160, 1600), counter)
        for k_, n_ in counter.items():
            chk.count("noise-validation", k_, n_)
            if k_ in NOISEC_BRANCHES and n_:
                chk.branch(k_)
        if res is not None:
            chk.fail(res[0], res[1], res[2], {"spec": {"fam": "noisec", "case": res[3]}})
        chk.extra["failures_by_signature"] = seen_sigs


def replay(chk, data):
    chk.lean = core.LeanDriver("C15")
    chk.rule = "replay of one stored case"
    spec = data["replay"]["spec"]
    with tempfile.TemporaryDirectory(prefix="c15-") as tmpdir:
        if spec.get("fam") == "grid":
            res = check_grid_values(chk, chk.rng, 400)
            if res is not None:
                chk.fail(res[0], res[1], res[2], {"spec": spec})
        elif spec.get("fam") == "f32":
            res = c15_ffv.check_f32(chk.lean, chk.rng, 2000)
            if res is not None:
                chk.fail(res[0], res[1], res[2], {"spec": spec})
        elif spec.get("fam") == "noisec":
            case = spec["case"]
            if "pb" in case:
                res = c15_noise.check_tampered(chk.lean, chk.rng, 400, {})
            else:
                res = c15_noise.check_cases(chk.lean, [case], {}, do_shrink=False)
            if res is not None:
                chk.fail(res[0], res[1], res[2], {"spec": spec})
        elif spec.get("fam") == "detc":
            case = spec["case"]
            if "f" in case or "fs" in case:
                res = c15_det.check_tampered(chk.lean, chk.rng, 400, {})
            else:
                res = c15_det.check_cases(chk.lean, [case], {})
            if res is not None:
                chk.fail(res[0], res[1], res[2], {"spec": spec})
        else:
            handle(chk, spec, tmpdir, stats=True, shrink=False)
