"""C02 — every strong-simulation engine returns the boson-sampling amplitudes.

For each engine (Naive, SLOS, SLAP, MPS at full bond dimension, Stepper) and each random circuit the whole
(m, n) Fock space is enumerated: prob_amplitude / probability for ALL (s, t), bulk prob_distribution / all_prob /
evolve, with and without masks, compared with the Lean specification (`pamp`, `prob`, `allStates`, masks) evaluated
exactly on the very matrix the circuit reports (dyadic rationals).
"""
from __future__ import annotations

import itertools
import json
import math

import numpy as np

from . import core, gens

ENGINES = ["Naive", "SLOS", "SLAP", "MPS", "Stepper"]
EVOLVE_ATOL = 5e-6   # StateVector container precision (components below 1e-6 are dropped, then renormalised)


def gen_circuit_spec(rng, m, depth, two_mode_only):
    comps = []
    for _ in range(depth):
        kinds = ("BS", "PS", "PERM") if two_mode_only else ("BS", "PS", "PERM", "U", "UH")
        leaf = gens.gen_leaf(rng, m, kinds=kinds)
        if two_mode_only and leaf["t"] == "PERM" and rng.random() < 0.5:
            leaf = {"t": "PERM", "perm": rng.choice([[1, 0], [0, 1]])} if m >= 2 else leaf
        w = gens.leaf_width(leaf)
        if w > m:
            continue
        comps.append([rng.randint(0, m - w), leaf])
    return {"m": m, "comps": comps}


def build_circuit(spec):
    import perceval as pcvl
    c = pcvl.Circuit(spec["m"])
    for off, leaf in spec["comps"]:
        c.add(off, gens.build_leaf(leaf))
    return c


def fact_prod(s):
    p = 1
    for x in s:
        p *= math.factorial(x)
    return p


def all_states(m, n):
    if m == 0:
        return [[]] if n == 0 else []
    out = []
    for k in range(n, -1, -1):
        for r in all_states(m - 1, n - k):
            out.append([k] + r)
    return out


def mask_json(mask_str):
    return [None if ch in " *" else int(ch) for ch in mask_str]


def gen_masks(rng, m, n):
    """one or two mask strings over {' ', digits} that keep at least one state."""
    states = all_states(m, n)
    for _ in range(20):
        k = rng.choice([1, 1, 2])
        masks = []
        for _ in range(k):
            base = rng.choice(states)
            masks.append("".join(str(base[i]) if rng.random() < 0.4 else " " for i in range(m)))
        if any(ch != " " for mk in masks for ch in mk):
            return masks
    return [" " * (m - 1) + "0"]


# ------------------------------------------------------------------------------------------------
_LONG_LIVED = {}
_CIRCUITS = {}


def run_engine(engine, circuit, m, n, masks, reuse=False, order=None, mask_with_n=True, configure=True):
    """All observable outputs of one engine on one circuit, as plain python data (or an error).
    reuse=True: the same engine object serves every case of the run (different circuits, sizes and photon
    numbers), and `order` lists the input states to submit (with repeats; a repeated state is submitted through
    the `all_prob(input_state)` signature without a prior set_input_state)."""
    import perceval as pcvl
    from perceval.backends import NaiveBackend, SLOSBackend, SLAPBackend, MPSBackend
    from perceval.simulators.stepper import Stepper
    states = all_states(m, n)
    out = {"amp": {}, "prob": {}, "dist": {}, "allprob": {}, "evolve": {}, "cross": {}}
    if engine == "Stepper":
        if reuse:
            st = _LONG_LIVED.setdefault("Stepper", Stepper(SLOSBackend()))
        else:
            st = Stepper(SLOSBackend())
        st.set_circuit(circuit)
        for s in (order or states):
            sv = st.evolve(pcvl.BasicState(s))
            out["evolve"][tuple(s)] = {tuple(k): complex(v) for k, v in sv}
        return out
    cls = {"Naive": NaiveBackend, "SLOS": SLOSBackend, "SLAP": SLAPBackend, "MPS": MPSBackend}[engine]
    b = _LONG_LIVED.setdefault(engine, cls()) if reuse else cls()
    if engine == "MPS":
        b.set_cutoff(max(2, (n + 1) ** m))   # full bond dimension (the backend caps it at d^(m//2))
    if configure:
        b.set_circuit(circuit)
    if not configure:
        pass        # same circuit and same mask as the previous case of this long-lived engine: only the inputs change
    elif masks:
        if mask_with_n:
            b.set_mask(masks, n)
        else:
            b.set_mask(masks)      # the mask is instantiated for the photon number of each input
    elif reuse:
        b.clear_mask()
    seen = set()
    for s in (order or states):
        if reuse and tuple(s) in seen:
            # re-submitted input: bulk signature that takes the input state itself
            out["allprob"][tuple(s)] = [float(x) for x in b.all_prob(pcvl.BasicState(s))]
            out["dist"][tuple(s)] = [(tuple(k), float(v)) for k, v in b.prob_distribution().items()]
            continue
        seen.add(tuple(s))
        b.set_input_state(pcvl.BasicState(s))
        if not masks:
            out["amp"][tuple(s)] = [complex(b.prob_amplitude(pcvl.BasicState(t))) for t in states]
            out["prob"][tuple(s)] = [float(b.probability(pcvl.BasicState(t))) for t in states]
            # outputs with another photon number (one more, one less): amplitude and probability must vanish
            cross = [[n + 1] + [0] * (m - 1)] + ([[n - 1] + [0] * (m - 1)] if n > 0 else [])
            out["cross"][tuple(s)] = max(
                max(abs(complex(b.prob_amplitude(pcvl.BasicState(o)))), abs(float(b.probability(pcvl.BasicState(o)))))
                for o in cross)
        out["dist"][tuple(s)] = [(tuple(k), float(v)) for k, v in b.prob_distribution().items()]
        out["allprob"][tuple(s)] = [float(x) for x in b.all_prob()]
        ev = b.evolve()
        out["evolve"][tuple(s)] = {tuple(k): complex(v) for k, v in ev}
    return out


def expected_amp(pamp, s, t):
    return pamp / math.sqrt(fact_prod(s) * fact_prod(t))


def compare(engine, obs, states, table, masked_rows, masks):
    """-> list of (signature, what, detail).  `table[i][j]` = exact pamp(s_i -> t_j) as complex."""
    bad = []
    idx = {tuple(s): i for i, s in enumerate(states)}
    for s in states:
        i = idx[tuple(s)]
        exp_amp = [expected_amp(table[i][j], s, t) for j, t in enumerate(states)]
        exp_prob = [abs(a) ** 2 for a in exp_amp]
        if masks:
            kept_states, kept_prob, kept_amp = masked_rows[tuple(s)]
        else:
            kept_states, kept_prob, kept_amp = [tuple(t) for t in states], exp_prob, exp_amp
        if tuple(s) in obs["amp"]:
            for j, t in enumerate(states):
                if not core.close(obs["amp"][tuple(s)][j], exp_amp[j]):
                    bad.append(("amplitude", f"{engine}.prob_amplitude({t}) for input {s} = "
                                f"{obs['amp'][tuple(s)][j]:.6g}, boson-sampling amplitude {exp_amp[j]:.6g}",
                                {"s": s, "t": t}))
                    break
            for j, t in enumerate(states):
                if not core.close(obs["prob"][tuple(s)][j], exp_prob[j]):
                    bad.append(("probability", f"{engine}.probability({t}) for input {s} = "
                                f"{obs['prob'][tuple(s)][j]:.6g}, expected {exp_prob[j]:.6g}", {"s": s, "t": t}))
                    break
            if tuple(s) in obs["cross"] and obs["cross"][tuple(s)] > 1e-12:
                bad.append(("cross-photon-number", f"{engine}: non-zero amplitude between photon numbers", {"s": s}))
        if tuple(s) in obs["dist"]:
            # prob_distribution: a BSDistribution drops exact zeros; compare as a map over the kept states
            d = dict(obs["dist"][tuple(s)])
            for t, p in zip(kept_states, kept_prob):
                if not core.close(d.get(tuple(t), 0.0), p):
                    bad.append(("prob_distribution", f"{engine}.prob_distribution()[{t}] for input {s} = "
                                f"{d.get(tuple(t), 0.0):.6g}, expected {p:.6g}", {"s": s, "t": list(t)}))
                    break
            extra = set(d) - set(map(tuple, kept_states))
            if extra:
                bad.append(("prob_distribution-keys", f"{engine}.prob_distribution() lists states outside the "
                            f"(masked) space: {sorted(extra)[:3]}", {"s": s}))
            ap = obs["allprob"][tuple(s)]
            if len(ap) != len(kept_states) or any(not core.close(a, p) for a, p in zip(ap, kept_prob)):
                bad.append(("all_prob-order", f"{engine}.all_prob() for input {s} is not the list of probabilities "
                            f"in enumeration order", {"s": s}))
        if tuple(s) in obs["evolve"]:
            ev = obs["evolve"][tuple(s)]
            # a StateVector is a normalised object: with a mask the kept amplitudes are renormalised
            norm = math.sqrt(sum(kept_prob)) or 1.0
            for t, a in zip(kept_states, [x / norm for x in kept_amp]):
                # a StateVector drops components below its own cut-off (1e-6) and renormalises, and the
                # step-by-step simulator does so after every component: absolute tolerance EVOLVE_ATOL
                if not (core.close(ev.get(tuple(t), 0j), a) or abs(ev.get(tuple(t), 0j) - a) <= EVOLVE_ATOL):
                    bad.append(("evolve", f"{engine}.evolve() amplitude of {list(t)} for input {s} = "
                                f"{ev.get(tuple(t), 0j):.6g}, expected {a:.6g}", {"s": s, "t": list(t)}))
                    break
            extra = [k for k in ev if k not in set(map(tuple, kept_states)) and abs(ev[k]) > 1e-12]
            if extra:
                bad.append(("evolve-keys", f"{engine}.evolve() has components outside the space: {extra[:3]}",
                            {"s": s}))
    return bad


def numpy_perm(a):
    n = a.shape[0]
    if n == 0:
        return 1.0
    tot = 0
    for p in itertools.permutations(range(n)):
        x = 1
        for i in range(n):
            x *= a[p[i], i]
        tot += x
    return tot


def oracle_pamp(u, s, t):
    """independent numpy evaluation of perm(U[t|s])"""
    if sum(s) != sum(t):
        return 0
    rows = [i for i, c in enumerate(t) for _ in range(c)]
    cols = [i for i, c in enumerate(s) for _ in range(c)]
    return numpy_perm(u[np.ix_(rows, cols)]) if rows else 1.0


def one_case(chk, spec, n, engine, masks, reuse=False, order=None, mask_with_n=True, configure=True):
    m = spec["m"]
    states = all_states(m, n)
    try:
        circuit = build_circuit(spec)
        u = np.array(circuit.compute_unitary(), dtype=complex)
    except Exception as e:
        raise
    reqs = [{"op": "table", "m": m, "n": n, "U": core.mat(u.tolist())}]
    if masks:
        for s in states:
            reqs.append({"op": "row", "m": m, "s": s, "masks": [mask_json(mk) for mk in masks], "extra": [],
                         "U": core.mat(u.tolist())})
    reps = chk.lean.ask_many(reqs)
    if "err" in reps[0]:
        raise core.LeanError(reps[0]["err"])
    assert reps[0]["states"] == states
    table = [[core.uncx(z) for z in row] for row in reps[0]["pamp"]]
    # the three model evaluations (spec, Naive loops, SLOS recursion) must agree exactly
    if reps[0]["pamp"] != reps[0]["naive"] or reps[0]["pamp"] != reps[0]["slos"]:
        return [("broken", "model-internal", "pamp / naivePamp / slosPamp differ inside the model", {"spec": spec})]
    masked_rows = {}
    if masks:
        for s, r in zip(states, reps[1:]):
            amps = [expected_amp(core.uncx(z), s, t) for z, t in zip(r["pamp"], r["states"])]
            masked_rows[tuple(s)] = ([tuple(t) for t in r["states"]], [float(core.unrat(p)) for p in r["prob"]], amps)
            chk.branch("mask")
            if len(r["states"]) < len(states):
                chk.branch("mask-drops-states")
    try:
        if configure:
            _CIRCUITS[engine] = circuit
        obs = run_engine(engine, _CIRCUITS.get(engine, circuit) if not configure else circuit, m, n, masks, reuse=reuse, order=order,
                         mask_with_n=mask_with_n, configure=configure)
    except Exception as e:
        sig = f"{engine}-raises-{type(e).__name__}" + ("-reused-instance" if reuse else "")
        return [("violation", sig, f"{engine} raised {type(e).__name__}: {str(e)[:150]} on a legal circuit/input",
                 {"spec": spec, "n": n, "engine": engine, "masks": masks, "reuse": reuse, "order": order,
                  "mask_with_n": mask_with_n})]
    bad = compare(engine, obs, states, table, masked_rows, masks)
    out = []
    for sig, what, det in bad:
        # direct oracle: independent numpy permanent on the implementation's own matrix
        s = det.get("s")
        t = det.get("t")
        confirmed = True
        if s is not None and t is not None:
            i, j = states.index(list(s)), states.index(list(t))
            confirmed = core.close(expected_amp(oracle_pamp(u, s, t), s, t), expected_amp(table[i][j], s, t), 1e-7)
        kind = "violation" if confirmed else "broken"
        out.append((kind, f"{engine}-{sig}" + ("-reused-instance" if reuse else ""), what,
                    {"spec": spec, "n": n, "engine": engine, "masks": masks, "reuse": reuse, "order": order,
                     "mask_with_n": mask_with_n, **det}))
    return out


def shrink_case(chk, spec, n, engine, masks, sig):
    def fails(comps):
        r = one_case(chk, {"m": spec["m"], "comps": comps}, n, engine, masks)
        return any(x[1] == sig for x in r)
    comps = gens.shrink_list(spec["comps"], fails, max_rounds=40)
    return {"m": spec["m"], "comps": comps}


def run(chk: core.Check):
    chk.rule = ("random circuits of BS(3 conventions, 5 unequal rational-trigonometric angles)/PS/PERM/Unitary "
                "(Cayley-rational and Haar) on m modes; for each engine the whole (m,n) Fock space is enumerated "
                "(all inputs x all outputs, bunched included) plus bulk methods, with and without masks; distinct = "
                "distinct (engine, m, n, circuit signature, masks); non-trivial = circuit has >= 2 components and n >= 2")
    chk.assumptions = ["the circuit's matrix is the one compute_unitary() reports (C01/C14 cover it)",
                       "StateVector results (evolve) are compared with absolute tolerance 5e-6: the container drops "
                       "components below 1e-6 and renormalises (after every component in the step-by-step simulator); "
                       "amplitudes and probabilities from prob_amplitude/probability/prob_distribution/all_prob use 1e-9",
                       "native kernels of exqalibur are external: the model for them is the specification itself"]
    chk.required_branches = ["mask", "mask-drops-states", "bunched-input", "reused-instance", "reused-instance-mask-without-n", "reused-instance-mask-other-photon-number", "stepper-perm-not-involution", "engine:Naive", "engine:SLOS",
                             "engine:SLAP", "engine:MPS", "engine:Stepper"]
    chk.lean = core.LeanDriver("C02")
    rng = chk.rng
    n_circ = chk.pick(10, 26)
    sizes = chk.pick([(2, 2), (2, 3), (3, 2), (3, 3), (4, 2), (4, 3), (3, 1), (3, 0)],
                     [(2, 2), (2, 4), (3, 2), (3, 3), (3, 5), (4, 2), (4, 3), (4, 4), (5, 2), (5, 3), (6, 2), (3, 1), (4, 0)])
    for spec_case in load_corpus():
        handle(chk, spec_case["spec"], spec_case["n"], spec_case["engine"], spec_case.get("masks") or [])
    for i in range(n_circ):
        m, n = sizes[i % len(sizes)]
        for engine in ENGINES:
            two = engine == "MPS"
            spec = gen_circuit_spec(rng, m, rng.randint(2, chk.pick(6, 10)), two)
            if engine == "Stepper" and m >= 3:
                # the step-by-step simulator has its own PERM shortcut: make sure permutations that are not their
                # own inverse (a cycle of length >= 3) are exercised
                w = rng.randint(3, m)
                perm = list(range(w))
                while all(perm[perm[i]] == i for i in range(w)):
                    rng.shuffle(perm)
                spec["comps"].insert(rng.randint(0, len(spec["comps"])), [rng.randint(0, m - w), {"t": "PERM", "perm": perm}])
                chk.branch("stepper-perm-not-involution")
            masks = [] if (engine == "Stepper" or rng.random() < 0.5 or n == 0) else gen_masks(rng, m, n)
            handle(chk, spec, n, engine, masks)
    # long-lived engine objects: one instance per engine serves circuits of changing size and photon number, with
    # inputs re-submitted out of order (the amplitudes must not depend on what the object served before)
    history = []
    for i in range(chk.pick(8, 24)):
        m, n = rng.choice([(2, 1), (2, 2), (3, 1), (3, 2), (3, 3), (4, 2), (2, 3), (4, 1)])
        for engine in ENGINES:
            spec = gen_circuit_spec(rng, m, rng.randint(1, 5), engine == "MPS")
            states = all_states(m, n)
            order = list(states)
            rng.shuffle(order)
            order = order + [rng.choice(states) for _ in range(3)]
            rng.shuffle(order)
            # a third of the time the long-lived engine also carries a mask given WITHOUT a photon number: it must
            # be instantiated afresh for each input's photon number
            masks = gen_masks(rng, m, n) if (engine != "Stepper" and n > 0 and rng.random() < 0.35) else []
            history.append((spec, n, engine, order, masks, True))
            if masks:
                # ... and then serves inputs of ANOTHER photon number with the same circuit and the same mask, with no
                # set_circuit / set_mask in between
                n2 = rng.choice([k for k in (1, 2, 3) if k != n])
                order2 = all_states(m, n2)
                rng.shuffle(order2)
                history.append((spec, n2, engine, order2, masks, False))
    for spec, n, engine, order, masks, configure in history:
        if masks:
            chk.branch("reused-instance-mask-without-n")
        if not configure:
            chk.branch("reused-instance-mask-other-photon-number")
        handle(chk, spec, n, engine, masks, reuse=True, order=order, mask_with_n=False, configure=configure)


def handle(chk, spec, n, engine, masks, reuse=False, order=None, mask_with_n=True, configure=True):
    m = spec["m"]
    chk.branch("engine:" + engine)
    if n >= 2:
        chk.branch("bunched-input")
    chk.count("size", f"m{m}n{n}")
    for _, leaf in spec["comps"]:
        chk.count("leaf_kind", leaf["t"])
    if reuse:
        chk.branch("reused-instance")
    res = one_case(chk, spec, n, engine, masks, reuse=reuse, order=order, mask_with_n=mask_with_n, configure=configure)
    if reuse and res:
        # the same case on a fresh object tells a history effect from a plain wrong amplitude (both are violations)
        fresh = one_case(chk, spec, n, engine, masks)
        if not fresh:
            res = [(k, s_, w + " [a freshly constructed engine gives the right values: the result depends on "
                    "what the object served before]", r) for k, s_, w, r in res]
    sig = (engine, m, n, json.dumps(spec["comps"], sort_keys=True), tuple(masks), reuse)
    chk.case(sig, nontrivial=(len(spec["comps"]) >= 2 and n >= 2),
             sample={"engine": engine, "m": m, "n": n, "masks": masks,
                     "comps": [(o, l["t"]) for o, l in spec["comps"]]})
    seen = set()
    for kind, s, what, replay in res:
        if s in seen:
            continue
        seen.add(s)
        if kind == "violation" and len(spec["comps"]) > 1 and not reuse:
            try:
                small = shrink_case(chk, spec, n, engine, masks, s)
                replay = dict(replay, spec=small)
            except Exception:
                pass
        chk.fail(kind, s, what, replay)


def load_corpus():
    import glob
    import os
    return [json.load(open(p)) for p in sorted(glob.glob(os.path.join(core.VERIF, "corpus", "C02", "*.json")))]


def replay(chk, data):
    chk.lean = core.LeanDriver("C02")
    chk.rule = "replay of one stored case"
    r = data["replay"]
    if r.get("reuse"):
        # a long-lived-engine failure depends on the whole history: re-run the run it came from (same seed and tier)
        import random
        chk.lean.close()
        chk.lean = None
        chk.rng = random.Random(data.get("seed", 0))
        chk.tier = data.get("tier", "quick")
        return run(chk)
    handle(chk, r["spec"], r["n"], r["engine"], r.get("masks") or [], order=r.get("order"))
