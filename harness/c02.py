"""C02 — every strong-simulation engine returns the boson-sampling amplitudes.

For each engine (Naive, SLOS, SLAP, MPS at full bond dimension, Stepper) and each random circuit the whole
(m, n) Fock space is enumerated: prob_amplitude / probability for ALL (s, t), bulk prob_distribution / all_prob /
evolve, with and without masks, compared with the Lean specification (`pamp`, `prob`, `allStates`, masks) evaluated
exactly on the very matrix the circuit reports (dyadic rationals).
"""
from __future__ import annotations

import itertools
import json
import math

import numpy as np

from . import core, gens

ENGINES = ["Naive", "SLOS", "SLAP", "MPS", "Stepper"]
EVOLVE_ATOL = 5e-6   # StateVector container precision (components below 1e-6 are dropped, then renormalised)


def gen_circuit_spec(rng, m, depth, two_mode_only):
    comps = []
    for _ in range(depth):
        kinds = ("BS", "PS", "PERM") if two_mode_only else ("BS", "PS", "PERM", "U", "UH")
        leaf = gens.gen_leaf(rng, m, kinds=kinds)
        if two_mode_only and leaf["t"] == "PERM" and rng.random() < 0.5:
            leaf = {"t": "PERM", "perm": rng.choice([[1, 0], [0, 1]])} if m >= 2 else leaf
        w = gens.leaf_width(leaf)
        if w > m:
            continue
        comps.append([rng.randint(0, m - w), leaf])
    return {"m": m, "comps": comps}


def build_circuit(spec):
    import perceval as pcvl
    c = pcvl.Circuit(spec["m"])
    for off, leaf in spec["comps"]:
        c.add(off, gens.build_leaf(leaf))
    return c


# ------------------------------------------------------------------------------------------------
# degenerate values.  The generic generators draw cos/sin from Pythagorean triples ("never axis-aligned") and
# Haar/Cayley unitaries, so an angle that is an exact multiple of pi/2, an exactly diagonal / anti-diagonal /
# identity / monomial block and an exactly vanishing amplitude never occur there.  This family produces exactly
# those: every slot of every leaf kind takes the values 0, pi/2, pi, -pi/2 (theta also 2pi, 3pi and the balanced
# pi/2), 2-mode Unitary blocks are diagonal, anti-diagonal, scalar, real or the identity, wider blocks are
# monomial (a permutation with phases), and the block is placed between two mixing components so that a wrong
# phase shows up as a wrong probability.
# ------------------------------------------------------------------------------------------------
AXIS = [["1", "0"], ["0", "1"], ["-1", "0"], ["0", "-1"]]            # (cos, sin) of 0, pi/2, pi, -pi/2
# half-angle of theta as (x, y) of atan2: theta = 0, pi, 2pi, 3pi (= -pi), pi/2, 3pi/2, 4pi (the end of the range)
THETA_DEG = {"zero": ["1", "0"], "pi": ["0", "1"], "2pi": ["-1", "0"], "3pi": ["0", "-1"], "half": ["1", "1"],
             "3half": ["-1", "1"]}
_UNITS = [(1, 0), (-1, 0), (0, 1), (0, -1)]


def _unit_qc(rng, exact_axis=None):
    """a complex number of modulus one over Q[i]: a fourth root of unity or a Pythagorean phase"""
    from fractions import Fraction
    if exact_axis is None:
        exact_axis = rng.random() < 0.5
    if exact_axis:
        re, im = rng.choice(_UNITS)
        return gens.QC(re, im)
    c, s = core.rational_cs(rng)
    return gens.QC(Fraction(c), Fraction(s))


def _deg_phases(rng, p_generic=0.35):
    """the four phase slots of a BS: each one an exact multiple of pi/2 (or, sometimes, a generic angle)"""
    return {k: (gens.gen_cs(rng) if rng.random() < p_generic else rng.choice(AXIS)) for k in ("tl", "bl", "tr", "br")}


DEG_KINDS_2 = ("bs-theta-zero", "bs-theta-zero", "bs-theta-pi", "bs-theta-2pi", "bs-theta-half", "bs-phase-slots",
               "ps-axis", "u2-diagonal", "u2-diagonal", "u2-antidiagonal", "u2-scalar", "u2-identity", "u2-real",
               "u1-axis", "perm-identity", "perm-swap")
DEG_CYCLE = sorted(set(DEG_KINDS_2))
DEG_KINDS_WIDE = ("u3-monomial", "u3-diagonal", "perm-identity-3", "u3-identity")


def gen_degenerate_leaf(rng, maxw, two_mode_only, kind=None):
    """-> (leaf spec, kind): one component with exactly degenerate values (width <= maxw)"""
    kinds = [k for k in DEG_KINDS_2 + (() if two_mode_only else DEG_KINDS_WIDE)
             if not (maxw < 2 and not k.startswith(("ps", "u1"))) and not (maxw < 3 and k in DEG_KINDS_WIDE)]
    kind = kind or rng.choice(kinds)
    q0, q1 = gens.QC(0), gens.QC(1)
    if kind.startswith("bs-theta-"):
        which = kind[len("bs-theta-"):]
        if which == "pi":
            which = rng.choice(["pi", "3pi"])
        elif which == "half":
            which = rng.choice(["half", "3half"])
        leaf = {"t": "BS", "conv": rng.choice(["Rx", "Ry", "H"]), "theta": THETA_DEG[which]}
        leaf.update(_deg_phases(rng, 0.5) if rng.random() < 0.7 else {k: AXIS[0] for k in ("tl", "bl", "tr", "br")})
        return leaf, kind
    if kind == "bs-phase-slots":
        leaf = {"t": "BS", "conv": rng.choice(["Rx", "Ry", "H"]), "theta": gens.gen_cs(rng)}
        leaf.update(_deg_phases(rng, 0.0))
        return leaf, kind
    if kind == "ps-axis":
        return {"t": "PS", "phi": rng.choice(AXIS)}, kind
    if kind == "u1-axis":
        return {"t": "U", "rows": gens.qmat_json([[_unit_qc(rng, True)]])}, kind
    if kind == "u2-diagonal":
        a = _unit_qc(rng)
        b = _unit_qc(rng)
        while b == a:
            b = _unit_qc(rng)
        return {"t": "U", "rows": gens.qmat_json([[a, q0], [q0, b]])}, kind
    if kind == "u2-antidiagonal":
        return {"t": "U", "rows": gens.qmat_json([[q0, _unit_qc(rng)], [_unit_qc(rng), q0]])}, kind
    if kind == "u2-scalar":
        a = _unit_qc(rng)
        return {"t": "U", "rows": gens.qmat_json([[a, q0], [q0, a]])}, kind
    if kind == "u2-identity":
        return {"t": "U", "rows": gens.qmat_json([[q1, q0], [q0, q1]])}, kind
    if kind == "u2-real":
        from fractions import Fraction
        c, s = core.rational_cs(rng)
        c, s = gens.QC(Fraction(c)), gens.QC(Fraction(s))
        rows = [[c, -s], [s, c]] if rng.random() < 0.5 else [[c, s], [s, -c]]     # rotation / reflection, all real
        return {"t": "U", "rows": gens.qmat_json(rows)}, kind
    if kind == "perm-identity":
        return {"t": "PERM", "perm": [0, 1]}, kind
    if kind == "perm-swap":
        return {"t": "PERM", "perm": [1, 0]}, kind
    if kind == "perm-identity-3":
        return {"t": "PERM", "perm": [0, 1, 2]}, kind
    if kind == "u3-identity":
        return {"t": "U", "rows": gens.qmat_json(gens.qmat_eye(3))}, kind
    if kind in ("u3-monomial", "u3-diagonal"):
        p = [0, 1, 2]
        if kind == "u3-monomial":
            while p == [0, 1, 2]:
                rng.shuffle(p)
        ph = [_unit_qc(rng) for _ in range(3)]
        if kind == "u3-diagonal" and ph[0] == ph[1] == ph[2]:
            ph[2] = ph[2] * gens.QC(0, 1)
        return {"t": "U", "rows": gens.qmat_json([[ph[i] if p[j] == i else q0 for j in range(3)] for i in range(3)])}, kind
    raise ValueError(kind)


def gen_mixer(rng, two_mode_only, w=2):
    """a component that mixes its modes with generic (nowhere vanishing) entries"""
    if not two_mode_only and rng.random() < 0.3:
        return {"t": "UH", "n": w, "seed": rng.randrange(1 << 30)}
    return gens.gen_leaf(rng, 2, kinds=("BS",))


def gen_degenerate_spec(rng, m, two_mode_only, shape, forced=None):
    """-> (spec, kinds): a circuit of the degenerate family.
    shape 'between': generic prefix, mixer, degenerate block, mixer, generic suffix - the two mixers overlap the
    block, so the block's phases decide probabilities;  'mixed': generic and degenerate components interleaved;
    'all': only degenerate components (most amplitudes vanish exactly, the matrix may be monomial)."""
    comps, kinds = [], []

    def place(leaf, lo=None, hi=None):
        w = gens.leaf_width(leaf)
        offs = [o for o in range(0, m - w + 1) if (lo is None or (o <= hi and o + w - 1 >= lo))]
        comps.append([rng.choice(offs), leaf])
        return comps[-1][0]

    def generic(k):
        for _ in range(k):
            leaf = gens.gen_leaf(rng, m, kinds=("BS", "PS", "PERM") if two_mode_only else ("BS", "PS", "PERM", "U", "UH"))
            if gens.leaf_width(leaf) <= m:
                place(leaf)

    if m == 1:
        for _ in range(rng.randint(1, 3)):
            leaf, kind = gen_degenerate_leaf(rng, 1, two_mode_only)
            place(leaf)
            kinds.append(kind)
        return {"m": m, "comps": comps}, kinds
    if shape == "between":
        generic(rng.randint(0, 2))
        leaf, kind = gen_degenerate_leaf(rng, m, two_mode_only,
                                         kind=forced or rng.choice(["bs-theta-zero", "u2-diagonal", None, None]))
        w = gens.leaf_width(leaf)
        off = rng.randint(0, m - w)
        lo, hi = off, off + w - 1
        # the mixers act on the LAST mode of the block (and one neighbour): a phase error on any mode of the block
        # is then turned into a probability error
        mixer = lambda: gen_mixer(rng, two_mode_only, rng.choice([2, min(3, m)]))
        place(mixer(), hi if rng.random() < 0.7 else lo, hi)
        comps.append([off, leaf])
        kinds.append(kind)
        if rng.random() < 0.3:          # two degenerate blocks in a row on overlapping modes
            leaf2, kind2 = gen_degenerate_leaf(rng, m, two_mode_only)
            place(leaf2, lo, hi)
            kinds.append(kind2)
        place(mixer(), hi if rng.random() < 0.7 else lo, hi)
        generic(rng.randint(0, 2))
        kinds.append("between-mixers")
    elif shape == "mixed":
        for _ in range(rng.randint(3, 6)):
            if rng.random() < 0.5:
                leaf, kind = gen_degenerate_leaf(rng, m, two_mode_only)
                place(leaf)
                kinds.append(kind)
            else:
                generic(1)
    else:
        for _ in range(rng.randint(2, 5)):
            leaf, kind = gen_degenerate_leaf(rng, m, two_mode_only)
            place(leaf)
            kinds.append(kind)
        kinds.append("all-degenerate")
    return {"m": m, "comps": comps}, kinds


def block_shapes(spec):
    """what the REAL components' own matrices look like (exact float comparisons on purpose): the counters below
    are only credited when the matrix the engines will see is exactly degenerate"""
    out = set()
    for off, leaf in spec["comps"]:
        u = np.array(gens.build_leaf(leaf).compute_unitary(use_symbolic=False), dtype=complex)
        k = u.shape[0]
        offdiag = u[~np.eye(k, dtype=bool)]
        if k >= 2 and np.all(offdiag == 0):
            d = np.diagonal(u)
            if np.all(d == 1):
                out.add("identity")
            elif np.all(d == d[0]):
                out.add("scalar")
            else:
                out.add("diagonal")
                if k == 2:
                    out.add("diagonal-2")
        elif k == 2 and u[0, 0] == 0 and u[1, 1] == 0:
            out.add("antidiagonal")
        elif k >= 2 and np.all((u != 0).sum(axis=0) == 1):
            out.add("monomial")
        elif k == 2 and np.all(np.abs(offdiag) < 1e-12):
            out.add("nearly-diagonal")
        elif k == 2 and abs(u[0, 0]) < 1e-12:
            out.add("nearly-antidiagonal")
        if k == 1 and min(abs(u[0, 0] - z) for z in (1, -1, 1j, -1j)) < 1e-12:
            out.add("phase-axis")
        if leaf["t"] == "BS" and leaf["theta"] == THETA_DEG["zero"]:
            out.add("theta-zero")
    return out


def fact_prod(s):
    p = 1
    for x in s:
        p *= math.factorial(x)
    return p


def all_states(m, n):
    if m == 0:
        return [[]] if n == 0 else []
    out = []
    for k in range(n, -1, -1):
        for r in all_states(m - 1, n - k):
            out.append([k] + r)
    return out


def mask_json(mask_str):
    return [None if ch in " *" else int(ch) for ch in mask_str]


def gen_masks(rng, m, n):
    """one or two mask strings over {' ', digits} that keep at least one state."""
    states = all_states(m, n)
    for _ in range(20):
        k = rng.choice([1, 1, 2])
        masks = []
        for _ in range(k):
            base = rng.choice(states)
            masks.append("".join(str(base[i]) if rng.random() < 0.4 else " " for i in range(m)))
        if any(ch != " " for mk in masks for ch in mk):
            return masks
    return [" " * (m - 1) + "0"]


# ------------------------------------------------------------------------------------------------
_LONG_LIVED = {}
_CIRCUITS = {}


def run_engine(engine, circuit, m, n, masks, reuse=False, order=None, mask_with_n=True, configure=True):
    """All observable outputs of one engine on one circuit, as plain python data (or an error).
    reuse=True: the same engine object serves every case of the run (different circuits, sizes and photon
    numbers), and `order` lists the input states to submit (with repeats; a repeated state is submitted through
    the `all_prob(input_state)` signature without a prior set_input_state)."""
    import perceval as pcvl
    from perceval.backends import NaiveBackend, SLOSBackend, SLAPBackend, MPSBackend
    from perceval.simulators.stepper import Stepper
    states = all_states(m, n)
    out = {"amp": {}, "prob": {}, "dist": {}, "allprob": {}, "evolve": {}, "cross": {}, "allprob_again": {},
           "evolve_again": {}, "amp_again": {}}
    if engine == "Stepper":
        if reuse:
            st = _LONG_LIVED.setdefault("Stepper", Stepper(SLOSBackend()))
        else:
            st = Stepper(SLOSBackend())
        st.set_circuit(circuit)
        for s in (order or states):
            sv = st.evolve(pcvl.BasicState(s))
            out["evolve"][tuple(s)] = {tuple(k): complex(v) for k, v in sv}
        return out
    cls = {"Naive": NaiveBackend, "SLOS": SLOSBackend, "SLAP": SLAPBackend, "MPS": MPSBackend}[engine]
    b = _LONG_LIVED.setdefault(engine, cls()) if reuse else cls()
    if engine == "MPS":
        b.set_cutoff(max(2, (n + 1) ** m))   # full bond dimension (the backend caps it at d^(m//2))
    if configure:
        b.set_circuit(circuit)
    if not configure:
        pass        # same circuit and same mask as the previous case of this long-lived engine: only the inputs change
    elif masks:
        if mask_with_n:
            b.set_mask(masks, n)
        else:
            b.set_mask(masks)      # the mask is instantiated for the photon number of each input
    elif reuse:
        b.clear_mask()
    seen = set()
    for s in (order or states):
        if reuse and tuple(s) in seen:
            # re-submitted input: bulk signature that takes the input state itself
            out["allprob"][tuple(s)] = [float(x) for x in b.all_prob(pcvl.BasicState(s))]
            out["dist"][tuple(s)] = [(tuple(k), float(v)) for k, v in b.prob_distribution().items()]
            continue
        seen.add(tuple(s))
        b.set_input_state(pcvl.BasicState(s))
        if not masks:
            out["amp"][tuple(s)] = [complex(b.prob_amplitude(pcvl.BasicState(t))) for t in states]
            out["prob"][tuple(s)] = [float(b.probability(pcvl.BasicState(t))) for t in states]
            # outputs with another photon number (one more, one less): amplitude and probability must vanish
            cross = [[n + 1] + [0] * (m - 1)] + ([[n - 1] + [0] * (m - 1)] if n > 0 else [])
            out["cross"][tuple(s)] = max(
                max(abs(complex(b.prob_amplitude(pcvl.BasicState(o)))), abs(float(b.probability(pcvl.BasicState(o)))))
                for o in cross)
        out["dist"][tuple(s)] = [(tuple(k), float(v)) for k, v in b.prob_distribution().items()]
        out["allprob"][tuple(s)] = [float(x) for x in b.all_prob()]
        ev = b.evolve()
        out["evolve"][tuple(s)] = {tuple(k): complex(v) for k, v in ev}
        # the same questions again, after every kind of query has been answered once for this input: an answer
        # must not depend on what was asked before (a bulk query or evolve() that rescales cached data in place)
        # (four inputs per case: the two most bunched ones, the middle and the last of the enumeration)
        if not reuse and states.index(list(s)) not in (0, 1, len(states) // 2, len(states) - 1):
            continue
        out["allprob_again"][tuple(s)] = [float(x) for x in b.all_prob()]
        out["evolve_again"][tuple(s)] = {tuple(k): complex(v) for k, v in b.evolve()}
        if not masks:
            # (a sample of the outputs, a different one for each input: the first sweep covered all of them)
            stride = max(1, len(states) // 4)
            out["amp_again"][tuple(s)] = {j: complex(b.prob_amplitude(pcvl.BasicState(states[j])))
                                          for j in range(len(seen) % stride, len(states), stride)}
    return out


def expected_amp(pamp, s, t):
    return pamp / math.sqrt(fact_prod(s) * fact_prod(t))


def compare(engine, obs, states, table, masked_rows, masks):
    """-> list of (signature, what, detail).  `table[i][j]` = exact pamp(s_i -> t_j) as complex."""
    bad = []
    idx = {tuple(s): i for i, s in enumerate(states)}
    for s in states:
        i = idx[tuple(s)]
        exp_amp = [expected_amp(table[i][j], s, t) for j, t in enumerate(states)]
        exp_prob = [abs(a) ** 2 for a in exp_amp]
        if masks:
            kept_states, kept_prob, kept_amp, kept_mass, ev_prob = masked_rows[tuple(s)]
        else:
            # no mask: the model proves the kept mass is one for a unitary (keptMass_unmasked)
            kept_states, kept_prob, kept_amp, kept_mass, ev_prob = [tuple(t) for t in states], exp_prob, exp_amp, 1.0, exp_prob
        if tuple(s) in obs["amp"]:
            for j, t in enumerate(states):
                if not core.close(obs["amp"][tuple(s)][j], exp_amp[j]):
                    bad.append(("amplitude", f"{engine}.prob_amplitude({t}) for input {s} = "
                                f"{obs['amp'][tuple(s)][j]:.6g}, boson-sampling amplitude {exp_amp[j]:.6g}",
                                {"s": s, "t": t}))
                    break
            for j, t in enumerate(states):
                if not core.close(obs["prob"][tuple(s)][j], exp_prob[j]):
                    bad.append(("probability", f"{engine}.probability({t}) for input {s} = "
                                f"{obs['prob'][tuple(s)][j]:.6g}, expected {exp_prob[j]:.6g}", {"s": s, "t": t}))
                    break
            if tuple(s) in obs["cross"] and obs["cross"][tuple(s)] > 1e-12:
                bad.append(("cross-photon-number", f"{engine}: non-zero amplitude between photon numbers", {"s": s}))
        if tuple(s) in obs["dist"]:
            # prob_distribution: a BSDistribution drops exact zeros; compare as a map over the kept states
            d = dict(obs["dist"][tuple(s)])
            for t, p in zip(kept_states, kept_prob):
                if not core.close(d.get(tuple(t), 0.0), p):
                    bad.append(("prob_distribution", f"{engine}.prob_distribution()[{t}] for input {s} = "
                                f"{d.get(tuple(t), 0.0):.6g}, expected {p:.6g}", {"s": s, "t": list(t)}))
                    break
            extra = set(d) - set(map(tuple, kept_states))
            if extra:
                bad.append(("prob_distribution-keys", f"{engine}.prob_distribution() lists states outside the "
                            f"(masked) space: {sorted(extra)[:3]}", {"s": s}))
            ap = obs["allprob"][tuple(s)]
            if len(ap) != len(kept_states) or any(not core.close(a, p) for a, p in zip(ap, kept_prob)):
                bad.append(("all_prob-order", f"{engine}.all_prob() for input {s} is not the list of probabilities "
                            f"in enumeration order", {"s": s}))
        if tuple(s) in obs["allprob_again"]:
            ap = obs["allprob_again"][tuple(s)]
            if len(ap) != len(kept_states) or any(not core.close(a, p) for a, p in zip(ap, kept_prob)):
                bad.append(("all_prob-second-query", f"{engine}.all_prob() for input {s}, asked again after "
                            f"prob_distribution()/evolve() on the same object, is not the list of probabilities "
                            f"(first differing entry: {next(((list(t), a, p) for t, a, p in zip(kept_states, ap, kept_prob) if not core.close(a, p)), None)})",
                            {"s": s}))
        if tuple(s) in obs["amp_again"]:
            for j, t in enumerate(states):
                if j in obs["amp_again"][tuple(s)] and not core.close(obs["amp_again"][tuple(s)][j], exp_amp[j]):
                    bad.append(("amplitude-second-query", f"{engine}.prob_amplitude({t}) for input {s}, asked again "
                                f"after the bulk queries and evolve() on the same object = "
                                f"{obs['amp_again'][tuple(s)][j]:.6g}, boson-sampling amplitude {exp_amp[j]:.6g}",
                                {"s": s, "t": t}))
                    break
        for which in ("evolve", "evolve_again"):
            if tuple(s) not in obs[which]:
                continue
            ev = obs[which][tuple(s)]
            label = "evolve" if which == "evolve" else "evolve-second-query"
            # a StateVector is a normalised object: with a mask the kept amplitudes are renormalised
            # model: kept amplitudes / sqrt(keptMass) (evolve_mask_restrict, evolveProbs_eq, evolve_normalised)
            norm = math.sqrt(kept_mass) or 1.0
            # the container's cut-off acts on the UN-normalised components (|amplitude| < 1e-6 is dropped), the
            # division by sqrt(kept mass) comes after: the absolute tolerance scales with 1/sqrt(kept mass).  When
            # the mask keeps (numerically) nothing - kept mass below 1e-8, e.g. an exactly vanishing amplitude that
            # is 1e-16 in floating point - the normalised vector is not defined and nothing is compared.
            atol = EVOLVE_ATOL / norm
            for (t, a), p2 in zip(zip(kept_states, [x / norm for x in kept_amp]), ev_prob):
                if kept_mass < 1e-8:
                    break
                if abs(abs(ev.get(tuple(t), 0j)) ** 2 - p2) > 2 * atol:
                    bad.append((label, f"{engine}.evolve() |amplitude|^2 of {list(t)} for input {s} = "
                                f"{abs(ev.get(tuple(t), 0j)) ** 2:.6g}, expected probability/kept mass {p2:.6g}",
                                {"s": s, "t": list(t)}))
                    break
                # a StateVector drops components below its own cut-off (1e-6) and renormalises, and the
                # step-by-step simulator does so after every component: absolute tolerance EVOLVE_ATOL
                if not (core.close(ev.get(tuple(t), 0j), a) or abs(ev.get(tuple(t), 0j) - a) <= atol):
                    bad.append((label, f"{engine}.evolve() amplitude of {list(t)} for input {s} = "
                                f"{ev.get(tuple(t), 0j):.6g}, expected {a:.6g}", {"s": s, "t": list(t)}))
                    break
            extra = [k for k in ev if k not in set(map(tuple, kept_states)) and abs(ev[k]) > 1e-12]
            if extra:
                bad.append((label + "-keys", f"{engine}.evolve() has components outside the space: {extra[:3]}",
                            {"s": s}))
    return bad


def numpy_perm(a):
    n = a.shape[0]
    if n == 0:
        return 1.0
    tot = 0
    for p in itertools.permutations(range(n)):
        x = 1
        for i in range(n):
            x *= a[p[i], i]
        tot += x
    return tot


def oracle_pamp(u, s, t):
    """independent numpy evaluation of perm(U[t|s])"""
    if sum(s) != sum(t):
        return 0
    rows = [i for i, c in enumerate(t) for _ in range(c)]
    cols = [i for i, c in enumerate(s) for _ in range(c)]
    return numpy_perm(u[np.ix_(rows, cols)]) if rows else 1.0


def one_case(chk, spec, n, engine, masks, reuse=False, order=None, mask_with_n=True, configure=True):
    m = spec["m"]
    states = all_states(m, n)
    try:
        circuit = build_circuit(spec)
        u = np.array(circuit.compute_unitary(), dtype=complex)
    except Exception as e:
        raise
    reqs = [{"op": "table", "m": m, "n": n, "U": core.mat(u.tolist())}]
    if masks:
        for s in states:
            reqs.append({"op": "row", "m": m, "s": s, "masks": [mask_json(mk) for mk in masks], "extra": [],
                         "U": core.mat(u.tolist())})
    cache = chk.__dict__.setdefault("_c02_lean_cache", {})
    ckey = json.dumps(reqs, sort_keys=True)
    if ckey not in cache:       # the same circuit is given to several engines (degenerate family): one exact evaluation
        if len(cache) > 64:
            cache.clear()
        cache[ckey] = chk.lean.ask_many(reqs)
    reps = cache[ckey]
    if "err" in reps[0]:
        raise core.LeanError(reps[0]["err"])
    assert reps[0]["states"] == states
    table = [[core.uncx(z) for z in row] for row in reps[0]["pamp"]]
    # the three model evaluations (spec, Naive loops, SLOS recursion) must agree exactly
    if reps[0]["pamp"] != reps[0]["naive"] or reps[0]["pamp"] != reps[0]["slos"]:
        return [("broken", "model-internal", "pamp / naivePamp / slosPamp differ inside the model", {"spec": spec})]
    masked_rows = {}
    if masks:
        for s, r in zip(states, reps[1:]):
            amps = [expected_amp(core.uncx(z), s, t) for z, t in zip(r["pamp"], r["states"])]
            masked_rows[tuple(s)] = ([tuple(t) for t in r["states"]], [float(core.unrat(p)) for p in r["prob"]], amps,
                                     float(core.unrat(r["mass"])), [float(core.unrat(p)) for p in r["evprob"]])
            chk.branch("mask")
            if len(r["states"]) < len(states):
                chk.branch("mask-drops-states")
    try:
        if configure:
            _CIRCUITS[engine] = circuit
        obs = run_engine(engine, _CIRCUITS.get(engine, circuit) if not configure else circuit, m, n, masks, reuse=reuse, order=order,
                         mask_with_n=mask_with_n, configure=configure)
    except Exception as e:
        sig = f"{engine}-raises-{type(e).__name__}" + ("-one-mode" if m == 1 else "") + ("-reused-instance" if reuse else "")
        return [("violation", sig, f"{engine} raised {type(e).__name__}: {str(e)[:150]} on a legal circuit/input",
                 {"spec": spec, "n": n, "engine": engine, "masks": masks, "reuse": reuse, "order": order,
                  "mask_with_n": mask_with_n})]
    bad = compare(engine, obs, states, table, masked_rows, masks)
    out = []
    for sig, what, det in bad:
        # direct oracle: independent numpy permanent on the implementation's own matrix
        s = det.get("s")
        t = det.get("t")
        confirmed = True
        if s is not None and t is not None:
            i, j = states.index(list(s)), states.index(list(t))
            confirmed = core.close(expected_amp(oracle_pamp(u, s, t), s, t), expected_amp(table[i][j], s, t), 1e-7)
        kind = "violation" if confirmed else "broken"
        out.append((kind, f"{engine}-{sig}" + ("-reused-instance" if reuse else ""), what,
                    {"spec": spec, "n": n, "engine": engine, "masks": masks, "reuse": reuse, "order": order,
                     "mask_with_n": mask_with_n, **det}))
    return out


# ------------------------------------------------------------------------------------------------
# MPS transition tensors: the closed formulas (Model tm1 / tm2, theorems mps_tm1_eq_pamp / mps_tm2_eq_pamp)
# ------------------------------------------------------------------------------------------------
def gen_block2(rng, kind):
    """a 2x2 block as a list of rows of python complex (every float is an exact dyadic rational for Lean)."""
    if kind == "cayley":
        return gens.qmat_to_np(gens.cayley_unitary(rng, 2)).tolist()
    if kind == "leaf":
        leaf = gens.gen_leaf(rng, 2, kinds=("BS",))
        return np.array(gens.build_leaf(leaf).compute_unitary(use_symbolic=False), dtype=complex).tolist()
    # arbitrary (non-unitary) matrix with small dyadic entries: the formula is an identity of polynomials in the
    # four entries, unitarity plays no role
    def z():
        return complex(rng.randint(-8, 8) / 8, rng.randint(-8, 8) / 8)
    if kind == "degenerate":
        # exactly diagonal / anti-diagonal / scalar / identity unitary blocks (Unitary and BS leaves at theta = 0, pi,
        # 2pi with phases on the axes) ...
        leaf, _ = gen_degenerate_leaf(rng, 2, True, kind=rng.choice(
            ["bs-theta-zero", "bs-theta-pi", "bs-theta-2pi", "bs-theta-half", "bs-phase-slots", "u2-diagonal",
             "u2-antidiagonal", "u2-scalar", "u2-identity", "u2-real"]))
        return np.array(gens.build_leaf(leaf).compute_unitary(use_symbolic=False), dtype=complex).tolist()
    if kind == "free-degenerate":
        # ... and non-unitary matrices with exactly vanishing entries (diagonal, anti-diagonal, triangular, one
        # entry, zero)
        pat = rng.choice([(1, 0, 0, 1), (0, 1, 1, 0), (1, 1, 0, 1), (1, 0, 1, 1), (1, 0, 0, 0), (0, 0, 0, 1),
                          (0, 1, 0, 0), (0, 0, 0, 0)])
        e = [z() if b else 0j for b in pat]
        return [[e[0], e[1]], [e[2], e[3]]]
    return [[z(), z()], [z(), z()]]


def real_tensor2(u, nmax, unitary):
    """{(n1, n2, m1, m2): entry} of the real two-mode transition tensor for photon number nmax, and how it was
    obtained: 'direct' = the array returned by MPSBackend._transition_matrix_2_mode; 'public' = through
    set_circuit / set_input_state / prob_amplitude on a two-mode circuit holding the block (unitary blocks only)."""
    import perceval as pcvl
    from perceval.backends import MPSBackend
    b = MPSBackend()
    fn = getattr(b, "_transition_matrix_2_mode", None)
    if fn is not None:
        b.set_circuit(pcvl.Circuit(2))
        b.set_input_state(pcvl.BasicState([nmax, 0]))
        t = np.asarray(fn(np.array(u, dtype=complex)))
        d = nmax + 1
        if t.shape != (d, d, d, d):
            raise ValueError(f"tensor shape {t.shape}")
        return "direct", {(a, b_, c, e): complex(t[a, b_, c, e]) for a in range(d) for b_ in range(d)
                          for c in range(d) for e in range(d) if a + b_ <= nmax}
    if not unitary:
        return "skipped", {}
    out = {}
    b.set_cutoff(max(2, (nmax + 1) ** 2))
    b.set_circuit(pcvl.Circuit(2).add(0, pcvl.Unitary(pcvl.Matrix(np.array(u, dtype=complex)))))
    for n1 in range(nmax + 1):
        b.set_input_state(pcvl.BasicState([n1, nmax - n1]))
        for m1 in range(nmax + 1):
            out[(n1, nmax - n1, m1, nmax - m1)] = complex(b.prob_amplitude(pcvl.BasicState([m1, nmax - m1])))
    return "public", out


def real_tensor1(z, d):
    import perceval as pcvl
    from perceval.backends import MPSBackend
    b = MPSBackend()
    fn = getattr(b, "_transition_matrix_1_mode", None)
    if fn is not None:
        b.set_circuit(pcvl.Circuit(1))
        b.set_input_state(pcvl.BasicState([d - 1]))
        t = np.asarray(fn(np.array([[z]], dtype=complex)))
        if t.shape != (d, d):
            raise ValueError(f"tensor shape {t.shape}")
        return "direct", {(i, j): complex(t[i, j]) for i in range(d) for j in range(d)}
    out = {}
    if abs(abs(z) - 1) > 1e-12:
        return "skipped", out
    # (a one-mode circuit would do, but the phase is placed on the first of two modes so that this route does not
    # depend on the engine accepting one-mode circuits)
    b.set_circuit(pcvl.Circuit(2).add(0, pcvl.Unitary(pcvl.Matrix(np.array([[z]], dtype=complex)))))
    b.set_input_state(pcvl.BasicState([d - 1, 0]))
    out[(d - 1, d - 1)] = complex(b.prob_amplitude(pcvl.BasicState([d - 1, 0])))
    return "public", out


def mps_tensor_case(chk, u, nmax, unitary):
    """-> list of (kind, signature, what, replay)"""
    rep = chk.lean.ask({"op": "mps2", "nmax": nmax, "U": core.mat(u)})
    if "err" in rep:
        raise core.LeanError(rep["err"])
    d = nmax + 1
    cells = [(a, b, c, e) for a in range(d) for b in range(d) for c in range(d) for e in range(d)]
    from fractions import Fraction
    for (n1, n2, m1, m2), tm, pa in zip(cells, rep["tm2"], rep["pamp"]):
        if n1 + n2 <= nmax:
            f = math.factorial(m1) * math.factorial(m2)
            if [Fraction(tm[0]) * f, Fraction(tm[1]) * f] != [Fraction(pa[0]), Fraction(pa[1])]:
                return [("broken", "model-internal", "m1! m2! tm2 differs from pamp inside the model",
                         {"mps2": {"u": core.mat(u), "nmax": nmax}})]
    how, real = real_tensor2(u, nmax, unitary)
    chk.branch("mps-tensor2" if how != "skipped" else "mps-tensor2-skipped")
    chk.count("mps_tensor_route", how)
    model = {c: core.uncx(tm) for c, tm in zip(cells, rep["tm2"])}
    npu = np.array(u, dtype=complex)
    out = []
    for cell, val in real.items():
        n1, n2, m1, m2 = cell
        scale = math.sqrt(math.factorial(m1) * math.factorial(m2)) / math.sqrt(math.factorial(n1) * math.factorial(n2))
        exp = model[cell] * scale
        if n1 >= 2 or n2 >= 2:
            chk.branch("mps-tensor2-bunched")
        if not core.close(val, exp, 1e-9 if how == "direct" else 1e-7):
            doc = oracle_pamp(npu, [n1, n2], [m1, m2]) / math.sqrt(fact_prod([n1, n2]) * fact_prod([m1, m2]))
            kind = "violation" if not core.close(val, doc, 1e-7) else "broken"
            out.append((kind, "MPS-transition-tensor-2-mode",
                        f"MPS two-mode transition tensor ({how}) entry |{n1},{n2}> -> |{m1},{m2}> = {val:.9g}, "
                        f"boson-sampling amplitude of the block {doc:.9g} (model {exp:.9g})",
                        {"mps2": {"u": core.mat(u), "nmax": nmax, "unitary": unitary}, "cell": list(cell)}))
            break
    return out


def mps_tensor1_case(chk, z, d):
    rep = chk.lean.ask({"op": "mps1", "d": d, "U": core.mat([[z]])})
    if "err" in rep:
        raise core.LeanError(rep["err"])
    cells = [(i, j) for i in range(d) for j in range(d)]
    model = {c: core.uncx(t) for c, t in zip(cells, rep["tm1"])}
    how, real = real_tensor1(z, d)
    chk.branch("mps-tensor1")
    out = []
    for (i, j), val in real.items():
        if not core.close(val, model[(i, j)], 1e-9 if how == "direct" else 1e-7):
            doc = (z ** i) if i == j else 0.0          # perm of the constant i x i matrix / i!
            kind = "violation" if not core.close(val, doc, 1e-7) else "broken"
            out.append((kind, "MPS-transition-tensor-1-mode",
                        f"MPS one-mode transition tensor ({how}) entry |{i}> -> |{j}> = {val:.9g}, amplitude of the phase "
                        f"{doc:.9g}", {"mps1": {"z": core.cx(z), "d": d}}))
            break
    return out


# ------------------------------------------------------------------------------------------------
# Stepper, component by component (Model stepperApply / stepperPerm, theorems stepper_apply_eq_stepAmps,
# stepper_run_sound): every intermediate vector
# ------------------------------------------------------------------------------------------------
_STEPPER_BOX = {}


def stepper_steps_case(chk, spec, s, reuse):
    import perceval as pcvl
    from perceval.backends import SLOSBackend, NaiveBackend
    from perceval.simulators.stepper import Stepper
    from perceval.components.unitary_components import PERM
    m = spec["m"]
    n = sum(s)
    circuit = build_circuit(spec)
    elems = list(circuit)
    steps = []
    mats = []
    for r, c in elems:
        cu = np.array(c.compute_unitary(use_symbolic=False), dtype=complex)
        full = np.eye(m, dtype=complex)
        full[r[0]:r[0] + cu.shape[0], r[0]:r[0] + cu.shape[0]] = cu
        mats.append(full)
        if isinstance(c, PERM):
            steps.append({"r0": r[0], "perm": [int(x) for x in c.perm_vector]})
        else:
            steps.append({"r0": r[0], "U": core.mat(cu.tolist())})
    rep = chk.lean.ask({"op": "stepper", "m": m, "s": s, "steps": steps})
    if "err" in rep:
        raise core.LeanError(rep["err"])
    states = rep["states"]
    replay = {"stepper": {"spec": spec, "s": s}}
    if rep["final"] != rep["pamp"] or any(rep["outside"]) or (steps and rep["vecs"][-1] != rep["final"]):
        return [("broken", "model-internal", "stepperRun differs from pamp of the component product inside the model",
                 replay)]
    if reuse:
        st = _STEPPER_BOX.setdefault("st", Stepper(SLOSBackend()))
    else:
        st = Stepper(SLOSBackend() if chk.rng.random() < 0.7 else NaiveBackend())
    st.set_circuit(circuit)
    out = []
    try:
        sv = pcvl.StateVector(pcvl.BasicState(s))
        real_vecs = []
        for r, c in elems:
            sv = c.apply(r, sv) if hasattr(c, "apply") else st.apply(sv, r, c)
            real_vecs.append({tuple(k): complex(v) for k, v in sv})
        final = {tuple(k): complex(v) for k, v in st.evolve(pcvl.BasicState(s))}
    except Exception as e:
        return [("violation", f"Stepper-raises-{type(e).__name__}",
                 f"Stepper raised {type(e).__name__}: {str(e)[:150]} on a legal circuit/input", replay)]
    fs = fact_prod(s)
    acc = np.eye(m, dtype=complex)
    for i, (rv, mv) in enumerate(list(zip(real_vecs, rep["vecs"])) + [(final, rep["final"])]):
        if i < len(mats):
            acc = mats[i] @ acc
        last = i == len(real_vecs)
        exp = {tuple(t): core.uncx(z) / math.sqrt(fs * fact_prod(t)) for t, z in zip(states, mv)}
        wrong = [t for t in exp if not (core.close(rv.get(t, 0j), exp[t]) or abs(rv.get(t, 0j) - exp[t]) <= EVOLVE_ATOL)]
        wrong += [t for t in rv if t not in exp and abs(rv[t]) > 1e-12]
        if wrong:
            t = wrong[0]
            doc = expected_amp(oracle_pamp(acc, s, list(t)), s, list(t)) if (len(t) == m and sum(t) == n) else 0.0
            kind = "violation" if abs(rv.get(t, 0j) - doc) > 2 * EVOLVE_ATOL else "broken"
            where = "Stepper.evolve()" if last else f"the state vector after component {i} ({type(elems[i][1]).__name__} on {list(elems[i][0])})"
            out.append((kind, "Stepper-evolve" if last else "Stepper-step-amplitude",
                        f"{where}: amplitude of {list(t)} for input {s} = {rv.get(t, 0j):.6g}, boson-sampling amplitude of the "
                        f"circuit so far {doc:.6g} (model {exp.get(t, 0j):.6g})", dict(replay, step=i)))
            break
    return out


def shrink_case(chk, spec, n, engine, masks, sig):
    def fails(comps):
        r = one_case(chk, {"m": spec["m"], "comps": comps}, n, engine, masks)
        return any(x[1] == sig for x in r)
    comps = gens.shrink_list(spec["comps"], fails, max_rounds=40)
    return {"m": spec["m"], "comps": comps}


# ------------------------------------------------------------------------------------------------
# sessions: the configuration glue of AStrongSimulationBackend (set_circuit / set_input_state / set_mask(masks, n) /
# clear_mask / iterator cache keyed by the photon number) against the Lean state machine `PM.C02.Sess`
# (theorem session_bulk_history_independent: a bulk answer depends on the current configuration only).
# A script is a list of operations given to ONE engine object; every bulk answer is compared with the model's
# list of states (order and length) and the exact probabilities of the current circuit on these states.
# ------------------------------------------------------------------------------------------------
SESSION_ENGINES = ["Naive", "SLOS", "SLAP", "MPS"]
MASK_N_VARIANTS = ["none", "same", "zero", "more", "nomask", "fewer", "none", "same", "more2", "nomask"]


def py_kept(m, n, masks, mask_n):
    """independent reading of the mask semantics (direct oracle, not the Lean model): the states of the (m, n) space
    kept by a mask instantiated for `mask_n or n` photons"""
    states = all_states(m, n)
    if masks is None:
        return states
    eff = mask_n or n
    if eff < n:
        return []
    out = []
    for t in states:
        for mk in masks:
            deficit, ok = 0, True
            for ch, x in zip(mk, t):
                if ch in " *":
                    continue
                if x > int(ch):
                    ok = False
                    break
                deficit += int(ch) - x
            if ok and deficit <= eff - n:
                out.append(t)
                break
    return out


def gen_session(rng, i, quick):
    """one script (the same for every engine): mostly legal, optionally ending with one illegal operation"""
    m0 = rng.choice([2, 3, 3])
    circuits = [gen_circuit_spec(rng, m0, rng.randint(1, 4), True)]
    ops = [{"o": "circ", "c": 0}]
    cur_m, has_input, cur_n = m0, False, None
    variant = MASK_N_VARIANTS[i % len(MASK_N_VARIANTS)]
    mask_first = (i // len(MASK_N_VARIANTS)) % 2 == 0      # the mask is set before / after the first input
    same_m_next = (i % 3) != 0 if variant != "nomask" else (i // 5) % 2 == 0

    def rand_state(n=None):
        n_ = rng.choice([1, 2, 2, 3] if cur_m < 3 or quick else [1, 2, 2, 3]) if n is None else n
        return rng.choice(all_states(cur_m, n_))

    def mask_op(n_ref):
        base = rng.choice(all_states(cur_m, max(n_ref, 1)))
        k = rng.choice([1, 1, 2])
        wild = rng.choice([" ", " ", "*"])
        masks = []
        for _ in range(k):
            b = base if not masks else rng.choice(all_states(cur_m, max(n_ref, 1)))
            mk = "".join(str(b[j]) if rng.random() < 0.45 else wild for j in range(cur_m))
            masks.append(mk)
        if all(ch in " *" for mk in masks for ch in mk):
            masks[0] = str(base[0]) + masks[0][1:]
        nn = {"none": None, "same": n_ref, "zero": 0, "more": n_ref + 1, "more2": n_ref + 2,
              "fewer": max(n_ref - 1, 0)}[variant]
        return {"o": "mask", "masks": masks if k > 1 or rng.random() < 0.5 else masks[0], "n": nn}

    def queries(s):
        qs = []
        for _ in range(rng.randint(1, 3)):
            q = rng.choice(["allprob", "allprob_s", "dist", "evolve"])
            qs.append({"o": "bulk", "q": q, "s": (rand_state(sum(s)) if rng.random() < 0.6 else s) if q == "allprob_s" else None})
        return qs

    n1 = rng.choice([2, 2, 3, 1] if variant != "fewer" else [2, 2, 3, 3])   # ('fewer': n1 - 1 must stay a photon number >= 1)
    s1 = rand_state(n1)
    if variant == "nomask":
        # no mask at all in the first part: nothing but set_circuit itself stands between the iterator cache of the
        # first circuit and the queries on the second one
        ops.append({"o": "input", "s": s1})
    elif mask_first:
        ops.append(mask_op(n1))
        ops.append({"o": "input", "s": s1})
    else:
        ops.append({"o": "input", "s": s1})
        ops += queries(s1)[:1]
        ops.append(mask_op(n1))
    ops += queries(s1)
    # another input of the same photon number: served from the iterator cache
    s2 = rand_state(n1)
    ops.append({"o": "input", "s": s2})
    ops += queries(s2)
    # another photon number with the same mask and circuit
    n2 = rng.choice([k for k in (1, 2, 3) if k != n1])
    s3 = rand_state(n2)
    ops.append({"o": "bulk", "q": "allprob_s", "s": s3} if rng.random() < 0.5 else {"o": "input", "s": s3})
    ops += queries(s3)
    # back to the first photon number
    if rng.random() < 0.6:
        ops.append({"o": "input", "s": rand_state(n1)})
        ops += queries(s1)[:2]
    # a new circuit (same size: SLOS keeps its deployed paths; another size: everything is rebuilt)
    new_m = cur_m if same_m_next else (5 - cur_m)
    circuits.append(gen_circuit_spec(rng, new_m, rng.randint(1, 4), True))
    ops.append({"o": "circ", "c": 1})
    keep_mask = (same_m_next and rng.random() < 0.6) or variant == "nomask"
    cur_m = new_m
    if variant == "nomask":
        variant = "none"
    if not keep_mask:
        if rng.random() < 0.5:
            ops.append({"o": "clear"})
        else:
            ops.append(mask_op(n1))
    s4 = rand_state(rng.choice([n1, n1, n2]))
    ops.append({"o": "input", "s": s4})
    ops += queries(s4)
    tail = rng.random()
    if tail < 0.3:
        ops.append({"o": "clear"})
        ops += queries(s4)
    elif tail < 0.6:
        ops.append(mask_op(sum(s4)))
        ops += queries(s4)
    # one illegal operation at the end of some scripts
    bad = i % 5 == 4 and rng.choice(["input-size", "mask-size", "mask-inconsistent", "no-input"])
    if bad == "input-size":
        ops.append({"o": "input", "s": [1] * (cur_m + 1)})
    elif bad == "mask-size":
        ops.append({"o": "mask", "masks": "1" + " " * cur_m, "n": None})
    elif bad == "mask-inconsistent":
        ops.append({"o": "mask", "masks": ["1" + " " * (cur_m - 1), "1" + " " * cur_m], "n": None})
    elif bad == "no-input":
        ops.append({"o": "circ", "c": 1})
        ops.append({"o": "bulk", "q": rng.choice(["allprob", "dist", "evolve"]), "s": None})
    return {"circuits": circuits, "ops": ops, "bad": bad or None}


def session_lean_ops(script):
    out = []
    for op in script["ops"]:
        if op["o"] == "circ":
            out.append({"o": "circ", "m": script["circuits"][op["c"]]["m"]})
        elif op["o"] == "input":
            out.append({"o": "input", "s": op["s"]})
        elif op["o"] == "mask":
            mk = op["masks"]
            out.append({"o": "mask", "masks": [mask_json(x) for x in ([mk] if isinstance(mk, str) else mk)], "n": op["n"]})
        elif op["o"] == "clear":
            out.append({"o": "clear"})
        else:
            out.append({"o": "bulk", "q": op["q"].replace("_s", ""), "s": op["s"]})
    return out


SESSION_KIND = {"Naive": "base", "MPS": "base", "SLOS": "slos", "SLAP": "slap"}


def run_session_real(engine, script, circuits):
    """-> one observation per operation: ("ok", data) or ("err", class name); stops at the first exception"""
    import perceval as pcvl
    from perceval.backends import NaiveBackend, SLOSBackend, SLAPBackend, MPSBackend
    b = {"Naive": NaiveBackend, "SLOS": SLOSBackend, "SLAP": SLAPBackend, "MPS": MPSBackend}[engine]()
    if engine == "MPS":
        b.set_cutoff(64)       # full bond dimension for m <= 3, n <= 3
    obs = []
    for op in script["ops"]:
        try:
            if op["o"] == "circ":
                b.set_circuit(circuits[op["c"]])
                obs.append(("ok", None))
            elif op["o"] == "input":
                b.set_input_state(pcvl.BasicState(op["s"]))
                obs.append(("ok", None))
            elif op["o"] == "mask":
                if op["n"] is None:
                    b.set_mask(op["masks"])
                else:
                    b.set_mask(op["masks"], op["n"])
                obs.append(("ok", None))
            elif op["o"] == "clear":
                b.clear_mask()
                obs.append(("ok", None))
            elif op["q"] == "allprob":
                obs.append(("ok", [float(x) for x in b.all_prob()]))
            elif op["q"] == "allprob_s":
                obs.append(("ok", [float(x) for x in b.all_prob(pcvl.BasicState(op["s"]))]))
            elif op["q"] == "dist":
                obs.append(("ok", [(tuple(k), float(v)) for k, v in b.prob_distribution().items()]))
            else:
                obs.append(("ok", {tuple(k): complex(v) for k, v in b.evolve()}))
        except Exception as e:      # noqa: BLE001 - the class name is the observation
            obs.append(("err", type(e).__name__))
            break
    return obs


def session_case(chk, engine, script, credit=True):
    """-> list of (kind, signature, what, replay)"""
    circuits = [build_circuit(sp) for sp in script["circuits"]]
    us = [np.array(c.compute_unitary(), dtype=complex) for c in circuits]
    cache = chk.__dict__.setdefault("_c02_sess_cache", {})
    key = json.dumps(script, sort_keys=True)
    if key not in cache:
        cache.clear()
        lops = session_lean_ops(script)
        models = chk.lean.ask_many([{"op": "session", "kind": k, "ops": lops} for k in ("base", "slos", "slap")])
        for model in models:
            if "err" in model:
                raise core.LeanError(model["err"])
        # exact amplitudes of every (circuit, photon number) the script reaches
        need, cur, n_in = [], None, None
        for op in script["ops"]:
            if op["o"] == "circ":
                cur = op["c"]
            elif op.get("s") is not None:
                n_in = sum(op["s"])
                if (cur, n_in) not in need and len(op["s"]) == script["circuits"][cur]["m"]:
                    need.append((cur, n_in))
        reps = chk.lean.ask_many([{"op": "table", "m": script["circuits"][c]["m"], "n": n, "U": core.mat(us[c].tolist())}
                                  for c, n in need])
        tables = {}
        for (c, n), r in zip(need, reps):
            if "err" in r:
                raise core.LeanError(r["err"])
            tables[(c, n)] = (r["states"], [[core.uncx(z) for z in row] for row in r["pamp"]])
        cache[key] = ({k: mdl["outs"] for k, mdl in zip(("base", "slos", "slap"), models)}, tables)
    outs, tables = cache[key]
    outs = outs[SESSION_KIND[engine]]
    obs = run_session_real(engine, script, circuits)
    rp = {"session": {"engine": engine, "script": script}}
    bad = []
    cur, s_in, masks, mask_n = None, None, None, None
    for idx, op in enumerate(script["ops"]):
        if idx >= len(outs) or idx >= len(obs):
            if len(outs) != len(obs):
                bad.append(("broken", f"{engine}-session-length", f"model answered {len(outs)} operations, the engine "
                            f"{len(obs)}", rp))
            break
        mo, ro = outs[idx], obs[idx]
        # shadow of the configuration (for the direct oracle and the branch counters only)
        if op["o"] == "circ":
            cur, s_in = op["c"], None
        elif op["o"] == "mask":
            mk = op["masks"]
            masks, mask_n = ([mk] if isinstance(mk, str) else list(mk)), op["n"]
        elif op["o"] == "clear":
            masks, mask_n = None, None
        if op.get("s") is not None:
            s_in = op["s"]
        if "err" in mo or ro[0] == "err":
            if "err" in mo and ro[0] == "err":
                if credit:
                    chk.branch("session-illegal-op-raises")
                    chk.count("session_error", f"{mo['err']}:{ro[1]}")
            elif ro[0] == "err":
                bad.append(("violation", f"{engine}-session-raises-{ro[1]}", f"{engine} raised {ro[1]} at operation "
                            f"{idx} ({json.dumps(op)}) of a legal session", rp))
            else:
                bad.append(("broken", f"{engine}-session-no-exception", f"{engine} accepted operation {idx} "
                            f"({json.dumps(op)}) which the model rejects ({mo['err']})", rp))
            break
        if op["o"] != "bulk":
            continue
        m = script["circuits"][cur]["m"]
        n = sum(s_in)
        states, table = tables[(cur, n)]
        i_s = states.index(list(s_in))
        listed, valued = mo["ok"]["labels"], mo["ok"]["values"]
        if listed != valued:
            # (proved impossible in the model: session_bulk_history_independent_{base,slos,slap})
            bad.append(("broken", f"{engine}-session-model-labels", "the model files a value under another state", rp))
            break

        def prob_of(t, oracle=False):
            if oracle:
                return abs(expected_amp(oracle_pamp(us[cur], s_in, t), s_in, t)) ** 2
            return abs(expected_amp(table[i_s][states.index(list(t))], s_in, t)) ** 2
        exp = [prob_of(t) for t in listed]
        kept = py_kept(m, n, masks, mask_n)
        if credit:
            chk.branch("session-bulk")
            chk.count("session_query", f"{engine}:{op['q']}")
            if masks is not None:
                eff = mask_n or n
                chk.branch("session-mask")
                if mask_n == 0:
                    chk.branch("session-mask-n-zero")
                if eff > n:
                    chk.branch("session-mask-slack")
                if eff < n:
                    chk.branch("session-mask-too-few-photons")
                if 0 < len(listed) < len(states):
                    chk.branch("session-mask-drops-states")
        what = None
        mass = sum(exp)
        if op["q"] in ("allprob", "allprob_s"):
            got = ro[1]
            if len(got) != len(exp) or any(not core.close(a, p) for a, p in zip(got, exp)):
                what = (f"all_prob() returned {len(got)} values {[round(x, 6) for x in got[:6]]}, the configuration "
                        f"prescribes {len(exp)} states {listed[:6]} with probabilities {[round(x, 6) for x in exp[:6]]}")
            ok_direct = len(got) == len(kept) and all(core.close(a, prob_of(t, True), 1e-7) for a, t in zip(got, kept))
        elif op["q"] == "dist":
            d = dict(ro[1])
            extra = set(d) - set(map(tuple, listed))
            miss = [t for t, p in zip(listed, exp) if not core.close(d.get(tuple(t), 0.0), p)]
            if extra or miss:
                what = (f"prob_distribution() gives {sorted(d.items())[:4]}, the configuration prescribes "
                        f"{list(zip(listed, [round(x, 6) for x in exp]))[:4]}")
            ok_direct = not (set(d) - set(map(tuple, kept))) and all(
                core.close(d.get(tuple(t), 0.0), prob_of(t, True), 1e-7) for t in kept)
        else:
            ev = ro[1]
            ok_direct = True
            if mass >= 1e-8:
                atol = EVOLVE_ATOL / math.sqrt(mass)
                extra = [k for k in ev if list(k) not in listed and abs(ev[k]) > 1e-12]
                miss = [t for t, p in zip(listed, exp) if abs(abs(ev.get(tuple(t), 0j)) ** 2 - p / mass) > 2 * atol]
                if extra or miss:
                    what = (f"evolve() has |amplitude|^2 {[(k, round(abs(v) ** 2, 6)) for k, v in list(ev.items())[:4]]}, "
                            f"the configuration prescribes {[(t, round(p / mass, 6)) for t, p in zip(listed, exp)][:4]}")
                mass_d = sum(prob_of(t, True) for t in kept)
                ok_direct = mass_d >= 1e-8 and not [k for k in ev if list(k) not in kept and abs(ev[k]) > 1e-12] and all(
                    abs(abs(ev.get(tuple(t), 0j)) ** 2 - prob_of(t, True) / mass_d) <= 2 * EVOLVE_ATOL / math.sqrt(mass_d)
                    for t in kept)
        if what is not None:
            kind = "broken" if ok_direct else "violation"
            bad.append((kind, f"{engine}-session-{op['q'].replace('_s', '')}",
                        f"{engine}, operation {idx} ({json.dumps(op)}) with input {s_in}, masks {masks} (n={mask_n}): "
                        + what + " [the answer depends on what the object served before]" * (kind == "violation"), rp))
            break
    return bad


def shrink_session(chk, engine, script, sig):
    def fails(ops):
        sc = dict(script, ops=ops)
        try:
            return any(x[1] == sig for x in session_case(chk, engine, sc, credit=False))
        except Exception:
            return False
    try:
        return dict(script, ops=gens.shrink_list(script["ops"], fails, max_rounds=30))
    except Exception:
        return script


def handle_session(chk, engine, script, credit=True):
    res = session_case(chk, engine, script, credit)
    if credit:
        chk.branch("session:" + engine)
        ms = [script["circuits"][op["c"]]["m"] for op in script["ops"] if op["o"] == "circ"]
        if len(ms) >= 2 and ms[0] == ms[1]:
            chk.branch("session-new-circuit-same-size")
        if len(ms) >= 2 and ms[0] != ms[1]:
            chk.branch("session-new-circuit-other-size")
        kinds = [op["o"] for op in script["ops"]]
        if "mask" in kinds and "input" in kinds and kinds.index("mask") < kinds.index("input"):
            chk.branch("session-mask-before-input")
        if "mask" in kinds and "input" in kinds and kinds.index("mask") > kinds.index("input"):
            chk.branch("session-mask-after-input")
        if "clear" in kinds:
            chk.branch("session-clear-mask")
        if len(ms) >= 2 and kinds.count("circ") >= 2:
            second = [j for j, k in enumerate(kinds) if k == "circ"][1]
            nxt = [k for k in kinds[second + 1:] if k in ("mask", "clear", "bulk")]
            if nxt and nxt[0] == "bulk" and ms[0] != ms[1]:
                chk.branch("session-other-size-no-mask-op-between")
            if nxt and nxt[0] == "bulk" and ms[0] == ms[1]:
                chk.branch("session-same-size-no-mask-op-between")
    chk.case(("session", engine, json.dumps(script, sort_keys=True)), nontrivial=True,
             sample={"session": engine, "ops": [op["o"] + (":" + op["q"] if op["o"] == "bulk" else "") for op in script["ops"]]})
    for kind, sig, what, rp in res:
        if kind == "violation":
            rp = {"session": {"engine": engine, "script": shrink_session(chk, engine, script, sig)}}
        chk.fail(kind, sig, what, rp)


def run(chk: core.Check):
    chk.rule = ("random circuits of BS(3 conventions, 5 unequal rational-trigonometric angles)/PS/PERM/Unitary "
                "(Cayley-rational and Haar) on m modes; for each engine the whole (m,n) Fock space is enumerated "
                "(all inputs x all outputs, bunched included) plus bulk methods, with and without masks; distinct = "
                "distinct (engine, m, n, circuit signature, masks); non-trivial = circuit has >= 2 components and n >= 2. "
                "Extension: (a) the MPS transition tensors of rational 2x2 blocks (Cayley unitaries, BS leaves, arbitrary "
                "non-unitary dyadic matrices) and 1x1 phases are compared cell by cell with the model's closed formulas "
                "tm2/tm1 (proved equal to the permanent) for every (n1,n2,m1,m2) within the photon number; (b) the "
                "Stepper is driven component by component (Stepper.apply / PERM.apply) and every intermediate state "
                "vector is compared with the model's restricted-mode propagation (proved equal to the amplitudes of "
                "the partial circuit); (c) evolve() under a mask is compared with kept amplitudes / sqrt(kept mass) "
                "with the kept mass computed by the model; (d) degenerate values: circuits whose components take exact "
                "multiples of pi/2 in every slot (BS theta = 0, pi, 2pi, 3pi, pi/2 in three conventions, PS), exactly "
                "diagonal / anti-diagonal / scalar / identity / real 2-mode Unitary blocks, monomial 3-mode blocks, "
                "identity and swap PERMs - every kind in every run - with an exactly diagonal non-scalar block between "
                "two mixing components, for every engine and query, fresh and long-lived, tensors and step by step; "
                "(e) every query is asked a second time on the same object after all kinds of queries were served; "
                "(f) sessions: scripts of set_circuit / set_input_state / set_mask(masks, n: none, 0, equal, above, "
                "below the photon number; ' ' and '*' wildcards; one or two masks) / clear_mask / all_prob() / "
                "all_prob(input) / prob_distribution() / evolve() given to ONE object of Naive, SLOS, SLAP, MPS "
                "(second circuit of the same or another size, mask before / after the input, inputs of two photon "
                "numbers served from the same object, no mask operation between the two circuits, one illegal "
                "operation at the end of a fifth of the scripts) against the Lean state machine of the configuration "
                "glue (iterator cache keyed by the photon number, mask object, SLOS _fsas/_state_mapping resets, SLAP "
                "_fock_space): every bulk answer = the states the current configuration prescribes with the exact "
                "probabilities of the current circuit, exceptions at the same operation")
    chk.assumptions = ["the circuit's matrix is the one compute_unitary() reports (C01/C14 cover it)",
                       "StateVector results (evolve) are compared with absolute tolerance 5e-6: the container drops "
                       "components below 1e-6 and renormalises (after every component in the step-by-step simulator); "
                       "amplitudes and probabilities from prob_amplitude/probability/prob_distribution/all_prob use 1e-9",
                       "native kernels of exqalibur are external: the model for them is the specification itself",
                       "sessions: xq.FSMask(m, n, masks) keeps the states whose deficit to the digits fits in n minus "
                       "their photon number, nothing when they have more than n photons (swept exhaustively against "
                       "the extension for m <= 3, n <= 3, mask n <= 4 when the model was written; compared on every "
                       "run); the session ends at the first exception (nothing is claimed about the object afterwards)"]
    chk.required_branches = ["mask", "mask-drops-states", "bunched-input", "reused-instance", "reused-instance-mask-without-n", "reused-instance-mask-other-photon-number", "stepper-perm-not-involution", "engine:Naive", "engine:SLOS",
                             "engine:SLAP", "engine:MPS", "engine:Stepper", "one-mode", "mps-tensor2", "mps-tensor2-bunched",
                             "mps-tensor2-nonsymmetric", "mps-tensor1", "stepper-steps", "stepper-steps-perm",
                             "stepper-steps-spectators-both-sides", "stepper-steps-bunched",
                             "degenerate-diagonal-block", "degenerate-theta-zero", "degenerate-between-mixers",
                             "degenerate-antidiagonal-block", "degenerate-identity-block", "degenerate-all",
                             "degenerate-axis-phase", "degenerate-mask", "degenerate-one-mode",
                             "degenerate-reused-instance", "degenerate-stepper-steps", "degenerate-mps-tensor2"] + \
                            [f"degenerate-diagonal-block-between-mixers:{e}" for e in ENGINES] + \
                            ["session-bulk", "session-mask", "session-mask-n-zero", "session-mask-slack",
                             "session-mask-too-few-photons", "session-mask-drops-states", "session-illegal-op-raises",
                             "session-new-circuit-same-size", "session-new-circuit-other-size",
                             "session-mask-before-input", "session-mask-after-input", "session-clear-mask",
                             "session-other-size-no-mask-op-between", "session-same-size-no-mask-op-between"] + \
                            [f"session:{e}" for e in SESSION_ENGINES]
    chk.lean = core.LeanDriver("C02")
    rng = chk.rng
    n_circ = chk.pick(10, 26)
    sizes = chk.pick([(2, 2), (2, 3), (3, 2), (3, 3), (4, 2), (4, 3), (3, 1), (3, 0)],
                     [(2, 2), (2, 4), (3, 2), (3, 3), (3, 5), (4, 2), (4, 3), (4, 4), (5, 2), (5, 3), (6, 2), (3, 1), (4, 0)])
    for spec_case in load_corpus():
        # (corpus cases never credit the required-branch counters: those measure the generator)
        for engine in spec_case.get("engines") or [spec_case["engine"]]:
            handle(chk, spec_case["spec"], spec_case["n"], engine,
                   [] if engine == "Stepper" else (spec_case.get("masks") or []))
    for i in range(n_circ):
        m, n = sizes[i % len(sizes)]
        for engine in ENGINES:
            two = engine == "MPS"
            spec = gen_circuit_spec(rng, m, rng.randint(2, chk.pick(6, 10)), two)
            if engine == "Stepper" and m >= 3:
                # the step-by-step simulator has its own PERM shortcut: make sure permutations that are not their
                # own inverse (a cycle of length >= 3) are exercised
                w = rng.randint(3, m)
                perm = list(range(w))
                while all(perm[perm[i]] == i for i in range(w)):
                    rng.shuffle(perm)
                spec["comps"].insert(rng.randint(0, len(spec["comps"])), [rng.randint(0, m - w), {"t": "PERM", "perm": perm}])
                chk.branch("stepper-perm-not-involution")
            masks = [] if (engine == "Stepper" or rng.random() < 0.5 or n == 0) else gen_masks(rng, m, n)
            handle(chk, spec, n, engine, masks)
    # --- degenerate values: every engine gets the SAME circuit (two-mode components only, so that MPS takes it) on
    # even rounds; on odd rounds the four engines that accept wider blocks get monomial 3-mode blocks as well
    deg_sizes = chk.pick([(2, 2), (3, 2), (3, 3), (4, 2), (2, 3), (3, 1), (3, 2), (4, 2)],
                         [(2, 2), (3, 2), (3, 3), (4, 2), (2, 4), (3, 1), (5, 2), (3, 2)])
    deg_offset = rng.randrange(len(DEG_CYCLE))
    for i in range(chk.pick(8, 12)):
        m, n = deg_sizes[i % len(deg_sizes)]
        shape = ("between", "between", "mixed", "all")[i % 4]
        forced = {0: "bs-theta-zero", 1: "u2-diagonal"}.get(i % 4)
        spec2, kinds2 = gen_degenerate_case(rng, m, True, shape, forced)
        specw, kindsw = gen_degenerate_case(rng, m, False, shape, forced) if i % 2 else (spec2, kinds2)
        # every degenerate kind occurs in every run, whatever the seed: two kinds of the cycle are added to each case
        for spec_, kinds_ in ((spec2, kinds2),) + (((specw, kindsw),) if specw is not spec2 else ()):
            for j in (2 * i, 2 * i + 1):
                kind = DEG_CYCLE[(deg_offset + j) % len(DEG_CYCLE)]
                leaf, _ = gen_degenerate_leaf(rng, m, True, kind=kind)
                pos = rng.choice([0, len(spec_["comps"])]) if shape == "between" else rng.randint(0, len(spec_["comps"]))
                spec_["comps"].insert(pos, [rng.randint(0, m - gens.leaf_width(leaf)), leaf])
                kinds_.append(kind)
        for engine in ENGINES:
            spec, kinds = (spec2, kinds2) if engine == "MPS" else (specw, kindsw)
            masks = [] if (engine == "Stepper" or n == 0 or rng.random() < 0.6) else gen_masks(rng, m, n)
            order = None
            if engine == "Stepper":
                # Stepper.apply recomputes describe() of the component (a sympy search per parameter) for every
                # component and every input: a sample of the inputs, bunched ones first, keeps the run short
                sts = sorted(all_states(m, n), key=lambda s_: (-max(s_), rng.random()))
                order = sts[:2] + rng.sample(sts[2:], min(len(sts) - 2, chk.pick(2, 6))) if len(sts) > 4 else None
            handle(chk, spec, n, engine, masks, degenerate=kinds, order=order)
    # one-mode circuits (m = 1 is inside the quantifier): every engine, bunched inputs only
    for n in chk.pick((1, 3), (0, 1, 2, 3, 5)):
        for engine in ENGINES:
            chk.branch("one-mode")
            handle(chk, gen_circuit_spec(rng, 1, rng.randint(1, 3), engine == "MPS"), n, engine, [])
            if n in (1, 3):
                spec, kinds = gen_degenerate_spec(rng, 1, engine == "MPS", "all")
                chk.branch("degenerate-one-mode")
                handle(chk, spec, n, engine, [], degenerate=kinds)
    # --- MPS transition tensors against the closed formulas of the model (every cell within the photon number)
    for i in range(chk.pick(15, 30)):
        kind = ("cayley", "leaf", "free", "degenerate", "free-degenerate")[i % 5]
        u = gen_block2(rng, kind)
        nms = chk.pick([2, 3, 4], [2, 3, 4, 5, 6])
        nmax = nms[(i + i // 5) % len(nms)]
        if "degenerate" in kind:
            chk.branch("degenerate-mps-tensor2")
        if abs(u[0][1] - u[1][0]) > 1e-6:
            chk.branch("mps-tensor2-nonsymmetric")
        chk.count("mps_tensor", f"{kind}-n{nmax}")
        res = mps_tensor_case(chk, u, nmax, unitary=not kind.startswith("free"))
        chk.case(("mps2", json.dumps(core.mat(u)), nmax), nontrivial=nmax >= 2, sample={"mps2": kind, "nmax": nmax})
        for k_, sig_, what_, rp_ in res:
            chk.fail(k_, sig_, what_, rp_)
    for i in range(chk.pick(3, 8)):
        cs = core.rational_cs(rng)
        z = complex(float(cs[0]), float(cs[1])) if i % 3 else complex(rng.randint(-8, 8) / 8, rng.randint(-8, 8) / 8)
        d = chk.pick(6, 8) if i == 0 else rng.randint(2, chk.pick(6, 8))
        res = mps_tensor1_case(chk, z, d)
        chk.case(("mps1", repr(z), d), nontrivial=d >= 3, sample={"mps1": repr(z), "d": d})
        for k_, sig_, what_, rp_ in res:
            chk.fail(k_, sig_, what_, rp_)
    # --- Stepper component by component: every intermediate vector against the restricted-mode model
    for i in range(chk.pick(10, 20)):
        m, n = rng.choice(chk.pick([(2, 2), (3, 2), (3, 3), (4, 2), (4, 3), (5, 2)],
                                   [(2, 3), (3, 2), (3, 3), (4, 2), (4, 3), (5, 2), (5, 3), (6, 2), (3, 4)]))
        spec = gen_circuit_spec(rng, m, rng.randint(2, chk.pick(6, 9)), False)
        if i % 3 == 1:
            spec, _ = gen_degenerate_case(rng, m, False, ("between", "mixed", "all")[(i // 3) % 3], None)
            chk.branch("degenerate-stepper-steps")
        if m >= 3 and i % 2 == 0:
            w = rng.randint(3, m)
            perm = list(range(w))
            while all(perm[perm[j]] == j for j in range(w)):
                rng.shuffle(perm)
            spec["comps"].insert(rng.randint(0, len(spec["comps"])), [rng.randint(0, m - w), {"t": "PERM", "perm": perm}])
        handle_stepper_steps(chk, spec, rng.choice(all_states(m, n)), reuse=(i % 3 == 0))
    # long-lived engine objects: one instance per engine serves circuits of changing size and photon number, with
    # inputs re-submitted out of order (the amplitudes must not depend on what the object served before)
    history = []
    for i in range(chk.pick(8, 24)):
        m, n = rng.choice([(2, 1), (2, 2), (3, 1), (3, 2), (3, 3), (4, 2), (2, 3), (4, 1)])
        for engine in ENGINES:
            spec = gen_circuit_spec(rng, m, rng.randint(1, 5), engine == "MPS")
            deg = None
            if (i + ENGINES.index(engine)) % 3 == 0:
                spec, deg = gen_degenerate_case(rng, m, engine == "MPS", rng.choice(["between", "mixed", "all"]), None)
            states = all_states(m, n)
            order = list(states)
            rng.shuffle(order)
            order = order + [rng.choice(states) for _ in range(3)]
            rng.shuffle(order)
            # a third of the time the long-lived engine also carries a mask given WITHOUT a photon number: it must
            # be instantiated afresh for each input's photon number
            masks = gen_masks(rng, m, n) if (engine != "Stepper" and n > 0 and rng.random() < 0.35) else []
            history.append((spec, n, engine, order, masks, True, deg))
            if masks:
                # ... and then serves inputs of ANOTHER photon number with the same circuit and the same mask, with no
                # set_circuit / set_mask in between
                n2 = rng.choice([k for k in (1, 2, 3) if k != n])
                order2 = all_states(m, n2)
                rng.shuffle(order2)
                history.append((spec, n2, engine, order2, masks, False, deg))
    for spec, n, engine, order, masks, configure, deg in history:
        if deg is not None:
            chk.branch("degenerate-reused-instance")
        if masks:
            chk.branch("reused-instance-mask-without-n")
        if not configure:
            chk.branch("reused-instance-mask-other-photon-number")
        handle(chk, spec, n, engine, masks, reuse=True, order=order, mask_with_n=False, configure=configure,
               degenerate=deg)
    # --- sessions: the configuration glue against the Lean state machine (same script for the four engines)
    for i in range(chk.pick(24, 80)):
        script = gen_session(rng, i, chk.tier == "quick")
        for engine in SESSION_ENGINES:
            handle_session(chk, engine, script)


def gen_degenerate_case(rng, m, two_mode_only, shape, forced):
    """a circuit of the degenerate family; with `forced` (a 2-mode diagonal kind, shape 'between') the block is
    regenerated until the REAL component's matrix is exactly diagonal and not scalar"""
    for _ in range(50):
        spec, kinds = gen_degenerate_spec(rng, m, two_mode_only, shape, forced)
        if forced is None or "diagonal-2" in block_shapes(spec):
            return spec, kinds
    raise RuntimeError("degenerate generator: no exactly diagonal block in 50 draws")


def credit_degenerate(chk, spec, engine, masks, kinds):
    shapes = block_shapes(spec)
    for k in kinds:
        chk.count("degenerate_kind", k)
    for s_ in shapes:
        chk.count("degenerate_shape", s_)
    between = "between-mixers" in kinds
    if "diagonal-2" in shapes:
        chk.branch("degenerate-diagonal-block")
        if between:
            chk.branch("degenerate-diagonal-block-between-mixers:" + engine)
    if "theta-zero" in shapes:
        chk.branch("degenerate-theta-zero")
    if between:
        chk.branch("degenerate-between-mixers")
    if "antidiagonal" in shapes:
        chk.branch("degenerate-antidiagonal-block")
    if "identity" in shapes:
        chk.branch("degenerate-identity-block")
    if "phase-axis" in shapes:
        chk.branch("degenerate-axis-phase")
    if "all-degenerate" in kinds:
        chk.branch("degenerate-all")
    if masks:
        chk.branch("degenerate-mask")


def handle(chk, spec, n, engine, masks, reuse=False, order=None, mask_with_n=True, configure=True, degenerate=None):
    m = spec["m"]
    if degenerate is not None:
        credit_degenerate(chk, spec, engine, masks, degenerate)
    chk.branch("engine:" + engine)
    if n >= 2:
        chk.branch("bunched-input")
    chk.count("size", f"m{m}n{n}")
    for _, leaf in spec["comps"]:
        chk.count("leaf_kind", leaf["t"])
    if reuse:
        chk.branch("reused-instance")
    res = one_case(chk, spec, n, engine, masks, reuse=reuse, order=order, mask_with_n=mask_with_n, configure=configure)
    if reuse and res:
        # the same case on a fresh object tells a history effect from a plain wrong amplitude (both are violations)
        fresh = one_case(chk, spec, n, engine, masks)
        if not fresh:
            res = [(k, s_, w + " [a freshly constructed engine gives the right values: the result depends on "
                    "what the object served before]", r) for k, s_, w, r in res]
    sig = (engine, m, n, json.dumps(spec["comps"], sort_keys=True), tuple(masks), reuse)
    chk.case(sig, nontrivial=(len(spec["comps"]) >= 2 and n >= 2),
             sample={"engine": engine, "m": m, "n": n, "masks": masks,
                     "comps": [(o, l["t"]) for o, l in spec["comps"]]})
    seen = set()
    for kind, s, what, replay in res:
        if s in seen:
            continue
        seen.add(s)
        if kind == "violation" and len(spec["comps"]) > 1 and not reuse:
            try:
                small = shrink_case(chk, spec, n, engine, masks, s)
                replay = dict(replay, spec=small)
            except Exception:
                pass
        chk.fail(kind, s, what, replay)


def handle_stepper_steps(chk, spec, s, reuse=False):
    chk.branch("stepper-steps")
    if any(leaf["t"] == "PERM" for _, leaf in spec["comps"]):
        chk.branch("stepper-steps-perm")
    if any(off > 0 and gens.leaf_width(leaf) < spec["m"] - off for off, leaf in spec["comps"]):
        chk.branch("stepper-steps-spectators-both-sides")
    if max(s) >= 2:
        chk.branch("stepper-steps-bunched")
    res = stepper_steps_case(chk, spec, s, reuse)
    chk.case(("stepper-steps", json.dumps(spec["comps"], sort_keys=True), tuple(s), reuse),
             nontrivial=(len(spec["comps"]) >= 2 and sum(s) >= 2),
             sample={"stepper-steps": [(o, l["t"]) for o, l in spec["comps"]], "s": s})
    for kind, sig, what, rp in res:
        if kind == "violation" and len(spec["comps"]) > 1 and not reuse:
            def fails(comps):
                r = stepper_steps_case(chk, {"m": spec["m"], "comps": comps}, s, False)
                return any(x[1] == sig for x in r)
            try:
                small = gens.shrink_list(spec["comps"], fails, max_rounds=40)
                rp = dict(rp, stepper={"spec": {"m": spec["m"], "comps": small}, "s": s})
            except Exception:
                pass
        chk.fail(kind, sig, what, rp)


def load_corpus():
    import glob
    import os
    return [json.load(open(p)) for p in sorted(glob.glob(os.path.join(core.VERIF, "corpus", "C02", "*.json")))]


def replay(chk, data):
    chk.lean = core.LeanDriver("C02")
    chk.rule = "replay of one stored case"
    r = data["replay"]
    if "mps2" in r:
        u = [[core.uncx(z) for z in row] for row in r["mps2"]["u"]]
        for k_, sig_, what_, rp_ in mps_tensor_case(chk, u, r["mps2"]["nmax"], r["mps2"].get("unitary", False)):
            chk.fail(k_, sig_, what_, rp_)
        return
    if "mps1" in r:
        for k_, sig_, what_, rp_ in mps_tensor1_case(chk, core.uncx(r["mps1"]["z"]), r["mps1"]["d"]):
            chk.fail(k_, sig_, what_, rp_)
        return
    if "session" in r:
        return handle_session(chk, r["session"]["engine"], r["session"]["script"], credit=False)
    if "stepper" in r:
        return handle_stepper_steps(chk, r["stepper"]["spec"], r["stepper"]["s"])
    if r.get("reuse"):
        # a long-lived-engine failure depends on the whole history: re-run the run it came from (same seed and tier)
        import random
        chk.lean.close()
        chk.lean = None
        chk.rng = random.Random(data.get("seed", 0))
        chk.tier = data.get("tier", "quick")
        return run(chk)
    handle(chk, r["spec"], r["n"], r["engine"], r.get("masks") or [], order=r.get("order"))
