"""C15 — text formats (BasicState with annotations, StateVector, SVDistribution, BSDistribution, BSCount,
BSSamples): correspondence of `Model/C15Text.lean` with the real writers and readers.

For a real object the *abstract syntax* of the model is read off through the API of the object (mode counts,
`get_mode_annotations`, iteration over the items), never through `str()` / the serializer.  Then

 (a) the model's `encode` of that syntax must equal the payload the real serializer wrote, character by
     character; a number may differ only where the float evaluation of `simple_float` sits on a rounding tie
     (same value spelled differently, or one unit of the last digit at a tie — measured, allowed);
 (b) the model's `decode` of the real payload must describe the object the real reader rebuilt;
 (c) a stream of variants of the payload (unsorted / repeated annotations, dropped, doubled, swapped and
     replaced characters) is given to both readers: whenever the model accepts, the real reader must accept
     and rebuild what the model says (the model reads a sub-language: the other direction is only counted).
"""
from __future__ import annotations

import json
import re
from collections import Counter
from fractions import Fraction

TEXT_FAMS = ("state", "sv", "svd", "bsd", "bsc", "bss")
TAG = {"state": "BasicState", "sv": "StateVector", "svd": "SVDistribution", "bsd": "BSDistribution",
       "bsc": "BSCount", "bss": "BSSamples"}
NUM_RE = re.compile(r"\(([^(),|]*),([^(),|]*)\)\*|=([^;}]*)")


class Outside(Exception):
    """the object uses something the model does not cover (complex / fractional annotation value)"""


def frac(v):
    return Fraction(*float(v).as_integer_ratio())


def rat(v):
    f = v if isinstance(v, Fraction) else frac(v)
    return str(f.numerator) if f.denominator == 1 else f"{f.numerator}/{f.denominator}"


def unrat(s):
    return Fraction(s)


# --- abstract syntax of real objects ---------------------------------------------------------------
def desc_state(bs):
    modes = []
    for i in range(bs.m):
        n = bs[i]
        anns = [str(a) for a in bs.get_mode_annotations(i)] if n else []
        named = [a for a in anns if a]
        groups = []
        for key, cnt in sorted(Counter(named).items()):        # code-point order = byte order (ASCII)
            if "(" in key:
                raise Outside("complex annotation value")
            pairs = []
            for tv in key.split(","):
                t, _, v = tv.partition(":")
                pairs.append([t, v])
            groups.append([cnt, pairs])
        modes.append({"g": groups, "p": n - len(named)})
    return modes


def sv_terms(sv):
    """the terms a (normalised) vector iterates over: what `serialize_statevector` prints"""
    return [[rat(complex(v).real), rat(complex(v).imag), desc_state(k)] for k, v in sv]


def desc_obj(fam, x):
    if fam == "state":
        return desc_state(x)
    if fam == "sv":
        return sv_terms(x)
    if fam == "svd":
        return [[sv_terms(k), rat(v)] for k, v in x.items()]
    if fam == "bsd":
        return [[desc_state(k), rat(v)] for k, v in x.items()]
    if fam == "bsc":
        return [[desc_state(k), int(v)] for k, v in x.items()]
    if fam == "bss":
        return [desc_state(s) for s in x]
    raise ValueError(fam)


def key(state):
    return json.dumps(state, sort_keys=True)


def merge_terms(terms):
    """a formal sum → {state: (re, im)}, zero amplitudes dropped (what `sv += state * amplitude` keeps)"""
    acc = {}
    for re_, im_, st in terms:
        k = key(st)
        a, b = acc.get(k, (Fraction(0), Fraction(0)))
        acc[k] = (a + (re_ if isinstance(re_, Fraction) else unrat(re_)),
                  b + (im_ if isinstance(im_, Fraction) else unrat(im_)))
    return {k: v for k, v in acc.items() if v != (0, 0)}


def real_terms(sv):
    return merge_terms([[frac(complex(v).real), frac(complex(v).imag), desc_state(k)]
                        for k, v in sv.unnormalized_iterator()])


def close(a, b):
    """a double read by `float()` against the exact decimal of the text"""
    return abs(a - b) <= abs(b) * Fraction(1, 10 ** 15) + Fraction(1, 10 ** 300)


THRESH = Fraction(1, 10 ** 12)     # the native StateVector drops a term whose |amplitude|^2 is not above 1e-12


def mixed_mode(state):
    """a mode of the (described) state holds annotated and plain photons"""
    return any(m["g"] and m["p"] > 0 for m in state)


def sv_compare(terms, real, scaled):
    """the model's formal sum against the amplitudes the real vector holds → True / False / None (undecided: equal
    states whose addends are near the native threshold add up in an order-dependent way).  `scaled`: the real vector
    was normalised (key of an SVDistribution): equal up to one positive factor."""
    per = {}
    for re_, im_, st in terms:
        per.setdefault(key(st), []).append((unrat(re_), unrat(im_)))
    if len(per) > 1 and any(mixed_mode(st) for _, _, st in terms):
        # native quirk (exqalibur, outside /repo): a state one of whose modes holds annotated AND plain photons
        # compares equal to states that replace the plain photon by an annotated one (`|{_:2}1> == |{_:1}{_:2}>`)
        # while their hashes differ: whether two such terms of a vector merge depends on the insertion order,
        # already when the vector is built with `+`.  Only damaged texts get here (the generator never mixes).
        return None
    tot = {}
    for k, adds in per.items():
        small = [a * a + b * b <= THRESH * 100 for a, b in adds]
        if len(adds) > 1 and any(small):
            return None
        a, b = sum(x for x, _ in adds), sum(y for _, y in adds)
        if len(adds) > 1 and a * a + b * b <= THRESH * 100:
            return None
        tot[k] = (a, b)
    if not tot:
        return not real
    k0 = max(tot, key=lambda k: abs(tot[k][0]) + abs(tot[k][1]))
    i = 0 if abs(tot[k0][0]) >= abs(tot[k0][1]) else 1
    scale = Fraction(1)
    if scaled and tot[k0][i] != 0:
        if k0 not in real:
            return False
        scale = real[k0][i] / tot[k0][i]
        if scale <= 0:
            return False
    eps = Fraction(1, 10 ** 5)
    must, may = {}, set()
    for k, (a, b) in tot.items():
        # kept when it is added (|a|^2 above the threshold) and again when the vector is normalised
        n2 = min(a * a + b * b, (a * a + b * b) * scale * scale)
        if n2 >= THRESH * (1 + eps):
            must[k] = (a, b)
        elif n2 > THRESH * (1 - eps):
            may.add(k)
    if not set(must) <= set(real) or not set(real) <= set(must) | may:
        return False
    if not must:
        return True
    tol = Fraction(1, 10 ** 11) * abs(tot[k0][i]) * scale
    return all(abs(real[k][j] - must[k][j] * scale) <= tol for k in must for j in (0, 1))


def compare_dec(fam, dec, y):
    """model's decoded value against the object the real reader returned → None or a reason"""
    if fam == "state":
        return None if dec == desc_state(y) else "state"
    if fam == "bss":
        return None if dec == [desc_state(s) for s in y] else "samples"
    if fam == "bsc":
        m = {key(s): n for s, n in dec}
        r = {key(desc_state(k)): int(v) for k, v in y.items()}
        return None if m == r and len(dec) == len(m) else "counts"
    if fam == "bsd":
        m = {key(s): unrat(p) for s, p in dec}
        r = {key(desc_state(k)): frac(v) for k, v in y.items()}
        if set(m) != set(r) or len(dec) != len(m):
            return "keys"
        return None if all(close(r[k], m[k]) for k in m) else "probabilities"
    if fam == "sv":
        return None if sv_compare(dec, real_terms(y), False) is not False else "amplitudes"
    if fam == "svd":
        rest = [(real_terms(k), frac(v)) for k, v in y.items()]
        if len(rest) != len(dec):
            return "size"
        for terms, p in dec:
            if any(sv_compare(terms, rt, True) is None for rt, _ in rest):
                return None
            hit = next((i for i, (rt, rp) in enumerate(rest) if sv_compare(terms, rt, True) and close(rp, unrat(p))), None)
            if hit is None:
                return "entry"
            rest.pop(hit)
        return None
    raise ValueError(fam)


def originals(fam, obj):
    """the exact values behind the numbers of the text, in the order the text has them"""
    out = []
    if fam == "sv":
        for re_, im_, _ in obj:
            out += [unrat(re_), unrat(im_)]
    elif fam == "svd":
        for terms, p in obj:
            for re_, im_, _ in terms:
                out += [unrat(re_), unrat(im_)]
            out.append(unrat(p))
    elif fam == "bsd":
        out = [unrat(p) for _, p in obj]
    return out


def numbers_of(text):
    nums = []
    for m in NUM_RE.finditer(text):
        nums += [m.group(1), m.group(2)] if m.group(3) is None else [m.group(3)]
    return nums, NUM_RE.sub(lambda m: "(#,#)*" if m.group(3) is None else "=#", text)


def near_tie(v, got, want):
    """`got` and `want` are neighbours on the grid and |v| sits (within float slop) half-way between them"""
    v = abs(v)
    got, want = abs(got), abs(want)
    if got == want:
        return True
    unit = abs(got - want)
    mid = (got + want) / 2
    # one unit apart, and the original within 1e-9 of a unit from the tie
    p = 1
    while Fraction(1, p) > unit and p < 10 ** 400:
        p *= 10
    return Fraction(1, p) == unit and abs(v - mid) <= unit * Fraction(1, 10 ** 6)


def compare_text(chk, fam, obj, payload, model_text):
    if payload == model_text:
        chk.count("text_model", "identical")
        return None
    if fam in ("state", "bsc", "bss"):
        return "text"
    n_real, sk_real = numbers_of(payload)
    n_mod, sk_mod = numbers_of(model_text)
    orig = originals(fam, obj)
    if sk_real != sk_mod or len(n_real) != len(n_mod) or len(orig) != len(n_real):
        return "text"
    for a, b, v in zip(n_real, n_mod, orig):
        if a == b:
            continue
        try:
            fa, fb = Fraction(a), Fraction(b)
        except ValueError:
            return "number syntax"
        if fa == fb:
            chk.count("text_model", "same-value-other-spelling")
        elif near_tie(v, fa, fb):
            chk.count("text_model", "tie-one-unit")
        else:
            return f"number {a} vs {b}"
    return None


def judge_text(chk, fam, x, y, payload):
    """`x`: the object after the writer ran (a state vector is normalised in place by the writer), `y`: what the
    reader returned, `payload`: the text after the envelope.  → None or (kind, signature, what)"""
    try:
        obj = desc_obj(fam, x)
    except Outside:
        chk.count("text_model", "outside-model")
        return None
    reps = chk.lean.ask_many([{"op": "txt", "kind": fam, "obj": obj}, {"op": "dectxt", "kind": fam, "text": payload}])
    for r in reps:
        if "err" in r:
            return ("broken", "driver-rejects", f"driver: {r['err']}")
    if not reps[0]["wf"]:
        # fractional annotation value, the empty state vector, two vectors that print identically …
        chk.count("text_model", "outside-model")
        return None
    why = compare_text(chk, fam, obj, payload, reps[0]["text"])
    if why:
        return ("broken", f"model-vs-code:{fam}-text",
                f"{fam}: the serializer wrote {payload[:120]!r}, the model writes {reps[0]['text'][:120]!r} ({why})")
    if reps[1]["dec"] is None:
        return ("broken", f"model-vs-code:{fam}-text", f"{fam}: the model's reader refuses {payload[:120]!r}")
    why = compare_dec(fam, reps[1]["dec"], y)
    if why:
        return ("broken", f"model-vs-code:{fam}-text",
                f"{fam}: the reader rebuilt something else than the model on {payload[:120]!r} ({why})")
    if reps[0]["dec"] is None:
        return ("broken", f"model-vs-code:{fam}-text", f"{fam}: the model cannot read its own text")
    chk.branch("text-model-" + fam)
    if fam == "state" and any(m["g"] for m in obj):
        chk.branch("text-model-annotated")
    if fam in ("sv", "svd", "bsd") and re.search(r"e-\d", payload):
        chk.branch("text-number-exponent")
    if fam in ("sv", "svd") and any(any(m["g"] for m in t[2]) for t in
                                    (obj if fam == "sv" else [t for e in obj for t in e[0]])):
        chk.branch("text-model-annotated-sv")
    return None


# --- variants of a text for the readers -------------------------------------------------------------
ALPHABET = "{}|>,:;=+/()*e-.01 2_aP"


def expand_state_text(rng, text):
    """an equivalent spelling of a state text: counts expanded into repeated annotations, groups shuffled"""
    def mode(mm):
        body = mm.group(0)
        parts = re.findall(r"(\d*)(\{[^}]*\})", body)
        tail = re.sub(r"\d*\{[^}]*\}", "", body)
        if not parts:
            return body
        units = []
        for cnt, ann in parts:
            c = int(cnt) if cnt else 1
            if c <= 4 and rng.random() < 0.7:
                units += [ann] * c
            else:
                units.append((cnt if c > 1 else "") + ann)
        rng.shuffle(units)
        return "".join(units) + tail
    return re.sub(r"[^|,>]+", mode, text)


def mutate(rng, text):
    r = rng.random()
    if r < 0.3 and "{" in text:
        return expand_state_text(rng, text), "respelled"
    if not text:
        return rng.choice(ALPHABET), "insert"
    i = rng.randrange(len(text))
    if r < 0.45:
        return text[:i] + text[i + 1:], "drop"
    if r < 0.6:
        return text[:i] + text[i] + text[i:], "double"
    if r < 0.75 and len(text) > 1:
        i = rng.randrange(len(text) - 1)
        return text[:i] + text[i + 1] + text[i] + text[i + 2:], "swap"
    if r < 0.9:
        return text[:i] + rng.choice(ALPHABET) + text[i + 1:], "replace"
    return text[:i] + rng.choice(ALPHABET) + text[i:], "insert"


def reader_stream(chk, fam, payload, rng, n):
    """→ None or (kind, signature, what)"""
    from perceval.serialization import deserialize
    cases = []
    for _ in range(n):
        t, how = mutate(rng, payload)
        if len(re.findall(r"\d{7,}", t)) > len(re.findall(r"\d{7,}", payload)):
            continue        # no photon counts / annotation values beyond what the native integer types hold
        cases.append((t, how))
    if not cases:
        return None
    reps = chk.lean.ask_many([{"op": "dectxt", "kind": fam, "text": t} for t, _ in cases])
    for (t, how), r in zip(cases, reps):
        if "err" in r:
            return ("broken", "driver-rejects", f"driver: {r['err']}")
        try:
            y = deserialize(f":PCVL:{TAG[fam]}:{t}")
            if fam == "sv":
                real_terms(y)
            ok = True
        except Outside:
            continue
        except Exception:
            ok = False
        if r["dec"] is None:
            chk.count("text_reader", f"{fam}:{how}:model-rejects:" + ("code-accepts" if ok else "code-rejects"))
            if not ok:
                chk.branch("text-reader-both-reject")
            continue
        if not ok and fam == "svd" and any(
                all(unrat(a) ** 2 + unrat(b) ** 2 <= THRESH * 100 for a, b, _ in terms) for terms, _ in r["dec"]):
            # a key all of whose amplitudes are below the native threshold is the empty vector: it cannot be a key
            chk.count("text_reader", "svd:empty-key:code-rejects")
            continue
        if not ok:
            return ("broken", f"model-vs-code:{fam}-reader",
                    f"{fam}: the model reads {t[:120]!r} ({how}) but the real reader raises")
        try:
            why = compare_dec(fam, r["dec"], y)
        except Outside:
            continue
        if why:
            return ("broken", f"model-vs-code:{fam}-reader",
                    f"{fam}: the real reader and the model read {t[:120]!r} ({how}) differently ({why})")
        chk.count("text_reader", f"{fam}:{how}:both-accept")
        chk.branch("text-reader-both-accept")
        if how == "respelled" and t != payload:
            chk.branch("text-reader-respelled")
    return None
