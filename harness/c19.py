"""C19 — a job group on disk always matches the group in memory.

Real side: `perceval.runtime.JobGroup` driven through its public methods inside a temporary
persistent-data directory (`JobGroup._PERSISTENT_DATA` / `_DIR_PATH` are re-pointed; the user's real
data directory is never touched), with fake RPC handlers (also substituted for `RPCHandler` inside
`job_group`, so re-opened groups talk to the same scripted server).  The server is a script per
operation: answers to `create_job`/`rerun_job` (accept with a fresh id / refuse) and to
`get_job_status`; a script that runs out kills the process at that call (a `BaseException` that
nothing in Perceval catches), after which memory is dropped and the group is re-opened.

After every operation the harness records: result (ok / raised:<class> / killed), the view returned
(progress counters, list_* indices), memory (ids, statuses, handler, name), the file content (dates
dropped), the group re-opened from disk in a fresh object; and evaluates the property directly
(oracle independent of Lean).  The same history is then run by the Lean model (`Model/C19.lean`,
`Driver/C19.lean`) and compared step by step.

Group names: every history has its own group name (plain, with characters some platforms refuse in file
names `<>:"|?*`, other punctuation, non-ASCII; never a path separator) and, in part of the histories, a second
"bystander" group in the same directory whose name is close to the first (what the first becomes under the
usual make-it-a-safe-file-name rewritings, or a near neighbour): it must be found under its own name and never
change.  The file primitives (`PersistentData.write_file/read_file/has_file/delete_file`) are additionally
driven directly over several close names and compared, call by call, with a dictionary keyed by the name
(direct oracle) and with the model's name-keyed store (`PM.C19.FS`, theorem `named_store`).

Exceptions: an exception that leaves the code under test while the harness observes or drives it on a legal
history is a finding (`violation`), never a harness crash: `through_code_under_test` separates it from a
harness bug (which still exits 2).  A legal operation that raises where the model returns normally, after a
prefix on which memory, file and re-opened group agreed with the model step by step, is reported as
`operation-raises:<op>:<class>`.  The group a fresh process gets must itself be writable again
(`reopened-group-unusable` otherwise).

Status requests that fail: an answer of the status script may be a fault (`http:<code>` = the request is answered
with that HTTP status, `conn` = connection error).  `RemoteJob._handle_status_error` swallows a recoverable fault
(previous status kept) and re-raises an unrecoverable one or the 5th in a row: the operation then *raises*, and
the property is evaluated after it like after any other operation (memory vs file vs re-opened group).  Which of
the two happened is read off the real run (the last server call of an operation that raised HTTPError /
ConnectionError) and given to the model as `fault:<class>` / `ignored`; the model's theorems hold for every such
pattern.  Handlers: several jobs of one group (and the bystander group) may share platform name and URL and
differ only in token or proxies; every request that reaches the scripted server is logged with the credentials
it was made with and compared with the metadata the file holds for that job.  A killed process executes nothing
after the call it died in: the group file is put back to its content at that instant before re-opening.

Torn writes inside one `PersistentData.write_file` call (crash points within a single file write)
are out of scope: OS behaviour, not modelled.
"""
from __future__ import annotations

import atexit
import copy
import datetime as _dt
import glob
import itertools
import json
import os
import shutil
import sys
import tempfile
import time as _time
import traceback
import types
import warnings

from . import core

# Everything this check writes lives under one private temporary root.  XDG_DATA_HOME is re-pointed
# *before* perceval is imported, so that even the module-level `PersistentData()` objects of perceval
# (JobGroup._PERSISTENT_DATA, the logger configuration) are created inside it: the user's real
# persistent-data directory (~/.local/share/perceval-quandela) is never created, read or written.
_ROOT = tempfile.mkdtemp(prefix="verif-c19-")
_PERCEVAL_PRELOADED = "perceval" in sys.modules
os.environ["XDG_DATA_HOME"] = os.path.join(_ROOT, "xdg")
os.makedirs(os.environ["XDG_DATA_HOME"], exist_ok=True)
atexit.register(shutil.rmtree, _ROOT, ignore_errors=True)

STATUSES = ["WAITING", "RUNNING", "SUCCESS", "ERROR", "CANCELED", "SUSPENDED", "CANCEL_REQUESTED", "UNKNOWN"]
COMPLETED = {"SUCCESS", "ERROR", "CANCELED"}
GROUP = "verif_c19_group"

HOSTILE = '<>:"|?*'          # characters some platforms refuse in a file name
# group names used by the exhaustive family (the random histories draw theirs from `gen_name`)
FIXED_NAMES = [GROUP, "scan 2024-05-17 12:30", "is it working?", "a*b", "<tmp>", 'say "hi"', "x|y", "v1.2_final.",
               "uni\u00e9 \u65e5", " lead&trail;", "a.jgrp", "#1 [50%] {x}=$y,z+!@()^`~'\\"]

SIGNATURES = {
    "ctx": "job-context-lost-on-reopen",
    "dir": "subdir-never-created",
    "add": "add-raises-after-append",
    "stat": "stale-status-after-rerun",
    "poll": "status-unsaved-when-wait-raises",
    "res": "results-replace-delta-parameters",
    "gst": "stale-status-after-get-results",
}
SIG_DOTS = "list-existing-misses-dot-names"

# the clock of the code under test (`datetime.now()` inside job_group): EPOCH + a number of seconds the harness sets
EPOCH = _dt.datetime(2030, 1, 1, 0, 0, 0)
_CLOCK = {"tick": 0}


class FakeDateTime(_dt.datetime):
    @classmethod
    def now(cls, tz=None):
        return EPOCH + _dt.timedelta(seconds=_CLOCK["tick"])


def tick_of(stamp: str) -> int:
    """'created_date' of a group file -> seconds since EPOCH"""
    return int((_dt.datetime.strptime(stamp, "%Y%m%d_%H%M%S") - EPOCH).total_seconds())

# answers of a status script that are not a status: the request itself fails
FATAL_FAULTS = ["http:404", "http:500", "http:401", "http:403", "http:400", "http:503"]   # re-raised at once
SOFT_FAULTS = ["http:408", "http:409", "http:421", "http:423", "http:429", "conn"]         # swallowed, 5th in a row raises


def is_fault(a):
    return a == "conn" or str(a).startswith("http:")


def fault_class(a):
    return "ConnectionError" if a == "conn" else "HTTPError"


def repo_root():
    return os.path.realpath(os.environ.get("VERIF_REPO") or "/repo")


def through_code_under_test(e: BaseException):
    """Did this exception leave the code under test?  -> short location string, or None when no frame below the
    last harness frame belongs to the repository (then it is a harness problem and must not be masked)."""
    tb = traceback.extract_tb(e.__traceback__)
    here = os.path.realpath(__file__)
    last_harness = max((i for i, f in enumerate(tb) if os.path.realpath(f.filename) == here), default=-1)
    root = repo_root() + os.sep
    inner = [f for f in tb[last_harness + 1:] if os.path.realpath(f.filename).startswith(root)]
    if not inner:
        return None
    f = inner[-1]
    return f"{os.path.relpath(os.path.realpath(f.filename), repo_root())}:{f.name}"


def json_native(x) -> bool:
    """made of JSON values only: `json.dumps` can write it (what `_write_to_file` asks of every stored body)"""
    try:
        json.dumps(x)
        return True
    except (TypeError, ValueError):
        return False


def wire(value) -> str:
    """The form in which a request body leaves for the server: `RemoteJob.execute_async` sends `serialize(body)` and the
    HTTP layer encodes that as JSON.  -> canonical JSON text of that form (tuples and lists, `1` and `"1"` as a key are the
    same thing there), or 'unsendable:…' when the value has no such form.  Two bodies are the same request iff their
    wire forms are equal: this is how a body in memory (which may hold BasicState / NoiseModel / circuit objects) is
    compared with the body a re-opened group rebuilt from the file."""
    try:
        try:
            txt = json.dumps(value)     # made of JSON values only: `serialize` leaves those as they are
        except (TypeError, ValueError):
            from perceval.serialization import serialize
            txt = json.dumps(serialize(value))
        out = _WIRE_MEMO.get(txt)
        if out is None:
            out = _WIRE_MEMO[txt] = json.dumps(json.loads(txt), sort_keys=True)
        return out
    except Exception as e:   # noqa: BLE001 — no JSON form: such a request cannot be sent at all
        return f"unsendable:{type(e).__name__}:{value!r}"[:400]


_WIRE_MEMO = {}


# values put under payload['extra'] of a hand-built job (spec["body"]).  json: `json.dumps` writes them (the wire form of
# what is read back must be the wire form of the original); sendable: `serialize` gives them a JSON form although
# `json.dumps` refuses the object itself; neither: no JSON form at all
BODY_JSON = ["tuple", "intkeys", "unicode", "floats", "nested", "npfloat64", "bigint", "tagged-text"]
BODY_SENDABLE = ["state", "states", "noise", "circuit", "matrix", "statevector"]
BODY_UNSENDABLE = ["npint", "npfloat32", "set", "complex", "bytes", "state-tuple", "tuplekey"]
BODY_KINDS = BODY_JSON + BODY_SENDABLE + BODY_UNSENDABLE
# iterations of a Sampler (spec["iters"]): what `Sampler.add_iteration` accepts
ITER_JSON = ["numeric", "params"]
ITER_NONJSON = ["state", "state-shots", "noise", "params-state"]


def make_body(kind):
    import numpy as np
    import perceval as pcvl
    if kind == "tuple":
        return {"pairs": ((1, 2), (3,)), "t": ()}
    if kind == "intkeys":
        return {"heralds": {2: 0, 3: 1}, 7: [True, None]}        # what RemoteProcessor puts under 'heralds'
    if kind == "unicode":
        return ["\u00e9t\u00e9 \u65e5\u672c", "tab\there", "quote\"back\\slash", ""]
    if kind == "floats":
        return [0.1, 1e-9, 3.0, -0.0, 1.7976931348623157e308, 5e-324]
    if kind == "nested":
        return {"a": [{"b": None, "c": True, "d": [[], {}]}], "": 0}
    if kind == "npfloat64":
        return {"phi": np.float64(0.25), "grid": [float(x) for x in np.linspace(0, 1, 3)]}
    if kind == "bigint":
        return [2 ** 70, -(2 ** 63) - 1]
    if kind == "tagged-text":
        return ["|1,0>", ":PCVL:BasicState:|1,0>", "{'a': 1}", "None", "1"]     # texts that look like renderings
    if kind == "state":
        return pcvl.BasicState([1, 0])
    if kind == "states":
        return [{"input_state": pcvl.BasicState([1, 0, 1])}, {"input_state": pcvl.BasicState([0, 2, 0]), "max_shots": 5}]
    if kind == "noise":
        return {"noise": pcvl.NoiseModel(brightness=0.8, g2=0.01)}
    if kind == "circuit":
        return pcvl.BS()
    if kind == "matrix":
        return pcvl.Matrix.eye(2)
    if kind == "statevector":
        return pcvl.StateVector([1, 0]) + pcvl.StateVector([0, 1])
    if kind == "npint":
        return {"n": np.int64(3)}
    if kind == "npfloat32":
        return [np.float32(0.5)]
    if kind == "set":
        return {"modes": {1, 2}}
    if kind == "complex":
        return [1 + 2j]
    if kind == "bytes":
        return b"raw"
    if kind == "tuplekey":
        return {(0, 1): "pair", "plain": 1}
    if kind == "state-tuple":
        return (pcvl.BasicState([1, 0]),)      # `serialize` does not look inside a tuple
    raise RuntimeError(f"unknown body kind {kind}")


def make_iteration(kind):
    import perceval as pcvl
    return {"numeric": {"min_detected_photons": 1, "max_samples": 20},
            "params": {"circuit_params": {"phi": 0.5}, "max_shots": 10},
            "state": {"input_state": pcvl.BasicState([0, 1])},
            "state-shots": {"input_state": pcvl.BasicState([1, 0]), "max_shots": 50},
            "noise": {"noise": pcvl.NoiseModel(brightness=0.8), "max_shots": 10},
            "params-state": {"circuit_params": {"phi": 0.25}, "input_state": pcvl.BasicState([0, 1])}}[kind]


class Kill(BaseException):
    """The process stops at this server call (script exhausted)."""


def server_word(st: str) -> str:
    return "completed" if st == "SUCCESS" else st.lower()


class Server:
    def __init__(self):
        self.next = 0
        self.outs = []
        self.sts = []
        self.rsps = []        # answers to get_job_results
        self.created = []     # [(id, payload)] of the running operation (create_job)
        self.accepted = []    # ids issued in the running operation (create + rerun)
        self.all_created = []
        self.skipped = []     # ids below `next` never given to this group (usable for outside jobs)
        self.forced = None    # id to give to a job executed outside the group
        self.calls = 0
        self.log = []         # [(kind, job id or None, handler metadata)] requests of the running operation
        self.last = None      # ("issue", outcome) | ("status", answer): last call of the running operation
        self.before_kill = None   # callback run at the instant the process dies

    def script(self, outs, sts, rsps=()):
        self.outs, self.sts, self.rsps = list(outs), list(sts), list(rsps)
        self.created, self.accepted = [], []
        self.log, self.last = [], None

    def _kill(self):
        if self.before_kill is not None:
            self.before_kill()
        raise Kill()

    def _issue(self):
        self.calls += 1
        self.outside = self.forced is not None
        if self.forced is not None:      # a job executed outside the group: not part of the group's traffic
            k, self.forced = self.forced, None
            return k
        if not self.outs:
            self._kill()
        o = self.outs.pop(0)
        self.last = ("issue", o)
        if o == "refuse":
            return None
        g = int(o["accept"])
        k = self.next + g
        self.skipped.extend(range(self.next, k))
        self.next = k + 1
        self.accepted.append(k)
        return k

    def status(self):
        self.calls += 1
        if not self.sts:
            self._kill()
        a = self.sts.pop(0)
        self.last = ("status", a)
        return a

    def result(self):
        self.calls += 1
        if not self.rsps:
            self._kill()
        a = self.rsps.pop(0)
        self.last = ("results", a)
        return a


def delta_intact(job):
    """`_delta_parameters` still is the dictionary {'command': {...}, 'mapping': {...}} every RemoteJob starts with"""
    d = job._delta_parameters
    return isinstance(d, dict) and set(d) == {"command", "mapping"}


def idstr(k):
    return f"job-{k:05d}"


def idnum(s):
    return None if s is None else int(str(s).split("-")[1])


# Token shapes are those met in practice (seeded change C19-10 mangled only tokens that START with one of the characters
# of "Bearer ": a JWT "eyJ...", hexadecimal keys starting with a / e, a token with a capital B): the stored
# Authorization header must give back exactly the token whatever its first characters are.
HANDLERS = [
    ("sim:alpha", "https://alpha.test", "eyJhbGciOiJIUzI1NiJ9.tokA.sig", None),
    ("qpu:beta", "https://beta.test", "ae4b71ear-tokB", {"https": "http://proxy.test:3128"}),
    ("sim:gamma", "https://gamma.test/api", "tokC", None),
    # same platform name and URL as an entry above, other credentials / route (a renewed token, a second account,
    # a changed proxy configuration): distinct platform metadata all the same
    ("sim:alpha", "https://alpha.test", "Bearer-like_rea-tokA-renewed", None),
    ("qpu:beta", "https://beta.test", "ae4b71ear-tokB", {"https": "http://other-proxy.test:8080"}),
    # the bystander group's handler: platform and URL of entry 0, a third token
    ("sim:alpha", "https://alpha.test", "rBe_tokT", None),
]
N_GROUP_HANDLERS = 5       # the histories' own jobs draw from the first five
TWIN_HD = 5
SAME_PLATFORM = {0: 3, 3: 0, 1: 4, 4: 1}     # handler index -> the other index with the same (platform, url)

_CURRENT = {"server": None}    # the scripted server of the history being run


class FakeHandler:
    """Stands for `RPCHandler` (same constructor, same attributes read by RemoteJob._to_dict).  One class for the
    whole run, talking to the server of the history being run: a handler object the code keeps and uses again later
    behaves like a freshly built one with the same four constructor arguments, as a real RPCHandler would."""

    def __init__(self, name, url, token, proxies=None):
        self.name, self.url, self.token, self.proxies = name, url, token, proxies
        self.headers = {"Authorization": f"Bearer {token}"}
        self.request_timeout = 10
        self.platform_commands = ["probs"]

    def _meta(self):
        return {"headers": dict(self.headers), "platform": self.name, "url": self.url,
                "proxies": copy.deepcopy(self.proxies)}

    def create_job(self, payload):
        from requests.exceptions import HTTPError
        server = _CURRENT["server"]
        try:
            rec = json.loads(json.dumps(payload))      # the HTTP layer encodes the body before anything is sent
        except (TypeError, ValueError) as e:
            raise TypeError(f"request body cannot be encoded as JSON: {e}") from None
        k = server._issue()
        if k is None:
            raise HTTPError("refused by the scripted server")
        if not server.outside:
            server.created.append((k, rec, self._meta()))
            server.all_created.append((k, rec))
        return idstr(k)

    def rerun_job(self, job_id):
        from requests.exceptions import HTTPError
        server = _CURRENT["server"]
        server.log.append(("rerun", job_id, self._meta()))
        k = server._issue()
        if k is None:
            raise HTTPError("refused by the scripted server")
        return idstr(k)

    def get_job_status(self, job_id):
        import requests
        server = _CURRENT["server"]
        server.log.append(("status", job_id, self._meta()))
        st = server.status()
        if st == "intr":
            raise KeyboardInterrupt()
        if st == "conn":
            raise requests.exceptions.ConnectionError("scripted connection error")
        if is_fault(st):
            resp = requests.models.Response()
            resp.status_code = int(st.split(":")[1])
            raise requests.exceptions.HTTPError(f"{resp.status_code} scripted status error", response=resp)
        return {"status": server_word(st), "progress": 0.5, "progress_message": "phase",
                "status_message": "stopped", "creation_datetime": None, "start_time": None, "duration": None}

    def cancel_job(self, job_id):
        raise AssertionError("cancel_job is not part of C19 histories")

    def get_job_results(self, job_id):
        import requests
        server = _CURRENT["server"]
        server.log.append(("results", job_id, self._meta()))
        r = server.result()
        if r == "intr":
            raise KeyboardInterrupt()
        if r == "conn":
            raise requests.exceptions.ConnectionError("scripted connection error")
        if is_fault(r):
            resp = requests.models.Response()
            resp.status_code = int(r.split(":")[1])
            raise requests.exceptions.HTTPError(f"{resp.status_code} scripted results error", response=resp)
        if r == "unavailable":
            return {"results": None} if server.calls % 2 else {}
        import perceval as pcvl
        from perceval.serialization import serialize
        if r == "ok:plain":
            return {"results": json.dumps({"results": {"value": 1}, "physical_perf": 1})}
        assert r == "ok:mapped", r
        ctx = {"result_mapping": ["perceval.utils", "sample_count_to_probs"]}
        if server.calls % 3 == 0:
            ctx["mapping_delta_parameters"] = {}
        bsc = pcvl.BSCount()
        bsc[pcvl.BasicState([1, 0])] = 3
        bsc[pcvl.BasicState([0, 1])] = 1
        return {"results": json.dumps({"results": serialize(bsc), "job_context": ctx})}

    def fetch_platform_details(self):
        return {"specs": {"available_commands": list(self.platform_commands)}, "type": "simulator",
                "name": self.name, "status": "available", "perfs": {}}


class _NoTqdm:
    def __init__(self, *a, **k):
        pass

    def update(self, *a, **k):
        pass

    def set_description_str(self, *a, **k):
        pass

    def close(self):
        pass

    def refresh(self):
        pass


class Env:
    """One history: its own data directory, scripted server and token tables."""

    def __init__(self, root, dir_exists: bool, group: str = GROUP):
        from perceval.runtime import JobGroup, RemoteJob
        import perceval.runtime.job_group as jgmod
        from perceval.utils import PersistentData
        self.JobGroup, self.RemoteJob, self.jgmod = JobGroup, RemoteJob, jgmod
        self.dir = tempfile.mkdtemp(prefix="h-", dir=root)
        self.server = Server()
        _CURRENT["server"] = self.server
        self.server.before_kill = self.remember_file
        self.kill_image = None
        self.Handler = FakeHandler
        with warnings.catch_warnings():
            warnings.simplefilter("ignore")
            JobGroup._PERSISTENT_DATA = PersistentData(self.dir)
        JobGroup._DIR_PATH = os.path.join(self.dir, jgmod.JGRP_DIR_NAME)
        if dir_exists:
            os.makedirs(JobGroup._DIR_PATH)
        jgmod.RPCHandler = self.Handler
        jgmod.tqdm = _NoTqdm
        jgmod.time = types.SimpleNamespace(sleep=self.sleep)
        jgmod.datetime = FakeDateTime
        _CLOCK["tick"] = 0
        self.track_mode = False
        self.calls_at_sleep = 0
        RemoteJob.STATUS_REFRESH_DELAY = -1     # every status evaluation may see a new server status
        self.handlers = [self.Handler(n, u, t, p) for (n, u, t, p) in HANDLERS]
        self.tables = {"hd": {}, "name": {"unnamed": 0}, "rest": {}, "rm": {}}
        self.group = group
        self.file = self.file_of(group)

    def sleep(self, seconds):
        """`time.sleep` of job_group: the next interruptible point after a status request.  A scripted "intr" is a
        Ctrl-C arriving there.  During track_progress a sleep reached without any server call since the previous one
        means that nothing can ever change again (no sent job left to ask about, yet something still counts as
        waiting): the loop cannot end by itself and the process has to be stopped."""
        srv = self.server
        if srv.sts and srv.sts[0] == "intr":
            srv.sts.pop(0)
            srv.last = ("sleep", "intr")
            raise KeyboardInterrupt()
        if self.track_mode:
            if srv.calls == self.calls_at_sleep:
                srv.last = ("sleep", "hang")
                srv._kill()
            self.calls_at_sleep = srv.calls

    def remember_file(self):
        """the process dies now: this is the file it leaves"""
        try:
            with open(self.file, "rb") as f:
                self.kill_image = ("bytes", f.read())
        except FileNotFoundError:
            self.kill_image = ("absent", None)

    def restore_file(self):
        """nothing runs after the call a process died in: whatever an exception handler or `finally` clause of the
        code under test wrote while the harness's stand-in for the kill was unwinding is undone"""
        if self.kill_image is None:
            return
        kind, data = self.kill_image
        self.kill_image = None
        if kind == "absent":
            if os.path.exists(self.file):
                os.remove(self.file)
        else:
            with open(self.file, "wb") as f:
                f.write(data)

    def file_of(self, name):
        """where the property's anchor (`JobGroup._file_path`) puts the group called `name`"""
        return os.path.join(self.JobGroup._DIR_PATH, name + "." + self.jgmod.FILE_EXT_JGRP)

    def tok(self, table, value):
        t = self.tables[table]
        if table == "rest":
            key = wire(value)       # never a str()-rendering: |1,0> the text and |1,0> the state are different requests
        else:
            key = value if isinstance(value, str) else json.dumps(value, sort_keys=True, default=str)
        if key not in t:
            t[key] = len(t) + (0 if table == "name" else 1)
        return t[key]

    # ---- canonical forms -------------------------------------------------------------------
    def canon_ctx(self, c):
        if c is None:
            return None
        if not isinstance(c, dict):
            return {"corrupt": repr(c)}
        out = {}
        for k, v in c.items():
            if k == "result_mapping":
                out["result_mapping"] = self.tok("rm", v)
            elif k == "mapping_delta_parameters":
                out["mapping_delta_parameters"] = self.canon_map(v)
            else:
                out["extra:" + k] = repr(v)
        return out

    @staticmethod
    def canon_map(m):
        if not isinstance(m, dict) or set(m) != {"max_samples", "max_shots"}:
            return {"corrupt": repr(m)}
        return {"max_samples": m["max_samples"], "max_shots": m["max_shots"]}

    def canon_req(self, r):
        """real request_data dict -> model Req JSON"""
        if r is None:
            return None
        r = dict(r)
        out = {}
        if "job_name" in r:
            out["job_name"] = self.tok("name", r.pop("job_name"))
        p = dict(r.pop("payload"))
        pay = {}
        for k in ("max_samples", "max_shots"):
            if k in p:
                pay[k] = p.pop(k)
        if "job_context" in p:
            pay["job_context"] = self.canon_ctx(p.pop("job_context"))
        pay["rest"] = self.tok("rest", {"outer": r, "payload": p})
        out["payload"] = pay
        return out

    def canon_meta(self, md):
        return self.tok("hd", md)

    def meta_of_handler(self, h):
        return self.canon_meta({"headers": h.headers, "platform": h.name, "url": h.url, "proxies": h.proxies})

    def canon_entry(self, e):
        return {"id": idnum(e["id"]), "status": e["status"], "hd": self.canon_meta(e["metadata"]),
                "body": self.canon_req(e["body"]) if "body" in e else None}

    def read_file(self, name=None):
        path = self.file if name is None else self.file_of(name)
        if not os.path.exists(path):
            return None
        with open(path, encoding="UTF-8") as f:
            data = json.load(f)
        return [self.canon_entry(e) for e in data["job_group_data"]]

    def canon_group_json(self, jg):
        # (no JSON round trip of the harness's own here: a body in memory may hold objects `json.dumps` refuses;
        # `canon_req` identifies the untouched part of a body by its wire form)
        return [self.canon_entry(e) for e in jg._to_json()["job_group_data"]]

    def mem_view(self, jg):
        return [{"id": idnum(j.id), "st": j._job_status.status.name, "hd": self.meta_of_handler(j._rpc_handler),
                 "name": self.tok("name", j.name), "res": bool(j._results), "dp": delta_intact(j)}
                for j in jg.remote_jobs]

    def created_tick(self, name=None):
        path = self.file if name is None else self.file_of(name)
        if not os.path.exists(path):
            return None
        with open(path, encoding="UTF-8") as f:
            return tick_of(json.load(f)["created_date"])

    def dir_files(self):
        """raw content of every file of the job_group directory"""
        d = self.JobGroup._DIR_PATH
        out = {}
        if os.path.isdir(d):
            for f in os.listdir(d):
                with open(os.path.join(d, f), "rb") as fh:
                    out[f] = fh.read()
        return out

    # ---- building and describing jobs ----------------------------------------------------------
    def build_job(self, spec):
        RemoteJob = self.RemoteJob
        h = self.handlers[spec["hd"]]
        if "from_id" in spec:
            self.server.script([], [spec["st"]])
            return RemoteJob.from_id(idstr(spec["from_id"]), h)
        if "sampler" in spec:
            import perceval as pcvl
            from perceval.algorithm import Sampler
            method, primitive = spec["sampler"].split("@")
            h.platform_commands = [primitive]
            rp = pcvl.RemoteProcessor(rpc_handler=h, m=2)
            rp.add(0, pcvl.BS())
            if spec.get("iters"):
                rp.add(0, pcvl.PS(pcvl.P("phi")))
                rp.add(0, pcvl.BS())
            rp.with_input(pcvl.BasicState([1, 0]))
            rp.min_detected_photons_filter(1)
            s = Sampler(rp, max_shots_per_call=spec["shots"])
            s.default_job_name = f"job{spec['name']}"
            for it in spec.get("iters", []):
                # the iteration dictionaries are kept as given in payload['iterator'] (BasicState / NoiseModel objects)
                s.add_iteration(**make_iteration(it))
            return getattr(s, method)
        payload = {"command": "probs", "rest": spec["rest"]}
        if "body" in spec:
            payload["extra"] = make_body(spec["body"])
        for k in ("max_samples", "max_shots"):
            if k in spec:
                payload[k] = spec[k]
        req = {"platform_name": h.name, "pcvl_version": "9.9", "payload": payload}
        delta = {"command": {}, "mapping": {}}
        names = []
        if "cmd" in spec:
            delta["command"]["max_samples"] = spec["cmd"]
            names = ["max_samples"]
        if "map" in spec:
            delta["mapping"]["max_samples"] = spec["map"][0]
            delta["mapping"]["max_shots"] = spec["map"][1]
        ctx = None
        if spec.get("ctx") is not None:
            ctx = {"result_mapping": ["perceval.utils", f"converter_{spec['ctx']}"]}
        job = RemoteJob(req, h, f"job{spec['name']}", delta_parameters=delta, job_context=ctx,
                        command_param_names=names)
        if "ext" in spec:          # executed outside the group before being added
            self.server.script([], [spec["ext"]["st"]])
            self.server.forced = spec["ext"]["id"]
            job.execute_async()
            if spec["ext"]["st"] != "WAITING":
                job.status
        return job

    def describe_job(self, job):
        """model Job JSON of a real RemoteJob object, read before it is added"""
        d = job._delta_parameters
        if set(d) != {"command", "mapping"} or not set(d["command"]) <= {"max_samples", "job_context"} \
                or (d["mapping"] and set(d["mapping"]) != {"max_samples", "max_shots"}):
            raise RuntimeError(f"job outside the modelled fragment: {d}")
        out = {"id": idnum(job.id), "st": job._job_status.status.name, "hd": self.meta_of_handler(job._rpc_handler),
               "name": self.tok("name", job.name), "req": self.canon_req(job._request_data),
               "ctx": self.canon_ctx(job._job_context),
               "dmap": self.canon_map(d["mapping"]) if d["mapping"] else None,
               "res": bool(job._results), "dp": True,
               # can `json.dumps` write the body?  (decided here by the harness, on the object, before it is added)
               "js": json_native(job._request_data)}
        if "max_samples" in d["command"]:
            out["cmd_max"] = d["command"]["max_samples"]
        return out


# ------------------------------------------------------------------------------------------------
# running one history on the real code
# ------------------------------------------------------------------------------------------------
def exc_name(e):
    return "raised:" + type(e).__name__


def lean_rsp(r):
    """answer of the results script as the model reads it"""
    if r == "intr":
        return "fault:KeyboardInterrupt"
    return "fault:" + fault_class(r) if is_fault(r) else r


def describe_op(op):
    k = op["op"]
    if k == "wipe":
        return "delete_job_group(name)" if op["how"] == "name" else "delete_all_job_groups()"
    if k == "delete_date":
        return f"delete_job_groups_date(second {op['cutoff']})"
    if k == "other":
        return {"list": "list_existing()", "delete": f"delete_job_group({op.get('name')!r})",
                "touch": f"JobGroup({op.get('name')!r}).add(job)"}[op["what"]]
    return k


def progress_view(p):
    return [p["Finished"][1]["successful"], p["Finished"][1]["unsuccessful"], p["Unfinished"][1]["sent"],
            p["Unfinished"][1]["not sent"], p["Total"]]


class Runner:
    """Executes a history on the real code one operation at a time (the random generator builds histories
    online against it, so that scripts, duplicates and outside ids fit the group's actual state)."""

    def __init__(self, root, dir_exists, name=GROUP, twin=None, twin_pos="before", twin_tick=0):
        self.env = Env(root, dir_exists, name)
        self.oracle, self.steps, self.lean_ops, self.ops = [], [], [], []
        self.dir_exists = dir_exists
        self.name, self.twin, self.twin_pos, self.twin_tick = name, twin, twin_pos, twin_tick
        self.twin_file = None     # content of the bystander group's file once it exists
        self.others = {}          # every other group the harness made in this directory: name -> creation second
        self.dead = False
        self.jg = None
        with warnings.catch_warnings():
            warnings.simplefilter("ignore")
            try:
                if twin is not None and twin_pos == "before":
                    _CLOCK["tick"] = min(twin_tick, 0)
                    self.make_twin()
                _CLOCK["tick"] = 0           # the group itself is created at second 0 of the history
                self.jg = self.env.JobGroup(name)
                if twin is not None and twin_pos == "after":
                    _CLOCK["tick"] = max(twin_tick, 0)
                    self.make_twin()
                self.init = snapshot(self.env, self.jg, self.oracle, -1, None, None)
                self.check_twin(-1)
            except Exception as e:   # noqa: BLE001
                self.crashed(-1, e, "creating the group")
                self.init = {"mem": [], "disk": None, "reload": None}
        self.prev_file = self.init["disk"]

    # ---- a second group in the same directory, with a name close to the first: it must never change ----
    def make_twin(self):
        env = self.env
        g = env.JobGroup(self.twin)
        g.add(env.build_job(dict(PLAIN, hd=TWIN_HD, name=4, rest=3)))
        env.JobGroup(self.twin)       # and it is opened once more by this process, as a user listing groups would
        self.twin_file = env.read_file(self.twin)
        if self.twin_file is not None:
            self.others[self.twin] = env.created_tick(self.twin)
        if self.twin_file is None or len(self.twin_file) != 1:
            self.oracle.append((-1, "group-file-missing", f"a group named {self.twin!r} was created and given one job; "
                                f"its file {os.path.basename(env.file_of(self.twin))!r} holds {self.twin_file}"))

    def check_twin(self, t):
        if self.twin is None or self.twin_file is None:
            return
        now = self.env.read_file(self.twin)
        if now != self.twin_file:
            self.oracle.append((t, "other-group-changed",
                                f"operations on the group named {self.name!r} changed the file of the group named "
                                f"{self.twin!r} (created {self.twin_pos} it, one unsent job): {self.twin_file} -> {now}"))
            self.twin_file = now
        if now is not None:
            # the bystander re-opened by the same process is the group its own file describes
            got = [m["hd"] for m in self.env.mem_view(self.env.JobGroup(self.twin))]
            if got != [e["hd"] for e in now]:
                self.oracle.append((t, "other-group-reopened-differs:hd",
                                    f"the group named {self.twin!r} (file metadata tokens {[e['hd'] for e in now]}) re-opened "
                                    f"after operations on the group named {self.name!r} has jobs with the platform metadata "
                                    f"{got} (token table: {self.env.tables['hd']})"))

    def crashed(self, t, e, doing):
        """An exception escaped while the harness was observing/driving the real code.  Through the code under
        test -> that is a finding on a legal input; otherwise a harness problem, which must surface as such."""
        where = through_code_under_test(e)
        if where is None:
            raise e
        self.dead = True
        self.oracle.append((t, f"exception-in-code-under-test:{type(e).__name__}",
                            f"{doing}: {type(e).__name__}: {str(e)[:200]} raised in {where} on a legal history"))

    def step(self, op):
        with warnings.catch_warnings():
            warnings.simplefilter("ignore")
            t = len(self.ops)
            try:
                self._step(op)
            except Exception as e:   # noqa: BLE001
                self.crashed(t, e, f"observing the group after operation {t} ({op['op']})")
                if len(self.ops) == t:
                    self.ops.append(op)
                if len(self.lean_ops) == t:
                    self.lean_ops.append({"op": "reopen"})
                if len(self.steps) == t:
                    self.steps.append({"mem": [], "disk": None, "reload": None, "res": "crashed", "view": []})

    def _step(self, op):
        env, srv, oracle = self.env, self.env.server, self.oracle
        JobGroup = env.JobGroup
        jg = self.jg
        t = len(self.ops)
        if self.dead:                     # the file can no longer be loaded: the history cannot go on
            self.ops.append(op)
            self.lean_ops.append({"op": "reopen"})
            self.steps.append({"mem": [], "disk": None, "reload": None, "res": "dead", "view": []})
            return
        self.ops.append(op)
        kind = op["op"]
        res, view = "ok", []
        srv.script([], [])
        lop = {"op": kind}
        _CLOCK["tick"] += int(op.get("dt", 0))
        before, main_created = env.dir_files(), env.created_tick()
        may_change, expected_gone = {os.path.basename(env.file)}, set()
        try:
            if kind == "reopen":
                jg = JobGroup(env.group)
            elif kind == "add_local":
                from perceval.runtime import LocalJob
                jg.add(LocalJob(lambda: None))
            elif kind == "add":
                job = env.build_job(op["job"])
                lop["job"] = env.describe_job(job)
                lop["kw"] = op.get("kw")
                srv.script([], [])
                if op.get("kw") is None:
                    jg.add(job)
                else:
                    jg.add(job, max_samples=op["kw"])
            elif kind == "launch":
                lop.update({k: op[k] for k in ("rerun", "replace", "seq", "outs", "sts")})
                srv.script(op["outs"], op["sts"])
                if op["rerun"]:
                    if op["seq"]:
                        jg.rerun_failed_sequential(0, replace_failed_jobs=op["replace"])
                    else:
                        jg.rerun_failed_parallel(replace_failed_jobs=op["replace"])
                elif op["seq"]:
                    jg.run_sequential(0)
                else:
                    jg.run_parallel()
            elif kind == "progress":
                lop["sts"] = op["sts"]
                srv.script([], op["sts"])
                view = progress_view(jg.progress())
            elif kind == "list":
                lop.update({"kind": op["kind"], "sts": op["sts"]})
                srv.script([], op["sts"])
                got = getattr(jg, f"list_{op['kind']}_jobs")()
                jobs = jg.remote_jobs
                view = [i for i, j in enumerate(jobs) if any(j is g for g in got)]
                if len(view) != len(got):
                    oracle.append((t, "list-returns-foreign-job", f"list_{op['kind']}_jobs returned a job not in the group"))
            elif kind == "get_results":
                lop.update({"sts": op["sts"], "rsps": [lean_rsp(r) for r in op["rsps"]]})
                srv.script([], op["sts"], op["rsps"])
                got = jg.get_results()
                view = [0 if r is None else 1 for r in got]
                if len(got) != len(jg):
                    oracle.append((t, "results-list-length", f"get_results() returned {len(got)} entries for {len(jg)} jobs"))
            elif kind == "track":
                lop["sts"] = op["sts"]
                srv.script([], op["sts"])
                env.track_mode, env.calls_at_sleep = True, srv.calls
                try:
                    jg.track_progress()
                finally:
                    env.track_mode = False
            elif kind == "wipe":
                lop["now"] = _CLOCK["tick"]
                if op["how"] == "name":
                    JobGroup.delete_job_group(env.group)
                else:
                    JobGroup.delete_all_job_groups()
                jg = JobGroup(env.group)        # the stale object is dropped, the name opened again
            elif kind == "delete_date":
                lop.update({"cutoff": op["cutoff"], "now": _CLOCK["tick"]})
                JobGroup.delete_job_groups_date(EPOCH + _dt.timedelta(seconds=op["cutoff"]))
                jg = JobGroup(env.group)
            elif kind == "other":
                may_change, expected_gone = self.other_op(op, t)
            else:
                raise RuntimeError(f"unknown op {kind}")
        except Kill:
            res = "killed"
            env.restore_file()
            try:
                jg = JobGroup(env.group)      # the process is gone: only the file survives
            except Exception:             # noqa: BLE001 — reported by snapshot() below
                self.dead = True
        except KeyboardInterrupt as e:    # the scripted Ctrl-C left the operation
            res = exc_name(e)
        except Exception as e:        # noqa: BLE001 — every exception class is an observation
            res = exc_name(e)
        self.jg = jg
        faults = {"raiser": None, "ignored": 0, "wait": False}
        if "sts" in lop:
            # which failed status requests were swallowed and which one ended the operation, read off the real run
            given = list(op["sts"])
            used = len(given) - len(srv.sts)
            raiser = None
            if res in ("raised:HTTPError", "raised:ConnectionError") and srv.last is not None \
                    and srv.last[0] == "status" and is_fault(srv.last[1]) and used > 0:
                raiser = used - 1
                faults["raiser"] = given[raiser]
                # raised by a request of `_update_job_statuses` (refresh) or of the sequential wait on a job just sent
                faults["wait"] = bool(kind == "launch" and op["seq"] and srv.accepted)
            faults["ignored"] = sum(1 for i, a in enumerate(given[:used]) if is_fault(a) and i != raiser)
            lop["sts"] = [a if not is_fault(a) else
                          ("fault:" + fault_class(a)) if (i == raiser or (i >= used and a in FATAL_FAULTS)) else "ignored"
                          for i, a in enumerate(given)]
        self.lean_ops.append(lop)
        snap = snapshot(env, jg, oracle, t, op, res, faults)
        snap["res"], snap["view"], snap["faults"] = res, view, faults
        info = {"last": list(srv.last) if srv.last else None}
        if kind == "get_results":
            asked = {}
            for w_, jid, _m in srv.log:
                if w_ == "status":
                    asked[jid] = asked.get(jid, 0) + 1
            info["requery"] = any(v > 1 for v in asked.values())
            info["rsps_used"] = op["rsps"][:len(op["rsps"]) - len(srv.rsps)]
        snap["info"] = info
        if snap["reload"] is None:
            self.dead = True
        prev_file = self.prev_file
        # direct oracles that need the operation's context
        if kind == "progress" and res == "ok":
            if sum(view[:4]) != view[4] or view[4] != len(jg):
                oracle.append((t, "progress-not-a-partition", f"progress() counters {view} do not partition {len(jg)} jobs"))
        if kind == "launch" and snap["disk"] is not None:
            on_disk = [e["id"] for e in snap["disk"]]
            lost = [k for k in srv.accepted if k not in on_disk]
            if lost:
                oracle.append((t, "accepted-id-lost", f"ids {lost} were issued by the server during this launch "
                                                       f"({res}) but are not in the file"))
            for k, payload, meta in srv.created:
                idx = on_disk.index(k) if k in on_disk else None
                sent = env.canon_req(payload)
                held = prev_file[idx]["hd"] if (prev_file is not None and idx is not None and idx < len(prev_file)) else None
                if held is not None and env.canon_meta(meta) != held:
                    oracle.append((t, "request-sent-with-other-credentials",
                                   f"the job-creation request of entry {idx} left with the platform metadata {meta}, while the "
                                   f"file held for that entry the metadata token {held} of {env.tables['hd']}"))
                stored = prev_file[idx]["body"] if (prev_file is not None and idx is not None and idx < len(prev_file)) else None
                if stored is not None and sent != stored:
                    what = diff_req(stored, sent)
                    sig = SIGNATURES["ctx"] if what == ["job_context"] else "request-differs-from-stored-body"
                    oracle.append((t, sig, f"the request sent for entry {idx} differs from the body the file held "
                                           f"before the launch in {what}: stored {stored['payload']} sent {sent['payload']}"))
        # every other request about a job of the group goes out with that job's stored platform metadata
        for what_, job_id, meta in srv.log:
            if job_id is None:        # results asked for a job that was never sent: no stored identifier to look up
                continue
            k = idnum(job_id)
            held = next((e["hd"] for f_ in (prev_file, snap["disk"]) if f_ is not None for e in f_ if e["id"] == k), None)
            if held is not None and env.canon_meta(meta) != held:
                oracle.append((t, "request-sent-with-other-credentials",
                               f"the {what_} request for job {job_id} left with the platform metadata {meta}, while the file "
                               f"holds for that job the metadata token {held} of {env.tables['hd']}"))
                break
        if kind == "add" and op["job"].get("dup") and res != "raised:ValueError":
            oracle.append((t, "duplicate-id-accepted", f"adding a job whose id is already in the group gave {res}"))
        self.steps.append(snap)
        self.prev_file = snap["disk"]
        self.check_directory(t, op, res, before, main_created, may_change, expected_gone)
        self.check_twin(t)

    # ---- operations on other names, and what any operation may do to the directory -------------------------------
    def other_op(self, op, t):
        """list_existing / deleting / opening+saving groups with ANOTHER name -> (files that may change, files that
        must disappear)"""
        env = self.env
        JobGroup = env.JobGroup
        ext = "." + env.jgmod.FILE_EXT_JGRP
        what = op["what"]
        if what == "list":
            got = JobGroup.list_existing()
            want = sorted([n for n in [self.name] + list(self.others) if os.path.exists(env.file_of(n))])
            if sorted(got) != want:
                self.oracle.append((t, "list-existing-wrong", f"list_existing() returned {sorted(got)}; the groups saved in "
                                                              f"the directory are {want} (files {sorted(env.dir_files())})"))
            return set(), set()
        name = op["name"]
        assert name != self.name
        if what == "delete":
            existed = (name + ext) in env.dir_files()
            JobGroup.delete_job_group(name)
            return set(), ({name + ext} if existed else set())
        if what == "touch":
            g = JobGroup(name)
            g.add(env.build_job(dict(PLAIN, hd=TWIN_HD, name=3, rest=2)))
            self.others[name] = env.created_tick(name)
            if name == self.twin:
                self.twin_file = env.read_file(name)
            return {name + ext}, set()
        raise RuntimeError(f"unknown namespace operation {what}")

    def check_directory(self, t, op, res, before, main_created, may_change, expected_gone):
        """direct oracle on the directory: which files an operation may touch, must remove, must leave byte-identical"""
        env, oracle = self.env, self.oracle
        ext = "." + env.jgmod.FILE_EXT_JGRP
        main_f = os.path.basename(env.file)
        kind = op["op"]
        after = env.dir_files()
        sig_set = "other-group-changed"
        if kind == "wipe" and op["how"] == "all" and res == "ok":
            expected_gone, sig_set = {f for f in before if f != main_f}, "delete-all-leaves-groups"
        elif kind == "delete_date" and res == "ok":
            expected_gone = {n + ext for n, c in self.others.items() if c is not None and c < op["cutoff"] and n + ext in before}
            sig_set = "delete-by-date-wrong-set"
        for f in sorted(set(before) | set(after)):
            if f in may_change:
                continue
            if f in expected_gone:
                if f in after:
                    oracle.append((t, sig_set, f"{describe_op(op)} should have removed the group file {f!r} "
                                               f"(creation seconds of the other groups: {self.others}); it is still there"))
                continue
            if f not in after:
                oracle.append((t, sig_set, f"{describe_op(op)} on the group named {self.name!r} removed the file {f!r} of "
                                           f"another group (creation seconds {self.others})"))
            elif f not in before:
                oracle.append((t, "group-file-appeared", f"{describe_op(op)} on the group named {self.name!r} created the "
                                                         f"file {f!r}, which is the file of no group that was opened"))
            elif after[f] != before[f]:
                oracle.append((t, "other-group-changed", f"{describe_op(op)} on the group named {self.name!r} changed the "
                                                         f"content of the file {f!r} of another group"))
        # the group itself after a deletion
        if res == "ok" and kind in ("wipe", "delete_date") and self.jg is not None:
            hit = kind == "wipe" or (main_created is not None and main_created < op["cutoff"])
            now_created = env.created_tick()
            if hit:
                if len(self.jg) != 0 or now_created != _CLOCK["tick"] or env.read_file() != []:
                    oracle.append((t, "deleted-group-not-fresh",
                                   f"after {describe_op(op)} the name {self.name!r} opens as a group of {len(self.jg)} jobs "
                                   f"created at second {now_created} (now: second {_CLOCK['tick']}), file {env.read_file()}"))
            elif after.get(main_f) != before.get(main_f):
                oracle.append((t, "delete-by-date-wrong-set",
                               f"{describe_op(op)}: the group named {self.name!r} was created at second {main_created}, not "
                               f"before the cut-off, yet its file changed"))
        if kind not in ("wipe", "delete_date") and main_created is not None and main_f in after:
            now_created = env.created_tick()
            if now_created != main_created:
                oracle.append((t, "creation-date-changed",
                               f"{describe_op(op)} changed the created_date of the group named {self.name!r} from second "
                               f"{main_created} to second {now_created}: date-based deletion no longer sees when the group "
                               f"was created"))
        if kind == "other" and after.get(main_f) != before.get(main_f):
            oracle.append((t, "group-changed-by-operation-on-other-name",
                           f"{describe_op(op)} changed the file of the group named {self.name!r}"))
        for n in list(self.others):       # follow what really is in the directory
            if n + ext not in after:
                del self.others[n]
                if n == self.twin:
                    self.twin_file = None

    def finish(self):
        env = self.env
        created = [{"id": k, "req": env.canon_req(p)} for k, p in env.server.all_created]
        shutil.rmtree(env.dir, ignore_errors=True)
        hist = {"dir": self.dir_exists, "ops": self.ops}
        if self.name != GROUP:
            hist["name"] = self.name
        if self.twin is not None:
            hist["twin"], hist["twin_pos"] = self.twin, self.twin_pos
            if self.twin_tick:
                hist["twin_tick"] = self.twin_tick
        return hist, {"init": self.init, "steps": self.steps, "lean_ops": self.lean_ops, "created": created,
                      "oracle": self.oracle, "hd_table": dict(env.tables["hd"])}


def run_real(root, hist):
    """-> dict(init, steps=[...], lean_ops=[...], created=[...], oracle=[(step, signature, what)])"""
    r = Runner(root, hist["dir"], hist.get("name", GROUP), hist.get("twin"), hist.get("twin_pos", "before"),
               hist.get("twin_tick", 0))
    for op in hist["ops"]:
        r.step(copy.deepcopy(op))
    return r.finish()[1]


def diff_req(a, b):
    out = []
    if a.get("job_name") != b.get("job_name"):
        out.append("job_name")
    for k in sorted(set(a["payload"]) | set(b["payload"])):
        if a["payload"].get(k, "<absent>") != b["payload"].get(k, "<absent>"):
            out.append(k)
    return out


def snapshot(env, jg, oracle, t, op, res, faults=None):
    """memory, file, re-opened group + the property evaluated directly on them"""
    mem = env.mem_view(jg)
    try:
        disk = env.read_file()
        jg2 = env.JobGroup(env.group)
    except Exception as e:   # noqa: BLE001 — the group can no longer be re-opened from its file at all
        oracle.append((t, "reopen-raises", f"re-opening the group from the file raises {type(e).__name__}: {e} "
                                           f"(memory holds {len(jg)} jobs)"))
        return {"mem": mem, "disk": None, "reload": None}
    reload_ = [{"id": m["id"], "st": m["st"], "hd": m["hd"]} for m in env.mem_view(jg2)]
    try:
        mem_json = env.canon_group_json(jg)
    except Exception as e:   # noqa: BLE001
        if through_code_under_test(e) is None:
            raise
        mem_json = None
        mem_err = type(e).__name__
    try:
        re_json = env.canon_group_json(jg2)
    except Exception as e:   # noqa: BLE001
        # the group a fresh process gets cannot even be serialised: its next add / run_* / rerun_* / status change
        # (each of them rewrites the file) raises, while the same operation on the group in memory works
        where = through_code_under_test(e)
        if where is None:
            raise
        re_json = None
        if mem_json is not None:
            oracle.append((t, "reopened-group-unusable",
                           f"the group re-opened from the file cannot be written back ({type(e).__name__}: "
                           f"{str(e)[:120]} in {where}): every mutating operation of the re-opened group raises; "
                           f"the group in memory serialises to {mem_json}"))
    # ---- direct oracle: re-opening yields the same group ----
    unser_sig = SIGNATURES["add"] if (op is not None and op.get("op") == "add" and str(res).startswith("raised:")
                                      and len(jg) == len(jg2) + 1) else "group-in-memory-unusable"
    clobbered = [i for i, j in enumerate(jg.remote_jobs) if not delta_intact(j)]
    if clobbered and not all(j._job_status.success for j in (jg.remote_jobs[i] for i in clobbered)):
        # direct observation on the object: its delta parameters are no longer the two-key dictionary; the next
        # _create_payload_data (any save of the group, any rerun) raises KeyError
        unser_sig = SIGNATURES["res"]
    if len(jg2) != len(jg):
        if disk is None and not os.path.isdir(os.path.dirname(env.file)):
            oracle.append((t, SIGNATURES["dir"], f"memory holds {len(jg)} jobs, but there is no file "
                                                 f"{os.path.relpath(env.file, env.dir)}: the re-opened group is empty"))
        elif disk is None:
            there = sorted(os.listdir(os.path.dirname(env.file)))
            oracle.append((t, "group-file-missing",
                           f"memory holds {len(jg)} jobs of the group named {env.group!r}, but its file "
                           f"{os.path.basename(env.file)!r} does not exist (directory holds {there}): JobGroup(name) "
                           f"does not find the group again and starts an empty one ({len(jg2)} jobs)"))
        elif mem_json is None:
            oracle.append((t, unser_sig, f"memory holds {len(jg)} jobs, the file {len(jg2)}: a job that cannot be "
                                                 f"serialised ({mem_err}) stayed in memory after add() raised"))
        else:
            oracle.append((t, "length-differs", f"memory holds {len(jg)} jobs, the re-opened group {len(jg2)}"))
    elif mem_json is None:
        oracle.append((t, unser_sig, f"the in-memory group can no longer be serialised ({mem_err}): every further "
                                     f"operation that rewrites the file raises"))
    elif re_json is not None:
        for i, (a, b) in enumerate(zip(mem_json, re_json)):
            if a == b:
                continue
            fields = [k for k in ("id", "status", "hd") if a[k] != b[k]]
            if a["body"] != b["body"]:
                fields += ["body." + f for f in (diff_req(a["body"], b["body"]) if a["body"] and b["body"] else ["presence"])]
            if fields == ["body.job_context"]:
                sig = SIGNATURES["ctx"]
            elif fields == ["status"] and faults is not None and faults["raiser"] is not None and faults["wait"]:
                sig = SIGNATURES["poll"]     # a status seen during the sequential wait, left unsaved when the wait raises
            elif fields in (["status"], ["status", "body.presence"]) and op is not None \
                    and op.get("op") == "launch" and op.get("rerun"):
                sig = SIGNATURES["stat"]     # a status left unsaved by a rerun launch
            elif fields in (["status"], ["status", "body.presence"]) and op is not None and op.get("op") == "get_results":
                sig = SIGNATURES["gst"]      # a status refreshed by job.get_results() and not saved
            else:
                sig = "reopened-differs:" + ",".join(fields)
            oracle.append((t, sig, f"job {i}: memory {a} vs re-opened {b}"))
            break
        if disk is None and len(jg) == 0 and not os.path.isdir(os.path.dirname(env.file)):
            pass   # empty group, nothing lost yet; reported as soon as a job exists
    # ---- direct oracle on the objects themselves (does not go through the code's own _to_dict) ----
    if len(jg2) == len(jg):
        for i, (a, b) in enumerate(zip(jg.remote_jobs, jg2.remote_jobs)):
            fields = []
            if a.id != b.id:
                fields.append("id")
            if a.was_sent and a._job_status.status != b._job_status.status:
                fields.append("status")
            if env.meta_of_handler(a._rpc_handler) != env.meta_of_handler(b._rpc_handler):
                fields.append("hd")
            if a._job_status.status.name != "SUCCESS":
                ra, rb = env.canon_req(a._request_data), env.canon_req(b._request_data)
                if ra != rb:
                    fields += ["body." + f for f in (diff_req(ra, rb) if ra and rb else ["presence"])]
            if fields:
                oracle.append((t, "reopened-object-differs:" + ",".join(fields),
                               f"job {i}: the RemoteJob in memory and the one of the re-opened group differ in {fields} "
                               f"(id {a.id}/{b.id}, status {a._job_status.status.name}/{b._job_status.status.name}, "
                               f"request {env.canon_req(a._request_data)} / {env.canon_req(b._request_data)})"))
                break
    if disk is not None:
        sent_ids = [e["id"] for e in disk if e["id"] is not None]
        if len(sent_ids) != len(set(sent_ids)):
            oracle.append((t, "duplicate-ids-on-disk", f"the file holds the ids {sent_ids}"))
    return {"mem": mem, "disk": disk, "reload": reload_, "created": env.created_tick()}


# ------------------------------------------------------------------------------------------------
# comparison with the Lean model
# ------------------------------------------------------------------------------------------------
def strip_ctx(x):
    if isinstance(x, dict):
        return {k: strip_ctx(v) for k, v in x.items() if k != "job_context"}
    if isinstance(x, list):
        return [strip_ctx(v) for v in x]
    return x


class Diff(str):
    """first model/code difference; `.unexpected` = (step, exception class) when that difference is the real code
    raising where the model (whose legal results are proved) returns normally"""
    unexpected = None


def compare(real, rep, variant):
    """first difference between the real run and the model's reply, or None"""
    norm = (lambda x: x) if variant["ctx"] else strip_ctx
    if "err" in rep:
        return f"the model rejected the history: {rep['err']}"

    def cmp_snap(where, r, m):
        mm = [{"id": j["id"], "st": j["st"], "hd": j["hd"], "name": j["name"], "res": j["res"], "dp": j["dp"]}
              for j in m["mem"]]
        rm = r["mem"]
        # the name of a job loaded from a SUCCESS entry is not persisted (always "unnamed")
        if mm != rm:
            return f"{where}: memory differs: real {rm} model {mm}"
        if norm(r["disk"]) != norm(m["disk"]):
            return f"{where}: file differs: real {r['disk']} model {m['disk']}"
        ml = [{"id": j["id"], "st": j["st"], "hd": j["hd"]} for j in m["reload"]]
        if r["reload"] != ml:
            return f"{where}: re-opened group differs: real {r['reload']} model {ml}"
        if r["disk"] is not None and r.get("created") != m["created"]:
            return f"{where}: creation second of the group file differs: real {r.get('created')} model {m['created']}"
        return None

    d = cmp_snap("after JobGroup(name)", real["init"], rep["init"])
    if d:
        return d
    if len(rep["steps"]) != len(real["steps"]):
        return "step count differs"
    for t, (r, m) in enumerate(zip(real["steps"], rep["steps"])):
        if r["res"] != m["res"]:
            d = Diff(f"step {t}: result differs: real {r['res']} model {m['res']}")
            if r["res"].startswith("raised:") and m["res"] == "ok":
                d.unexpected = (t, r["res"][len("raised:"):])
            return d
        if r["view"] != m["view"]:
            return f"step {t}: view differs: real {r['view']} model {m['view']}"
        d = cmp_snap(f"step {t}", r, m)
        if d:
            return d
    ms = [{"id": s["id"], "req": s["req"]} for s in rep["sent"]]
    if norm(ms) != norm(real["created"]):
        return f"requests sent differ: real {real['created']} model {ms}"
    return None


FIXED = {"ctx": True, "dir": True, "add": True, "stat": True, "poll": True, "res": True, "gst": True}


def lean_request(hist, real, variant):
    return {"variant": variant, "dir": hist["dir"], "ops": real["lean_ops"]}


# ------------------------------------------------------------------------------------------------
# witnesses of the four known behaviours (also detect which variant of the code is running)
# ------------------------------------------------------------------------------------------------
PLAIN = {"hd": 0, "name": 1, "rest": 1}
WITNESS = {
    # Sampler.probs on a platform that only offers sample_count -> job_context carries a result_mapping
    "ctx": {"dir": True, "ops": [
        {"op": "add", "job": {"hd": 0, "name": 1, "sampler": "probs@sample_count", "shots": 100}, "kw": None},
        {"op": "reopen"},
        {"op": "launch", "rerun": False, "replace": False, "seq": False, "outs": [{"accept": 0}], "sts": []}]},
    "dir": {"dir": False, "ops": [{"op": "add", "job": PLAIN, "kw": None}]},
    "add": {"dir": True, "ops": [
        {"op": "add", "job": {"hd": 0, "name": 1, "rest": 1, "max_shots": 100, "cmd": None}, "kw": None}]},
    "stat": {"dir": True, "ops": [
        {"op": "add", "job": PLAIN, "kw": None},
        {"op": "launch", "rerun": False, "replace": False, "seq": False, "outs": [{"accept": 0}], "sts": []},
        {"op": "launch", "rerun": True, "replace": True, "seq": False, "outs": [], "sts": ["WAITING", "SUCCESS"]}]},
    "poll": {"dir": True, "ops": [
        {"op": "add", "job": PLAIN, "kw": None},
        {"op": "launch", "rerun": False, "replace": False, "seq": True, "outs": [{"accept": 0}],
         "sts": ["RUNNING", "http:500"]}]},
    # a canceled job whose (partial) results carry a result_mapping; an unsent job; results fetched; launch
    "res": {"dir": True, "ops": [
        {"op": "add", "job": {"hd": 0, "name": 1, "rest": 1, "ctx": 1}, "kw": None},
        {"op": "launch", "rerun": False, "replace": False, "seq": False, "outs": [{"accept": 0}], "sts": []},
        {"op": "add", "job": PLAIN, "kw": None},
        {"op": "get_results", "sts": ["CANCELED"], "rsps": ["ok:mapped"]},
        {"op": "launch", "rerun": False, "replace": False, "seq": False, "outs": [{"accept": 0}], "sts": []}]},
    # a job the server reports as UNKNOWN during the refresh and as SUCCESS when job.get_results() asks again
    "gst": {"dir": True, "ops": [
        {"op": "add", "job": PLAIN, "kw": None},
        {"op": "launch", "rerun": False, "replace": False, "seq": False, "outs": [{"accept": 0}], "sts": []},
        {"op": "get_results", "sts": ["UNKNOWN", "SUCCESS"], "rsps": ["ok:plain"]}]},
}
WITNESS_WHAT = {
    "res": "breaks 'if launching stops part-way, every job already accepted keeps its identifier on disk' and 'after every "
           "operation that returns or raises, re-opening yields the same group': JobGroup.get_results() on a group holding a "
           "CANCELED (or ERROR/UNKNOWN) job whose results carry a result_mapping (Sampler.probs on a sample_count platform): "
           "RemoteJob._get_results replaces the job's _delta_parameters by the mapping delta parameters of the results (a "
           "dictionary without the keys 'command'/'mapping'); from then on _create_payload_data() of that job raises "
           "KeyError, so every save of the group raises: a following run_parallel() is accepted by the server and the "
           "identifier it issued never reaches the file, add() of any job raises, rerun_failed_*() raises",
    "gst": "breaks 'after every job-group operation that returns, re-opening yields the same last known status for every "
           "job that was sent': JobGroup.get_results() refreshes the statuses (and saves them), then job.get_results() "
           "evaluates job.status again for a job whose status is UNKNOWN (maybe_completed, not completed): the server's new "
           "answer is kept in memory and never written: memory says SUCCESS, the file (and a re-opened group) UNKNOWN",
    "ctx": "breaks 'the request finally sent for any job is the same whether or not the group was re-opened in "
           "between': a job carrying a job_context (Sampler.probs on a sample_count-only platform) is added, the group "
           "is re-opened and launched: the request sent and the body then written have job_context null "
           "(RemoteJob._from_dict does not restore it, _create_payload_data overwrites it)",
    "dir": "breaks 'after every job-group operation that returns (creating a group, adding a job), re-opening the group "
           "by name from disk yields the same ordered list of jobs': in a fresh data directory JobGroup(name) and "
           "add(job) return normally but write nothing (nobody creates the job_group sub-directory — "
           "PersistentData.create_sub_directory is never called — and write_file only warns \"Can't save\"): the "
           "re-opened group is empty",
    "add": "breaks 'after every job-group operation that returns or raises (adding a job), re-opening yields the same "
           "ordered list of jobs': add() of a job whose request cannot be prepared (Sampler-style job with max_samples "
           "left unset and max_shots given) raises TypeError *after* the job was appended: memory holds a job the file "
           "does not, every later _write_to_file of this object raises too, so a following run_parallel() gets an "
           "identifier from the server that never reaches the file (corpus/C19/id-lost-after-failed-add.json)",
    "stat": "breaks 'after every operation that returns (re-running jobs), re-opening yields the same last known status "
            "for every job that was sent': rerun_failed_*: job.is_failed refreshes the status of a still active job "
            "inside the loop without writing it: memory says SUCCESS, the file (and a re-opened group) still WAITING",
    "poll": "breaks 'after every job-group operation that returns or raises (launching jobs sequentially), re-opening the "
            "group yields the same last known status for every job that was sent': run_sequential / "
            "rerun_failed_sequential wait for the job just sent with `while not job.status.completed` and write the group "
            "only once it is complete; when a status request inside the wait raises (unrecoverable HTTP status such as "
            "500/404/401, or the 5th recoverable fault in a row) the operation raises with the statuses seen so far in "
            "memory only: memory says RUNNING, the file (and a re-opened group) still WAITING",
}


def confirm_stat_real_timing(root):
    """The stale-status history on the real code with *unmodified* timing (real `time`, default
    STATUS_REFRESH_DELAY): rerun_failed_sequential on [failed job, running job]; polling the rerun of the
    first takes > 1 s, so `job.is_failed` of the second asks the server again and the answer is not saved.
    -> (memory statuses, re-opened statuses)"""
    env = Env(root, True)
    env.jgmod.time = _time
    env.RemoteJob.STATUS_REFRESH_DELAY = 1
    srv = env.server
    with warnings.catch_warnings():
        warnings.simplefilter("ignore")
        jg = env.JobGroup(GROUP)
        jg.add(env.build_job(dict(PLAIN)))
        jg.add(env.build_job(dict(PLAIN, name=2)))
        srv.script([{"accept": 0}, {"accept": 0}], [])
        jg.run_parallel()
        _time.sleep(1.1)
        # refresh: ERROR, RUNNING | rerun of job 0 polled: RUNNING, (1 s) SUCCESS | job 1 asked again: SUCCESS
        srv.script([{"accept": 0}], ["ERROR", "RUNNING", "RUNNING", "SUCCESS", "SUCCESS"])
        jg.rerun_failed_sequential(0)
        mem = [j._job_status.status.name for j in jg.remote_jobs]
        re_ = [j._job_status.status.name for j in env.JobGroup(GROUP).remote_jobs]
    env.jgmod.time = types.SimpleNamespace(sleep=lambda s: None)
    env.RemoteJob.STATUS_REFRESH_DELAY = -1
    shutil.rmtree(env.dir, ignore_errors=True)
    return mem, re_


def detect_variant(chk, root):
    """Run the four witnesses on the real code; a behaviour that breaks the property is a violation."""
    variant = {}
    for key, hist in WITNESS.items():
        real = run_real(root, hist)
        sigs = [s for (_, s, _) in real["oracle"]]
        bad = SIGNATURES[key] in sigs
        variant[key] = not bad
        chk.branch("witness-" + key)
        chk.case(("witness", key, bad), nontrivial=True)
        if bad:
            first = next(w for (_, s, w) in real["oracle"] if s == SIGNATURES[key])
            extra = ""
            if key == "stat":
                try:
                    mem, re_ = confirm_stat_real_timing(root)
                    extra = (f" — with unmodified timing (real clock, STATUS_REFRESH_DELAY = 1): "
                             f"rerun_failed_sequential on [failed, running] leaves memory {mem} vs re-opened {re_}")
                    chk.extra["stale_status_real_timing"] = {"memory": mem, "reopened": re_}
                except Exception as e:   # noqa: BLE001
                    extra = f" — real-timing confirmation did not run ({type(e).__name__})"
            chk.fail("violation", SIGNATURES[key], WITNESS_WHAT[key] + " — observed: " + first[:600] + extra,
                     {"history": hist})
    return variant


# ------------------------------------------------------------------------------------------------
# judging one history
# ------------------------------------------------------------------------------------------------
def judge(chk, root, hist, variant, real=None, rep=None):
    """-> list of (kind, signature, what)"""
    if real is None:
        real = run_real(root, hist)
    if rep is None:
        rep = chk.lean.ask(lean_request(hist, real, variant))
    out = []
    known = {SIGNATURES[k] for k, ok in variant.items() if not ok}
    seen = set()
    entries = sorted(real["oracle"], key=lambda e: (e[0], e[1] not in known))
    for (t, sig, what) in entries:
        if sig in seen:
            continue
        seen.add(sig)
        if sig in known:
            # a defect already reported by its witness; what follows in this history may be its consequence
            chk.branch("known-defect-seen:" + sig)
            break
        out.append(("violation", sig, f"step {t}: {what}"[:900]))
    d = compare(real, rep, variant)
    if d is not None and not out:
        if getattr(d, "unexpected", None):
            # up to this operation memory, file and re-opened group agreed with the model step by step; the
            # operation is legal (the model, proved for all legal histories, performs it) and the real code raises
            t, cls = d.unexpected
            op = hist["ops"][t]
            desc = op["op"] + ("" if op["op"] != "launch" else
                               ":" + ("rerun" if op["rerun"] else "run") + ("-seq" if op["seq"] else "-par"))
            after = " on a group re-opened earlier in this history" if any(
                o["op"] == "reopen" or s_["res"] == "killed" for o, s_ in zip(hist["ops"][:t], real["steps"][:t])) else ""
            out.append(("violation", f"operation-raises:{desc}:{cls}",
                        f"step {t}: the legal operation {desc}{after} raises {cls} (the specification returns "
                        f"normally); state before it agreed with the model: {real['steps'][t - 1] if t else real['init']}"[:900]))
        else:
            out.append(("broken", "model-vs-code", d[:900]))
    return out


def shrink(chk, root, hist, variant, sig):
    def fails(h):
        try:
            return any(s == sig for (_, s, _) in judge(chk, root, h, variant))
        except Exception:   # noqa: BLE001
            return False
    cur = copy.deepcopy(hist)
    budget = 120
    changed = True
    while changed and budget > 0:
        changed = False
        for i in range(len(cur["ops"]) - 1, -1, -1):
            cand = copy.deepcopy(cur)
            del cand["ops"][i]
            budget -= 1
            if fails(cand):
                cur, changed = cand, True
                break
            if budget <= 0:
                break
    return cur


# ------------------------------------------------------------------------------------------------
# generators
# ------------------------------------------------------------------------------------------------
JOB_KINDS = ["plain", "plain", "ctx", "ctx", "cmd", "cmd-low", "placeholder", "placeholder-forgot", "map",
             "map-nokw", "unused-kw", "ext", "ext-ctx", "dup", "from-id-success", "from-id-active", "sampler-probs",
             "sampler-samples", "sampler-count", "shots-null", "presets",
             # bodies holding values that are not JSON natives (added after seeded change C19-7 was missed)
             "body-json", "body-nonjson", "body-nonjson-ext", "sampler-iter", "sampler-iter-json"]


def gen_job(rng, chk, kind, state):
    hd = rng.randrange(N_GROUP_HANDLERS)
    if state.hds and rng.random() < 0.3:
        # same platform name and URL as a job already in the group, other token / other proxies
        hd = SAME_PLATFORM.get(rng.choice(state.hds), hd)
    name = rng.randint(1, 4)
    rest = rng.randint(1, 3)
    spec = {"hd": hd, "name": name, "rest": rest}
    kw = None
    if kind == "ctx":
        spec["ctx"] = rng.randint(1, 2)
    elif kind == "cmd":
        spec.update({"cmd": rng.choice([50, 100]), "max_shots": rng.choice([100, 200]), "ctx": 1})
    elif kind == "cmd-low":
        spec.update({"cmd": 10000, "max_shots": rng.choice([10, 100]), "ctx": 2})
    elif kind == "placeholder":
        spec.update({"cmd": None, "max_shots": 100})
        kw = rng.choice([10, 100, 1000])
    elif kind == "placeholder-forgot":
        spec.update({"cmd": None, "max_shots": 100})
    elif kind == "map":
        spec.update({"map": [None, rng.choice([None, 50])], "ctx": 1})
        kw = rng.choice([5, 500])
    elif kind == "map-nokw":
        spec.update({"map": [rng.choice([None, 7]), 50], "ctx": rng.choice([None, 2])})
    elif kind == "unused-kw":
        kw = 3
    elif kind in ("ext", "ext-ctx"):
        if not state.skipped:
            return gen_job(rng, chk, "plain", state)
        k = state.skipped.pop(rng.randrange(len(state.skipped)))
        spec["ext"] = {"id": k, "st": rng.choice(["WAITING", "RUNNING", "SUCCESS", "ERROR", "CANCELED"])}
        if kind == "ext-ctx":
            spec["ctx"] = 1
    elif kind == "dup":
        if not state.ids:
            return gen_job(rng, chk, "plain", state)
        spec["ext"] = {"id": rng.choice(state.ids), "st": rng.choice(["WAITING", "SUCCESS", "ERROR"])}
        spec["dup"] = True
    elif kind in ("from-id-success", "from-id-active"):
        if not state.skipped:
            return gen_job(rng, chk, "plain", state)
        k = state.skipped.pop(rng.randrange(len(state.skipped)))
        spec = {"hd": hd, "from_id": k, "st": "SUCCESS" if kind == "from-id-success" else rng.choice(["RUNNING", "ERROR"])}
    elif kind == "sampler-probs":
        spec = {"hd": hd, "name": name, "sampler": "probs@sample_count", "shots": rng.choice([100, 20000])}
    elif kind == "sampler-samples":
        spec = {"hd": hd, "name": name, "sampler": "samples@probs", "shots": 100}
        kw = rng.choice([None, 50])
    elif kind == "sampler-count":
        spec = {"hd": hd, "name": name, "sampler": "sample_count@sample_count", "shots": rng.choice([100, 10])}
        kw = rng.choice([50, 50, None])
    elif kind == "shots-null":
        spec.update({"max_shots": None, "max_samples": rng.choice([5, 5, None])})
    elif kind == "presets":
        spec.update({"max_samples": rng.choice([500, 5]), "max_shots": 100})
    elif kind == "body-json":
        # values `json.dumps` writes but does not read back as they were (tuples, integer keys, numpy floats, …)
        spec["body"] = rng.choice(BODY_JSON)
        if rng.random() < 0.3:
            spec["ctx"] = 1
    elif kind == "body-nonjson":
        # values `json.dumps` refuses: perceval objects `serialize` knows (the request can be sent), others (it cannot)
        spec["body"] = rng.choice(BODY_SENDABLE + BODY_SENDABLE + BODY_UNSENDABLE)
        kw = rng.choice([None, None, None, 3])
    elif kind == "body-nonjson-ext":
        # … in a job sent outside the group first: once SUCCESS no body is stored and the job is accepted
        if not state.skipped:
            return gen_job(rng, chk, "body-nonjson", state)
        k = state.skipped.pop(rng.randrange(len(state.skipped)))
        spec["body"] = rng.choice(BODY_SENDABLE)
        spec["ext"] = {"id": k, "st": rng.choice(["SUCCESS", "SUCCESS", "ERROR", "WAITING", "RUNNING"])}
    elif kind in ("sampler-iter", "sampler-iter-json"):
        # a Sampler with iterations: payload['iterator'] holds the iteration dictionaries as the user gave them
        how = rng.choice(["probs@sample_count", "sample_count@sample_count", "samples@probs"])
        pool = ITER_JSON if kind == "sampler-iter-json" else ITER_NONJSON + ITER_NONJSON + ITER_JSON
        iters = [rng.choice(pool) for _ in range(rng.randint(1, 3))]
        if kind == "sampler-iter" and not any(i in ITER_NONJSON for i in iters):
            iters[rng.randrange(len(iters))] = rng.choice(ITER_NONJSON)
        spec = {"hd": hd, "name": name, "sampler": how, "shots": rng.choice([100, 100, 10]), "iters": iters}
        kw = None if how.startswith("probs") else rng.choice([50, 50, None])
    chk.count("job_kind", kind)
    return {"op": "add", "job": spec, "kw": kw}


def rand_status(rng, completed=None):
    if completed is True:
        return rng.choice(["SUCCESS", "SUCCESS", "ERROR", "CANCELED"])
    if completed is False:
        return rng.choice(["WAITING", "RUNNING", "RUNNING", "SUSPENDED", "CANCEL_REQUESTED", "UNKNOWN"])
    return rng.choice(STATUSES + ["SUCCESS", "ERROR", "RUNNING"])


def gen_outs(rng, chk, n, allow_kill=True):
    """n scripted answers with a refusal at a uniformly chosen loop position (or none)"""
    pos = rng.randint(0, n + 1)        # n, n+1 -> no refusal
    outs = []
    for i in range(n):
        if i == pos:
            outs.append("refuse")
        else:
            outs.append({"accept": rng.choice([0, 0, 0, 1, 2])})
    if pos < n and n > 0:
        chk.branch("refuse@first" if pos == 0 else ("refuse@last" if pos == n - 1 else "refuse@middle"))
        chk.count("refusal_position", pos)
    if allow_kill and n > 0 and rng.random() < 0.12:
        cut = rng.randint(0, n - 1)
        outs = outs[:cut]
        chk.count("kill_position_outs", cut)
    return outs


def group_state(runner):
    jobs = runner.jg.remote_jobs
    unsent = sum(1 for j in jobs if not j.was_sent)
    active = sum(1 for j in jobs if j.was_sent and not j._job_status.completed)
    failed = sum(1 for j in jobs if j._job_status.failed)
    ids = [idnum(j.id) for j in jobs if j.was_sent]
    return len(jobs), unsent, active, failed, ids


class GenState:
    def __init__(self, ids, skipped, hds=()):
        self.ids, self.skipped, self.hds = ids, skipped, list(hds)


def add_faults(rng, chk, sts, p=0.25):
    """some status requests of this operation fail: an unrecoverable HTTP status, one or two recoverable faults, or
    five recoverable faults in a row, inserted at a uniformly chosen position of the script"""
    while rng.random() < p:
        pos = rng.randint(0, len(sts))
        r = rng.random()
        if r < 0.5:
            ins, what = [rng.choice(FATAL_FAULTS)], "unrecoverable"
        elif r < 0.88:
            ins, what = [rng.choice(SOFT_FAULTS) for _ in range(rng.randint(1, 2))], "recoverable"
        else:
            ins, what = [rng.choice(SOFT_FAULTS) for _ in range(5)], "five-recoverable-in-a-row"
        chk.count("status_fault_scripted", what)
        sts = sts[:pos] + ins + sts[pos:]
        p = 0.3
    return sts


def polls(rng, n):
    sts = []
    for _ in range(n):
        sts += [rand_status(rng, False) for _ in range(rng.choice([0, 0, 1, 2]))] + [rand_status(rng, True)]
    return sts


PLAIN_CHARS = "abcdefghijklmnopqrstuvwxyzABCXYZ0123456789_-"
OTHER_CHARS = " .';%~#&[]{}$=,+!@()^`\\"
UNICODE_CHARS = "\u00e9\u00fc\u00df\u65e5\u03bb\u0416"


def gen_name(rng):
    """a group name a user may choose: any file-name characters except the path separator (the name is 'also the
    filename used to save data on disk'); never empty, never '.'/'..'"""
    r = rng.random()
    if r < 0.25:
        return GROUP
    if r < 0.45:
        return rng.choice(FIXED_NAMES)
    n = rng.randint(1, 14)
    pools = [PLAIN_CHARS, PLAIN_CHARS, HOSTILE, OTHER_CHARS, UNICODE_CHARS]
    name = "".join(rng.choice(rng.choice(pools)) for _ in range(n))
    if name.strip(".") == "":
        name = "g" + name
    return name


def gen_twin(rng, name):
    """another group name, chosen close to `name`: what `name` becomes under the usual 'make it a safe file name'
    rewritings, or a near neighbour — distinct names are distinct groups"""
    cands = [name.translate(str.maketrans({c: "_" for c in HOSTILE})),
             "".join(c if c.isalnum() else "_" for c in name),
             "".join(c if c.isascii() else "_" for c in name),
             name.replace(" ", "_"), name.strip(), name.rstrip(". "), name + "_", name + ".jgrp", name + " ", "_" + name,
             name[:-1], name + "." + "jgrp"[:rng.randint(1, 3)], name.replace(".", "_")]
    cands = [c for c in cands if c != name and c.strip(".") != "" and "/" not in c]
    return rng.choice(cands) if cands else name + "_"


GR_STATUSES = ["UNKNOWN", "UNKNOWN", "UNKNOWN", "SUCCESS", "SUCCESS", "ERROR", "CANCELED", "CANCELED", "RUNNING",
               "WAITING", "SUSPENDED"]


def add_intr(rng, chk, sts, p):
    """a Ctrl-C at a uniformly chosen point of the status script"""
    if rng.random() < p:
        pos = rng.randint(0, len(sts))
        sts = sts[:pos] + ["intr"] + sts[pos:]
        chk.count("interrupt_scripted", "status-script")
    return sts


def gen_rsps(rng, chk, n):
    out = []
    for _ in range(n):
        r = rng.random()
        out.append("ok:mapped" if r < 0.3 else "ok:plain" if r < 0.55 else "unavailable" if r < 0.85 else
                   rng.choice(["http:500", "http:404", "conn", "intr"]))
    if n and rng.random() < 0.08:
        out = out[:rng.randint(0, n - 1)]
        chk.count("kill_in", "get-results")
    return out


OP_WEIGHTS = [("add", 25), ("add_local", 2), ("reopen", 11), ("launch", 15), ("rerun", 12), ("progress", 6), ("list", 5),
              ("get_results", 10), ("track", 4), ("wipe", 3), ("delete_date", 4), ("other", 3)]


def gen_history(rng, chk, max_ops, root):
    """Built online against the real group; returns (history, real run)."""
    name = gen_name(rng)
    twin = gen_twin(rng, name) if rng.random() < 0.4 else None
    pos = rng.choice(["before", "before", "after"])
    runner = Runner(root, rng.random() < 0.85, name, twin, pos,
                    rng.choice([-3, 0, 0]) if pos == "before" else rng.choice([0, 2]))
    n_ops = rng.randint(2, max_ops)
    kinds, weights = zip(*OP_WEIGHTS)
    for _ in range(n_ops):
        if runner.dead and runner.jg is None:
            break
        n, unsent, active, failed, ids = group_state(runner)
        what = "add" if n == 0 and rng.random() < 0.8 else rng.choices(kinds, weights)[0]
        if what == "add":
            hds = [i for j in runner.jg.remote_jobs for i, h in enumerate(runner.env.handlers[:N_GROUP_HANDLERS])
                   if h._meta() == runner.env.Handler._meta(j._rpc_handler)]
            st = GenState(ids, runner.env.server.skipped, hds)
            op = gen_job(rng, chk, rng.choice(JOB_KINDS), st)
        elif what == "add_local":
            op = {"op": "add_local"}
        elif what == "reopen":
            op = {"op": "reopen"}
        elif what == "launch":
            seq = rng.random() < 0.4
            outs = gen_outs(rng, chk, unsent + rng.choice([0, 0, 1]))
            sts = []
            if seq:
                sts = polls(rng, unsent + 1)
                if rng.random() < 0.15:
                    sts = sts[:rng.randint(0, max(0, len(sts) - 1))]
                    chk.count("kill_in", "sequential-polling")
                sts = add_intr(rng, chk, add_faults(rng, chk, sts), 0.2)
            op = {"op": "launch", "rerun": False, "replace": False, "seq": seq, "outs": outs, "sts": sts}
        elif what == "rerun":
            seq = rng.random() < 0.35
            sts = [rand_status(rng) for _ in range(2 * active + 1)]
            # how many jobs will be failed after the refresh is not known in advance: script for all candidates
            outs = gen_outs(rng, chk, failed + active)
            if seq:
                sts += polls(rng, failed + active + 1)
            if rng.random() < 0.12 and active > 0:
                sts = sts[:rng.randint(0, active - 1)]
                chk.count("kill_in", "rerun-status")
            sts = add_intr(rng, chk, add_faults(rng, chk, sts), 0.12 if seq else 0.04)
            op = {"op": "launch", "rerun": True, "replace": rng.random() < 0.5, "seq": seq, "outs": outs, "sts": sts}
        elif what == "progress":
            sts = [rand_status(rng) for _ in range(active + 1)]
            if rng.random() < 0.1 and active > 0:
                sts = sts[:rng.randint(0, active - 1)]
                chk.count("kill_in", "progress")
            op = {"op": "progress", "sts": add_intr(rng, chk, add_faults(rng, chk, sts, 0.3 if active else 0.0),
                                                    0.06 if active else 0.0)}
        elif what == "list":
            op = {"op": "list", "kind": rng.choice(["successful", "active", "unsuccessful", "unsent"]),
                  "sts": add_faults(rng, chk, [rand_status(rng) for _ in range(active + 1)], 0.3 if active else 0.0)}
        elif what == "get_results":
            # the refresh, then job.get_results() asks again for every job that is UNKNOWN
            sts = [rng.choice(GR_STATUSES) for _ in range(active + 1)] + [rng.choice(GR_STATUSES) for _ in range(rng.randint(0, 3))]
            if rng.random() < 0.08 and active > 0:
                sts = sts[:rng.randint(0, active)]
            sts = add_intr(rng, chk, add_faults(rng, chk, sts, 0.12 if active else 0.0), 0.04 if active else 0.0)
            op = {"op": "get_results", "sts": sts, "rsps": gen_rsps(rng, chk, n + 1)}
        elif what == "track":
            rounds = rng.randint(1, 3)
            sts = [rand_status(rng, False) for _ in range(active)]                 # list_active_jobs() before the loop
            for r_ in range(rounds):
                sts += [rand_status(rng, None if r_ == rounds - 1 else False) for _ in range(active)]
            sts += [rand_status(rng, True) for _ in range(active)]
            if rng.random() < 0.15 and sts:
                sts = sts[:rng.randint(0, len(sts) - 1)]
            op = {"op": "track", "sts": add_intr(rng, chk, add_faults(rng, chk, sts, 0.1 if active else 0.0),
                                                 0.25 if active else 0.0)}
        elif what == "wipe":
            op = {"op": "wipe", "how": rng.choice(["name", "name", "all"])}
        elif what == "delete_date":
            now = _CLOCK["tick"]
            cands = [0, now, now + 1, now + 3]
            for c in [runner.env.created_tick()] + list(runner.others.values()):
                if c is not None:
                    cands += [max(c, 0), max(c + 1, 0)]
            op = {"op": "delete_date", "cutoff": rng.choice(cands)}
        else:
            w = rng.choice(["list", "list", "delete", "delete", "touch", "touch"])
            op = {"op": "other", "what": w}
            if w != "list":
                op["name"] = twin if (twin is not None and rng.random() < 0.5) else gen_twin(rng, name)
        op["dt"] = rng.choice([0, 0, 1, 2])
        runner.step(op)
    return runner.finish()


def exhaustive_histories(nmax, chk):
    """groups of <= nmax jobs x all accept/refuse vectors x parallel|sequential x re-open at every point,
    then statuses, a second launch, a rerun (replace or append) with all accept/refuse vectors"""
    kinds = [{"hd": 0, "name": 1, "rest": 1},
             {"hd": 3, "name": 2, "rest": 2, "ctx": 1},          # platform and URL of the first, a renewed token
             {"hd": 2, "name": 3, "rest": 1, "cmd": 10000, "max_shots": 100, "ctx": 2}]
    k = -1
    for n in range(1, nmax + 1):
        adds = [{"op": "add", "job": dict(kinds[i % 3]), "kw": None} for i in range(n)]
        for vec in itertools.product([True, False], repeat=n):
            outs1 = [{"accept": 0} if a else "refuse" for a in vec]
            for seq in (False, True):
                for pattern in ("success", "error", "mixed"):
                    def final(i):
                        return {"success": "SUCCESS", "error": "ERROR", "mixed": ["ERROR", "SUCCESS", "CANCELED"][i % 3]}[pattern]
                    seq_sts = []
                    if seq:
                        for i in range(n):
                            seq_sts += ["RUNNING", final(i)]
                    for replace in (True, False):
                        for vec2 in itertools.product([True, False], repeat=min(n, 2)):
                            outs2 = [{"accept": 0} if a else "refuse" for a in vec2] + [{"accept": 0}] * n
                            base = adds + [
                                {"op": "launch", "rerun": False, "replace": False, "seq": seq, "outs": outs1, "sts": seq_sts},
                                {"op": "progress", "sts": [final(i) for i in range(n)]},
                                {"op": "launch", "rerun": False, "replace": False, "seq": False,
                                 "outs": [{"accept": 1}] * n, "sts": []},
                                {"op": "launch", "rerun": True, "replace": replace, "seq": False, "outs": outs2,
                                 "sts": [final(i + 1) for i in range(3 * n)]},
                                {"op": "progress", "sts": ["RUNNING"] * (3 * n)},
                            ]
                            for pos in range(len(base) + 1):     # pos == len(base): no re-open at all
                                ops = base[:pos] + ([{"op": "reopen"}] if pos < len(base) else []) + base[pos:]
                                h = {"dir": True, "ops": copy.deepcopy(ops)}
                                k += 1
                                if FIXED_NAMES[k % len(FIXED_NAMES)] != GROUP:
                                    h["name"] = FIXED_NAMES[k % len(FIXED_NAMES)]
                                yield h


def exhaustive_fault_histories(nmax):
    """status requests that fail, exhaustively on small groups (jobs of one platform with two tokens and two proxies):
    (A) all jobs sent in parallel, then a refresh whose answers range over {status change, no change, unrecoverable
    fault, recoverable fault}^n, then a second refresh; (B) a sequential launch where the wait on each job ranges over
    {completes at once, changes then completes, changes then unrecoverable fault, recoverable fault then changes then
    fails, unrecoverable fault at once, five recoverable faults}; each with one re-open at every boundary (or none)"""
    kinds = [{"hd": 0, "name": 1, "rest": 1}, {"hd": 3, "name": 2, "rest": 2, "ctx": 1}, {"hd": 4, "name": 3, "rest": 1}]
    waits = [["SUCCESS"], ["RUNNING", "SUCCESS"], ["RUNNING", "http:500"], ["http:429", "RUNNING", "ERROR"], ["http:404"],
             ["RUNNING"] + ["http:408", "conn", "http:429", "http:423", "http:409"]]
    k = 0
    for n in range(1, nmax + 1):
        adds = [{"op": "add", "job": dict(kinds[i % 3]), "kw": None} for i in range(n)]
        bases = []
        for vec in itertools.product(["RUNNING", "WAITING", "SUCCESS", "http:404", "http:429"], repeat=n):
            bases.append(adds + [
                {"op": "launch", "rerun": False, "replace": False, "seq": False, "outs": [{"accept": 0}] * n, "sts": []},
                {"op": "progress", "sts": list(vec)},
                {"op": "list", "kind": "active", "sts": ["RUNNING"] * n},
                {"op": "launch", "rerun": True, "replace": True, "seq": False, "outs": [{"accept": 0}] * n,
                 "sts": ["ERROR", "http:401"] + ["ERROR"] * n}])
        for vec in itertools.product(range(len(waits)), repeat=n):
            sts = [a for i in vec for a in waits[i]]
            bases.append(adds + [
                {"op": "launch", "rerun": False, "replace": False, "seq": True, "outs": [{"accept": 0}] * n, "sts": sts},
                {"op": "progress", "sts": ["SUSPENDED"] * n},
                {"op": "launch", "rerun": False, "replace": False, "seq": True, "outs": [{"accept": 1}] * n,
                 "sts": ["CANCELED"] * n},
                {"op": "launch", "rerun": True, "replace": False, "seq": True, "outs": [{"accept": 0}] * (2 * n),
                 "sts": ["RUNNING"] * n + ["RUNNING", "http:503"]}])
        for base in bases:
            for pos in range(n, len(base) + 1):
                ops = base[:pos] + ([{"op": "reopen"}] if pos < len(base) else []) + base[pos:]
                h = {"dir": True, "ops": copy.deepcopy(ops)}
                k += 1
                if FIXED_NAMES[k % len(FIXED_NAMES)] != GROUP:
                    h["name"] = FIXED_NAMES[k % len(FIXED_NAMES)]
                yield h


def _with_reopens(base, first, name_k):
    """the history as it is, and with one re-open at every operation boundary from `first` on"""
    for pos in range(first, len(base) + 1):
        ops = base[:pos] + ([{"op": "reopen"}] if pos < len(base) else []) + base[pos:]
        h = {"dir": True, "ops": copy.deepcopy(ops)}
        if FIXED_NAMES[name_k % len(FIXED_NAMES)] != GROUP:
            h["name"] = FIXED_NAMES[name_k % len(FIXED_NAMES)]
        yield h


def exhaustive_extension_histories(nmax, full):
    """(A) get_results: groups of <= nmax jobs sent in parallel, every vector of server statuses in {SUCCESS, CANCELED,
    UNKNOWN}^n, every answer in {UNKNOWN, SUCCESS, RUNNING} to the second status request job.get_results() makes for an
    UNKNOWN job, every vector of results answers in {mapped, plain, unavailable, HTTP 500}^n (restricted for n > 1 unless
    `full`), then a second get_results, an add and a launch, with a re-open at every boundary;
    (B) deletion: delete by name / all groups / by date with the cut-off before, at and after the group's creation second,
    x a bystander group created 3 s before, in the same second, 2 s after, x the position of the deletion in a short
    history, followed by add / launch / a second deletion;
    (C) Ctrl-C: sequential launches of <= 2 jobs with the interrupt at every position of the wait script (status request,
    sleep inside the wait, delay after a completed job), and track_progress with the interrupt at every position."""
    kinds = [{"hd": 0, "name": 1, "rest": 1, "ctx": 1}, {"hd": 3, "name": 2, "rest": 2}, {"hd": 2, "name": 3, "rest": 1}]
    par = {"op": "launch", "rerun": False, "replace": False, "seq": False}
    k = 0
    # (A)
    for n in range(1, nmax + 1):
        adds = [{"op": "add", "job": dict(kinds[i % 3]), "kw": None} for i in range(n)]
        rsp_sets = list(itertools.product(["ok:mapped", "ok:plain", "unavailable", "http:500"], repeat=n))
        if n > 1 and not full:
            rsp_sets = [v for v in rsp_sets if all(x in ("ok:mapped", "unavailable") for x in v[1:])]
        for vec in itertools.product(["SUCCESS", "CANCELED", "UNKNOWN"], repeat=n):
            unk = [i for i, x in enumerate(vec) if x == "UNKNOWN"]
            for again in itertools.product(["UNKNOWN", "SUCCESS", "RUNNING"], repeat=len(unk)):
                for rsps in rsp_sets:
                    base = adds + [
                        dict(par, outs=[{"accept": 0}] * n, sts=[]),
                        {"op": "progress", "sts": list(vec)},
                        {"op": "get_results", "sts": ["UNKNOWN"] * len(unk) + list(again), "rsps": list(rsps)},
                        {"op": "get_results", "sts": ["UNKNOWN", "SUCCESS"] * n, "rsps": ["ok:plain"] * n},
                        {"op": "add", "job": dict(kinds[1]), "kw": None},
                        dict(par, outs=[{"accept": 0}], sts=[]),
                        {"op": "launch", "rerun": True, "replace": True, "seq": False, "outs": [{"accept": 0}] * n,
                         "sts": ["CANCELED"] * (n + 1)}]
                    poss = range(n + 2, len(base) + 1) if (n == 1 or full) else [n + 3, len(base)]
                    for pos in poss:
                        k += 1
                        ops = base[:pos] + ([{"op": "reopen"}] if pos < len(base) else []) + base[pos:]
                        h = {"dir": True, "ops": copy.deepcopy(ops)}
                        if FIXED_NAMES[k % len(FIXED_NAMES)] != GROUP:
                            h["name"] = FIXED_NAMES[k % len(FIXED_NAMES)]
                        yield h
    # (B)
    dels = [{"op": "wipe", "how": "name"}, {"op": "wipe", "how": "all"}] + \
           [{"op": "delete_date", "cutoff": c} for c in (0, 1, 2, 5)]
    short = [{"op": "add", "job": dict(kinds[0]), "kw": None}, dict(par, outs=[{"accept": 0}], sts=[]),
             {"op": "progress", "sts": ["ERROR"]}]
    for twin_pos, twin_tick in (("before", -3), ("before", 0), ("after", 2), (None, 0)):
        for d1 in dels:
            for dt in (0, 1, 4):
                for pos in range(len(short) + 1):
                    for d2 in (dels if full else dels[2:4] + dels[:1]):
                        k += 1
                        ops = short[:pos] + [dict(d1, dt=dt)] + short[pos:] + \
                            [{"op": "other", "what": "list"}, dict(d2, dt=1), {"op": "add", "job": dict(kinds[1]), "kw": None},
                             {"op": "other", "what": "list"}]
                        h = {"dir": True, "ops": copy.deepcopy(ops)}
                        name = FIXED_NAMES[k % len(FIXED_NAMES)]
                        if name != GROUP:
                            h["name"] = name
                        if twin_pos is not None:
                            h["twin"], h["twin_pos"], h["twin_tick"] = name.replace(" ", "_") + "_", twin_pos, twin_tick
                        yield h
    # (C)
    waits = [["SUCCESS"], ["RUNNING", "ERROR"]]
    for n in (1, 2):
        adds = [{"op": "add", "job": dict(kinds[i % 3]), "kw": None} for i in range(n)]
        for vec in itertools.product(range(len(waits)), repeat=n):
            sts = [a for i in vec for a in waits[i]]
            for ipos in range(len(sts) + 1):
                isr = sts[:ipos] + ["intr"] + sts[ipos:]
                base = adds + [
                    {"op": "launch", "rerun": False, "replace": False, "seq": True, "outs": [{"accept": 0}] * n, "sts": isr},
                    {"op": "progress", "sts": ["SUSPENDED"] * n},
                    {"op": "launch", "rerun": False, "replace": False, "seq": True, "outs": [{"accept": 1}] * n,
                     "sts": ["CANCELED"] * n},
                    {"op": "launch", "rerun": True, "replace": ipos % 2 == 0, "seq": True, "outs": [{"accept": 0}] * (2 * n),
                     "sts": ["CANCELED"] * n + ["RUNNING", "intr"]}]
                for h in _with_reopens(base, n, k):
                    k += 1
                    yield h
        for rounds in (1, 2):
            sts = ["RUNNING"] * n * (rounds + 1) + ["SUCCESS"] * n
            for ipos in range(len(sts) + 1):
                base = adds + [dict(par, outs=[{"accept": 0}] * n, sts=[]),
                               {"op": "track", "sts": sts[:ipos] + ["intr"] + sts[ipos:]},
                               {"op": "progress", "sts": ["ERROR"] * n},
                               {"op": "track", "sts": []}]
                for h in _with_reopens(base, n + 1, k):
                    k += 1
                    yield h


def exhaustive_body_histories(full):
    """(D) request bodies that are not made of JSON natives: every kind of value of BODY_KINDS under payload['extra'] of a
    hand-built job and every Sampler method x a set of iteration lists (input states, noise models, circuit parameters,
    numbers), x the job unsent / sent outside the group and SUCCESS / sent outside and ERROR (values with a wire form
    only), added between two plain jobs to a group that already holds a sent job, then: launch in parallel, refresh,
    rerun with replacement, launch — with one re-open at every boundary (or none; unless `full`: right after the add, before
    each of the two launches that follow it, or none)"""
    par = {"op": "launch", "rerun": False, "replace": False, "seq": False}
    specs = [{"hd": 0, "name": 2, "rest": 2, "body": b} for b in BODY_KINDS]
    for how in ("probs@sample_count", "sample_count@sample_count", "samples@probs"):
        for iters in (["state"], ["state-shots", "noise"], ["params", "params-state", "numeric"], ["numeric", "params"], ["noise"]):
            specs.append({"hd": 3, "name": 2, "sampler": how, "shots": 100, "iters": iters})
    k = 0
    for spec in specs:
        variants = [None]
        if spec.get("body") in BODY_SENDABLE or spec.get("body") in BODY_JSON[:2]:
            variants += ["SUCCESS", "ERROR"]
        for ext in variants:
            job = dict(spec)
            if ext is not None:
                job["ext"] = {"id": 0, "st": ext}
            kw = 50 if str(spec.get("sampler", "probs")).split("@")[0] != "probs" else None
            base = [{"op": "add", "job": dict(PLAIN), "kw": None},
                    dict(par, outs=[{"accept": 1}], sts=[]),               # identifier 1; 0 is left for the outside job
                    {"op": "add", "job": job, "kw": kw},
                    {"op": "add", "job": {"hd": 3, "name": 3, "rest": 1, "ctx": 1}, "kw": None},
                    dict(par, outs=[{"accept": 0}] * 2, sts=[]),
                    {"op": "progress", "sts": ["ERROR"] * 3},
                    {"op": "launch", "rerun": True, "replace": True, "seq": False, "outs": [{"accept": 0}] * 3,
                     "sts": ["CANCELED"] * 3},
                    {"op": "add", "job": dict(job, name=4, **({"ext": {"id": 0, "st": "WAITING"}} if ext else {})), "kw": kw},
                    dict(par, outs=[{"accept": 0}], sts=[])]
            for h in _with_reopens(base, 2, k):
                k += 1
                if full or len(h["ops"]) == len(base) or h["ops"][3]["op"] == "reopen" or h["ops"][4]["op"] == "reopen" \
                        or h["ops"][8]["op"] == "reopen":
                    yield h


# ------------------------------------------------------------------------------------------------
# the group files of one directory through JobGroup's own entry points: JobGroup(name), add, list_existing,
# delete_job_group, delete_all_job_groups, delete_job_groups_date — against a dictionary keyed by the name (direct
# oracle) and against the model's directory (`PM.C19.NS`)
# ------------------------------------------------------------------------------------------------
DOT_NAMES = ["", ".", "..."]


def run_ns(root, script):
    """script = {"names": [...], "ops": [{"op": open|save|has|list|delete|delete_all|delete_date, "n": i, "now": t,
    "cutoff": c}]} -> (observations, model ops, oracle findings)"""
    env = Env(root, True, "ns-unused")
    JobGroup = env.JobGroup
    names = script["names"]
    ext = "." + env.jgmod.FILE_EXT_JGRP
    ref = {}       # name index -> [creation second, number of jobs]
    obs, lean_ops, bad = [], [], []
    try:
        with warnings.catch_warnings():
            warnings.simplefilter("ignore")
            for t, op in enumerate(script["ops"]):
                kind = op["op"]
                i = op.get("n")
                if "now" in op:
                    _CLOCK["tick"] = op["now"]
                lop = {k_: v for k_, v in op.items()}
                try:
                    if kind == "open":
                        g = JobGroup(names[i])
                        ref.setdefault(i, [op["now"], 0])
                        obs.append({"content": {"created": tick_of(g.created_date.strftime("%Y%m%d_%H%M%S")), "data": len(g)}})
                    elif kind == "save":
                        g = JobGroup(names[i])
                        g.add(env.build_job(dict(PLAIN, name=2, rest=2)))
                        ref.setdefault(i, [op["now"], 0])
                        ref[i][1] += 1
                        lop["data"] = ref[i][1]
                        obs.append({"content": {"created": tick_of(g.created_date.strftime("%Y%m%d_%H%M%S")), "data": len(g)}})
                    elif kind == "has":
                        obs.append({"found": bool(JobGroup._exists_on_disk(names[i]))})
                    elif kind == "list":
                        got = JobGroup.list_existing()
                        obs.append({"names": sorted(names.index(x) for x in got)} if all(x in names for x in got)
                                   else {"names": sorted(map(repr, got))})
                    elif kind == "delete":
                        JobGroup.delete_job_group(names[i])
                        ref.pop(i, None)
                        obs.append("done")
                    elif kind == "delete_all":
                        JobGroup.delete_all_job_groups()
                        ref.clear()
                        obs.append("done")
                    elif kind == "delete_date":
                        JobGroup.delete_job_groups_date(EPOCH + _dt.timedelta(seconds=op["cutoff"]))
                        for j in [j for j, (c, _n) in ref.items() if c < op["cutoff"]]:
                            del ref[j]
                        obs.append("done")
                    else:
                        raise RuntimeError(f"unknown ns op {kind}")
                except Exception as e:   # noqa: BLE001
                    if through_code_under_test(e) is None:
                        raise
                    bad.append((t, f"namespace-operation-raises:{kind}:{type(e).__name__}",
                                f"{kind} ({names[i] if i is not None else ''!r}) raises {type(e).__name__}: {str(e)[:200]}"))
                    obs.append("raised")
                    lean_ops.append(lop)
                    break
                lean_ops.append(lop)
                # direct oracle: the directory is the dictionary, name by name
                files = env.dir_files()
                want = {names[j] + ext for j in ref}
                if set(files) != want:
                    odd = set(files) ^ want
                    dotted = all(f[:-len(ext)].strip(".") == "" or f.endswith(ext + ext) for f in odd)
                    sig = SIG_DOTS if (dotted and kind in ("delete_all", "delete_date")) else "group-files-not-keyed-by-name"
                    bad.append((t, sig, f"after {kind} (script names {names}) the directory holds {sorted(files)}; the groups "
                                        f"that were saved and not deleted are {sorted(want)}"))
                    break
                for j, (c, cnt) in ref.items():
                    data = json.loads(files[names[j] + ext].decode("UTF-8"))
                    if tick_of(data["created_date"]) != c or len(data["job_group_data"]) != cnt:
                        bad.append((t, "group-files-not-keyed-by-name",
                                    f"after {kind} the file of the group named {names[j]!r} holds creation second "
                                    f"{tick_of(data['created_date'])} and {len(data['job_group_data'])} jobs; expected {c}, {cnt}"))
                        break
                if bad:
                    break
                if kind == "list" and obs[-1] != {"names": sorted(ref)}:
                    dotted = any(names[j].strip(".") == "" for j in ref)
                    bad.append((t, SIG_DOTS if dotted else "list-existing-wrong",
                                f"list_existing() returned {obs[-1]['names']} (indices into {names}); saved groups: {sorted(ref)}"))
                    break
    finally:
        shutil.rmtree(env.dir, ignore_errors=True)
    return obs, lean_ops, bad


def gen_ns_script(rng, chk, dots_ok):
    base = gen_name(rng)
    names = [base]
    for _ in range(rng.randint(1, 3)):
        nm = gen_twin(rng, rng.choice(names)) if rng.random() < 0.7 else gen_name(rng)
        if nm not in names:
            names.append(nm)
    if dots_ok and rng.random() < 0.3:
        nm = rng.choice(DOT_NAMES)
        if nm not in names:
            names.append(nm)
    ops, now = [], 0
    for _ in range(rng.randint(3, 12)):
        now += rng.choice([0, 0, 1, 2, 5])
        kind = rng.choice(["open", "save", "save", "save", "has", "list", "list", "delete", "delete_all", "delete_date",
                           "delete_date", "open"])
        op = {"op": kind}
        if kind in ("open", "save", "has", "delete"):
            op["n"] = rng.randrange(len(names))
        if kind in ("open", "save", "delete_date"):
            op["now"] = now
        if kind == "save":
            op["data"] = 0       # filled from the dictionary while the script runs
        if kind == "delete_date":
            op["cutoff"] = max(0, now - rng.choice([0, 0, 1, 2, 3, 6, -1]))
        ops.append(op)
    return {"names": names, "ops": ops}


def judge_ns(chk, root, script):
    obs, lean_ops, bad = run_ns(root, script)
    out = [("violation", sig, f"call {t}: {what}"[:900]) for (t, sig, what) in bad[:1]]
    rep = chk.lean.ask({"ns": [{k_: v for k_, v in o.items()} for o in lean_ops]})
    if not out:
        if "err" in rep:
            out.append(("broken", "model-vs-code", f"the model rejected the directory script: {rep['err']}"))
        elif rep["obs"] != obs:
            out.append(("broken", "model-vs-code", f"group files of a directory: real {obs} model {rep['obs']}"[:900]))
    return out


def shrink_ns(chk, root, script, sig):
    cur = copy.deepcopy(script)
    changed = True
    while changed:
        changed = False
        for i in range(len(cur["ops"]) - 1, -1, -1):
            cand = copy.deepcopy(cur)
            del cand["ops"][i]
            if any(s_ == sig for (_, s_, _) in judge_ns(chk, root, cand)):
                cur, changed = cand, True
                break
    return cur


def handle_ns(chk, root, script):
    chk.branch("ns-script")
    kinds = {o["op"] for o in script["ops"]}
    for k_ in ("delete_all", "delete_date", "delete", "list"):
        if k_ in kinds:
            chk.branch("ns-" + k_.replace("_", "-"))
    if any(n.strip(".") == "" for n in script["names"]):
        chk.branch("ns-dot-name")
    chk.case(("ns", len(script["names"]), tuple(o["op"] for o in script["ops"])), nontrivial=True)
    for kind, sig, what in judge_ns(chk, root, script):
        seen = chk.extra.setdefault("failing_histories_per_signature", {})
        seen[sig] = seen.get(sig, 0) + 1
        if seen[sig] > 1:
            continue
        chk.fail(kind, sig, what, {"ns": shrink_ns(chk, root, script, sig) if kind == "violation" else script})


NS_WITNESS = {"names": ["", "g"], "ops": [{"op": "save", "n": 0, "data": 0, "now": 1}, {"op": "save", "n": 1, "data": 0, "now": 2},
                                          {"op": "list"}, {"op": "delete_all"}, {"op": "has", "n": 0}]}
NS_WITNESS_WHAT = ("breaks 'after a deletion, re-opening a group by name yields a fresh empty group': JobGroup.list_existing() "
                   "recovers group names with os.path.splitext, which does not split a file name made of dots only: the "
                   "group named '' (file '.jgrp'; likewise '.', '...') is listed as '.jgrp', so delete_all_job_groups() "
                   "tries to delete '.jgrp.jgrp' and leaves the group in place, and delete_job_groups_date() opens "
                   "JobGroup('.jgrp'), which creates a new group file")


def detect_dots(chk, root):
    """-> True when list_existing handles names made of dots only"""
    _obs, _ops, bad = run_ns(root, NS_WITNESS)
    chk.branch("witness-dots")
    chk.case(("witness", "dots", bool(bad)), nontrivial=True)
    if bad:
        # OBSERVATION, not a violation: listing and bulk deletion of groups are not among the operations the property
        # statement quantifies over (create / re-open / add / launch / rerun / refresh), so a group named with dots
        # only being listed under another name is recorded in the evidence and such names are kept out of the
        # directory scripts; a candidate repair is kept as fixes/C19-list-existing-dots.diff (not committed)
        chk.count("out_of_scope_observations", SIG_DOTS)
        chk.extra["out_of_scope_observation_" + SIG_DOTS] = NS_WITNESS_WHAT
    return not bad


ITER_WITNESS = {"dir": True, "ops": [
    {"op": "add", "job": dict(PLAIN), "kw": None},
    {"op": "add", "job": {"hd": 0, "name": 2, "sampler": "probs@sample_count", "shots": 100, "iters": ["state", "state-shots"]},
     "kw": None},
    {"op": "reopen"},
    {"op": "launch", "rerun": False, "replace": False, "seq": False, "outs": [{"accept": 0}, {"accept": 0}], "sts": []}]}


def observe_iterations(chk, root):
    """What add() does with a job built by a Sampler that has iterations (recorded, not judged here: the history is
    judged like any other as part of the corpus and of the exhaustive family)."""
    real = run_real(root, ITER_WITNESS)
    chk.branch("witness-iterations")
    res = real["steps"][1]["res"]
    chk.extra["sampler_iterations_job_add"] = {
        "result": res, "group_size_after": len(real["steps"][1]["mem"]),
        "requests_sent_by_the_launch": len(real["created"]),
        "note": ("OBSERVATION, not a C19 matter: JobGroup.add() refuses a job built by a Sampler with iterations whose "
                 "iterations hold an input state or a noise model (TypeError: the body holds objects json.dumps cannot "
                 "write) and takes the job back, so memory and file agree; such jobs cannot be part of a group"
                 if res == "raised:TypeError" else
                 "add() of a job whose body holds BasicState objects did not raise TypeError: what the file holds for it "
                 "is compared with the request in memory by wire form in every history")}


# ------------------------------------------------------------------------------------------------
def history_signature(hist, real):
    return tuple((op["op"], op.get("rerun"), op.get("seq"), op.get("replace"), s["res"], len(s["mem"]))
                 for op, s in zip(hist["ops"], real["steps"]))


def nontrivial(hist, real):
    """a launch that was refused or killed part-way, or a re-open between an add and a launch"""
    seen_add = False
    reopen_after_add = False
    for op, s in zip(hist["ops"], real["steps"]):
        if op["op"] == "add" and s["res"] == "ok":
            seen_add = True
        if op["op"] == "reopen" and seen_add:
            reopen_after_add = True
        if op["op"] == "launch":
            if s["res"] != "ok" or reopen_after_add:
                return True
    return False


def prev_disk_of(real, step):
    i = next(i for i, s in enumerate(real["steps"]) if s is step)
    return real["steps"][i - 1]["disk"] if i else real["init"]["disk"]


def account(chk, hist, real):
    chk.count("history_length", len(hist["ops"]))
    chk.count("initial_directory", "exists" if hist["dir"] else "missing")
    if not hist["dir"]:
        chk.branch("fresh-dir")
    name = hist.get("name", GROUP)
    kinds = [k for k, ok in (("hostile", any(c in HOSTILE for c in name)),
                             ("non-ascii", not name.isascii()),
                             ("other-special", any((not c.isalnum()) and c not in "_-" and c not in HOSTILE and c.isascii()
                                                   for c in name))) if ok] or ["plain"]
    for k in kinds:
        chk.count("group_name", k)
        chk.branch("name-" + k)
    if hist.get("twin") is not None:
        chk.branch("twin-group")
        chk.count("twin_group", hist.get("twin_pos", "before"))
        if hist["twin"] == name.translate(str.maketrans({c: "_" for c in HOSTILE})):
            chk.branch("twin-is-sanitised-name")
    sizes = [len(s["mem"]) for s in real["steps"]]
    chk.count("final_group_size", sizes[-1] if sizes else 0)
    # a failed (ERROR/CANCELED) job saved, the group re-opened, the re-opened object then mutated
    prev_disk, reopened_failed = real["init"]["disk"], False
    for op, s in zip(hist["ops"], real["steps"]):
        saved_failed = [e["status"] for e in (prev_disk or []) if e["id"] is not None and e["status"] in ("ERROR", "CANCELED")]
        if (op["op"] == "reopen" or s["res"] == "killed") and saved_failed:
            reopened_failed = True
            for st in set(saved_failed):
                chk.branch("reopen-with-saved-" + st.lower())
        elif reopened_failed and s["res"] == "ok":
            if op["op"] == "add":
                chk.branch("add-after-reopen-with-failed")
            elif op["op"] == "launch" and op["rerun"] and len(s["mem"]) and s["disk"] != prev_disk:
                chk.branch("rerun-after-reopen-with-failed")
            elif op["op"] == "launch" and not op["rerun"] and s["disk"] != prev_disk:
                chk.branch("run-after-reopen-with-failed")
        prev_disk = s["disk"]
    # shapes added after seeded changes C19-5 / C19-6 were missed
    prev_mem = real["init"]["mem"]
    for op, s in zip(hist["ops"], real["steps"]):
        f = s.get("faults") or {"raiser": None, "ignored": 0, "wait": False}
        if f["ignored"]:
            chk.branch("status-fault-swallowed")
            chk.count("status_fault", "swallowed")
        if f["raiser"] is not None:
            where = "wait" if f["wait"] else ("rerun-refresh" if op["op"] == "launch" else op["op"])
            chk.count("status_fault", f"raises-in-{where}")
            chk.branch("status-fault-raises-in-wait" if f["wait"] else "status-fault-raises-in-refresh")
            if f["raiser"] in SOFT_FAULTS:
                chk.branch("status-fault-fifth-in-a-row-raises")
            before = {m["id"]: m["st"] for m in prev_mem if m["id"] is not None}
            if any(m["id"] in before and before[m["id"]] != m["st"] for m in s["mem"]) or \
                    (f["wait"] and any(m["id"] is not None and m["id"] not in before and m["st"] != "WAITING" for m in s["mem"])):
                # an earlier request of the same operation changed a status, a later one raised
                chk.branch("status-change-then-fault-in-wait" if f["wait"] else "status-change-then-fault-in-refresh")
        if s["res"] not in ("dead", "crashed"):
            prev_mem = s["mem"]
    hd_meta = {v: json.loads(k) for k, v in real.get("hd_table", {}).items()}
    shared = False
    for op, s in zip(hist["ops"], real["steps"]):
        metas = [hd_meta.get(e["hd"]) for e in (s["disk"] or [])]
        sites = {}
        for m in metas:
            if m is not None:
                sites.setdefault((m["platform"], m["url"]), set()).add(json.dumps(m, sort_keys=True))
        if not shared and any(len(v) > 1 for v in sites.values()):
            shared = True
        if shared and (op["op"] == "reopen" or s["res"] == "killed"):
            chk.branch("reopen-with-same-platform-other-credentials")
            shared = "reopened"
        elif shared == "reopened" and op["op"] == "launch" and s["res"] == "ok" and s["disk"] != prev_disk_of(real, s):
            chk.branch("launch-after-reopen-with-same-platform-other-credentials")
    if hist.get("twin") is not None and any(
            m is not None and (m["platform"], m["url"]) == HANDLERS[TWIN_HD][:2]
            for s in real["steps"] for m in [hd_meta.get(e["hd"]) for e in (s["disk"] or [])]):
        chk.branch("twin-shares-platform-with-group")
    seen_add = False
    for op, s in zip(hist["ops"], real["steps"]):
        k = op["op"]
        if k == "launch":
            k = ("rerun" if op["rerun"] else "run") + ("-seq" if op["seq"] else "-par")
            if op["rerun"]:
                chk.branch("rerun-replace" if op["replace"] else "rerun-append")
            if op["seq"]:
                chk.branch("sequential")
            if seen_add == "reopened":
                chk.branch("reopen-before-launch")
            if s["res"] == "raised:AssertionError":
                chk.branch("assertion-relaunch")
        chk.count("op", k)
        chk.count("result", s["res"])
        if s["res"] == "killed":
            chk.branch("kill")
        if op["op"] == "add":
            if s["res"] == "ok":
                seen_add = True
            j = op["job"]
            if j.get("dup") and s["res"] == "raised:ValueError":
                chk.branch("dup-rejected")
            if s["res"] == "raised:TypeError":
                chk.branch("typeerror-add")
            if s["res"] == "raised:RuntimeError":
                chk.branch("unused-kw")
            if "sampler" in j:
                chk.branch("sampler-job")
            if j.get("ctx") is not None:
                chk.branch("ctx-job")
            if "map" in j:
                chk.branch("mapdelta-job")
        if op["op"] == "reopen" and seen_add:
            seen_add = "reopened"
        for m in s["mem"]:
            chk.count("status_in_memory", m["st"] if m["id"] is not None else "unsent:" + m["st"])
    for op, s in zip(hist["ops"], real["steps"]):
        if op["op"] == "launch" and op["rerun"] and any(m["id"] is None and m["st"] == "ERROR" for m in s["mem"]):
            chk.branch("unsent-error-in-rerun")
            break
    # bodies that hold values which are not JSON natives (shapes added after seeded change C19-7 was missed)
    exotic, refused_seen, prev_disk, prev_len = False, False, real["init"]["disk"], len(real["init"]["mem"])
    for t, (op, s) in enumerate(zip(hist["ops"], real["steps"])):
        k, res = op["op"], s["res"]
        if k == "add" and ("body" in op["job"] or op["job"].get("iters")):
            lj = (real["lean_ops"][t].get("job") or {}) if t < len(real["lean_ops"]) else {}
            chk.count("body_values", op["job"].get("body") or "iterations:" + "+".join(op["job"]["iters"]))
            if op["job"].get("iters"):
                chk.branch("sampler-iterations-job")
            if not lj.get("js", True):
                chk.count("nonjson_body_add_result", res)
                if lj.get("st") == "SUCCESS":
                    chk.branch("nonjson-body-success-job-add")
                else:
                    chk.branch("nonjson-body-add")
                    refused_seen = True
                    if prev_len > 0:
                        chk.branch("nonjson-body-add-to-non-empty-group")
                if op["job"].get("body") in BODY_UNSENDABLE:
                    chk.branch("unsendable-body-add")
            else:
                chk.branch("json-exotic-body-add")
                if res == "ok" and "ext" not in op["job"]:
                    exotic = True
        elif exotic is True and (k == "reopen" or res == "killed"):
            exotic = "reopened"
        elif k == "launch" and res == "ok" and not op["rerun"] and s["disk"] != prev_disk:
            if exotic == "reopened":
                chk.branch("launch-after-reopen-with-exotic-body")
            if refused_seen:
                chk.branch("launch-after-nonjson-body-add")
        if res not in ("dead", "crashed"):
            prev_disk, prev_len = s["disk"], len(s["mem"])
    # the operations and stopping points added by the extension
    mapped_pending, prev_disk = False, real["init"]["disk"]
    prev_created = real["init"].get("created")
    for op, s in zip(hist["ops"], real["steps"]):
        k, res, info = op["op"], s["res"], s.get("info") or {}
        last = info.get("last")
        if res == "raised:KeyboardInterrupt":
            where = "sleep" if last and last[0] == "sleep" else "results" if last and last[0] == "results" else "status"
            chk.branch("intr-in-" + where)
            chk.count("interrupt", f"{k}:{where}")
            if k == "launch" and op["seq"]:
                chk.branch("intr-in-wait")
        if k == "get_results":
            if res == "ok":
                chk.branch("get-results")
            if info.get("requery"):
                chk.branch("get-results-requery")
            for r in info.get("rsps_used", []):
                chk.count("results_answer", r)
                chk.branch("get-results-mapped" if r == "ok:mapped" else "get-results-plain" if r == "ok:plain" else
                           "get-results-unavailable" if r == "unavailable" else "get-results-fault")
            if "ok:mapped" in info.get("rsps_used", []) and any(m["res"] and m["st"] != "SUCCESS" for m in s["mem"]):
                mapped_pending = True
        elif mapped_pending and res == "ok" and k in ("add", "launch") and s["disk"] != prev_disk:
            chk.branch("save-after-mapped-results")
        if k == "track":
            chk.branch("track-ends" if res == "ok" else "track-hang" if (res == "killed" and last and last[0] == "sleep")
                       else "track-stopped")
        if k == "wipe" and res == "ok":
            chk.branch("wipe-" + op["how"])
            if prev_disk:
                chk.branch("wipe-non-empty-group")
        if k == "delete_date" and res == "ok" and prev_created is not None:
            chk.branch("delete-date-hit" if prev_created < op["cutoff"] else "delete-date-miss")
            if prev_created == op["cutoff"]:
                chk.branch("delete-date-boundary")
            if prev_created < op["cutoff"] and prev_disk:
                chk.branch("delete-date-hit-non-empty-group")
        if k == "other" and res == "ok":
            chk.branch("other-" + op["what"])
        if res not in ("dead", "crashed"):
            prev_disk, prev_created = s["disk"], s.get("created")


def handle_batch(chk, root, batch, variant, reals=None):
    if reals is None:
        reals = [run_real(root, h) for h in batch]
    reps = chk.lean.ask_many([lean_request(h, r, variant) for h, r in zip(batch, reals)])
    for hist, real, rep in zip(batch, reals, reps):
        account(chk, hist, real)
        chk.case(history_signature(hist, real), nontrivial=nontrivial(hist, real),
                 sample={"dir": hist["dir"], "ops": [(o["op"], s["res"]) for o, s in zip(hist["ops"], real["steps"])][:10]})
        for kind, sig, what in judge(chk, root, hist, variant, real, rep):
            seen = chk.extra.setdefault("failing_histories_per_signature", {})
            seen[sig] = seen.get(sig, 0) + 1
            if seen[sig] > 1:
                continue          # one shrunk replay per signature; further hits are only counted
            small = shrink(chk, root, hist, variant, sig)
            chk.fail(kind, sig, what, {"history": small})


# ------------------------------------------------------------------------------------------------
# the file primitives themselves: PersistentData.write_file / read_file / has_file / delete_file over many names
# ------------------------------------------------------------------------------------------------
def fs_element(pd, style, name):
    """how the element is named in the call: relative to the data directory, the way JobGroup does it (absolute
    path of <dir>/job_group/<name>.jgrp), or a top-level file"""
    if style == "rel":
        return os.path.join("job_group", name + ".jgrp")
    if style == "abs":
        return os.path.join(pd.directory, "job_group", name + ".jgrp")
    return name


def run_fs(root, script):
    """script = {"style":…, "binary":b, "names":[…], "ops":[{"op":write|delete|read|has|open, "n":i, "c":k}]}
    -> (observations, oracle findings).  The oracle is a dictionary keyed by the *name*: what was last written under
    a name is what must be found and read under that name, and under no other."""
    from perceval.utils import PersistentData, FileFormat
    d = tempfile.mkdtemp(prefix="fs-", dir=root)
    obs, bad = [], []
    try:
        with warnings.catch_warnings():
            warnings.simplefilter("ignore")
            pd = PersistentData(d)
            pd.create_sub_directory("job_group")
            fmt = FileFormat.BINARY if script["binary"] else FileFormat.TEXT
            enc = (lambda k: f"content-{k}".encode()) if script["binary"] else (lambda k: f'{{"content": {k}}}')
            names = script["names"]
            el = [fs_element(pd, script["style"], n) for n in names]
            ref = {}

            def read(i):
                try:
                    return pd.read_file(el[i], fmt)
                except FileNotFoundError:
                    return None

            for t, op in enumerate(script["ops"]):
                i, kind = op["n"], op["op"]
                try:
                    if kind == "write":
                        pd.write_file(el[i], enc(op["c"]), fmt)
                        ref[i] = op["c"]
                        obs.append("done")
                    elif kind == "delete":
                        pd.delete_file(el[i])
                        ref.pop(i, None)
                        obs.append("done")
                    elif kind == "read":
                        got = read(i)
                        obs.append({"content": None if got is None else
                                    next((k for k in range(64) if enc(k) == got), f"foreign:{got!r}")})
                    elif kind == "has":
                        obs.append({"found": bool(pd.has_file(el[i]))})
                    elif kind == "open":      # JobGroup.__init__: has_file ? read_file : write_file(<empty group>)
                        if pd.has_file(el[i]):
                            got = read(i)
                        else:
                            pd.write_file(el[i], enc(0), fmt)
                            ref[i] = 0
                            got = enc(0)
                        obs.append({"content": None if got is None else
                                    next((k for k in range(64) if enc(k) == got), f"foreign:{got!r}")})
                    else:
                        raise RuntimeError(f"unknown fs op {kind}")
                except Exception as e:   # noqa: BLE001
                    if through_code_under_test(e) is None and not isinstance(e, OSError):
                        raise
                    bad.append((t, f"file-primitive-raises:{type(e).__name__}",
                                f"{kind} of the file named {names[i]!r} ({script['style']}) raises {type(e).__name__}: {e}"))
                    obs.append("raised:" + type(e).__name__)
                    break
                # direct oracle: after every call the directory is the dictionary, name by name
                for j, nm in enumerate(names):
                    has = bool(pd.has_file(el[j]))
                    got = read(j)
                    want = enc(ref[j]) if j in ref else None
                    if has != (j in ref) or got != want:
                        bad.append((t, "files-not-keyed-by-name",
                                    f"after {kind}({names[i]!r}) [{script['style']}]: under the name {nm!r} has_file says "
                                    f"{has} and read_file gives {got!r}; last written under that name: {want!r} "
                                    f"(directory: {sorted(os.listdir(os.path.join(d, 'job_group')))} + "
                                    f"{sorted(x for x in os.listdir(d) if x != 'job_group')})"))
                        break
                if bad:
                    break
    finally:
        shutil.rmtree(d, ignore_errors=True)
    return obs, bad


def gen_fs_script(rng, chk):
    base = gen_name(rng)
    names = [base]
    for _ in range(rng.randint(1, 3)):
        n = gen_twin(rng, rng.choice(names)) if rng.random() < 0.7 else gen_name(rng)
        if n not in names:
            names.append(n)
    ops = []
    for _ in range(rng.randint(3, 12)):
        kind = rng.choice(["write", "write", "write", "delete", "read", "has", "open", "open"])
        op = {"op": kind, "n": rng.randrange(len(names))}
        if kind == "write":
            op["c"] = rng.randint(1, 9)
        ops.append(op)
    style = rng.choice(["rel", "abs", "abs", "top"])
    chk.count("fs_style", style)
    return {"style": style, "binary": rng.random() < 0.25, "names": names, "ops": ops}


def judge_fs(chk, root, script):
    """-> list of (kind, signature, what)"""
    obs, bad = run_fs(root, script)
    out = [("violation", sig, f"call {t}: {what}"[:900]) for (t, sig, what) in bad[:1]]
    rep = chk.lean.ask({"fs": script["ops"]})
    if not out:
        if "err" in rep:
            out.append(("broken", "model-vs-code", f"the model rejected the file script: {rep['err']}"))
        elif rep["obs"] != obs:
            out.append(("broken", "model-vs-code", f"file primitives: real {obs} model {rep['obs']}"[:900]))
    return out


def shrink_fs(chk, root, script, sig):
    cur = copy.deepcopy(script)
    changed = True
    while changed:
        changed = False
        for i in range(len(cur["ops"]) - 1, -1, -1):
            cand = copy.deepcopy(cur)
            del cand["ops"][i]
            if any(s == sig for (_, s, _) in judge_fs(chk, root, cand)):
                cur, changed = cand, True
                break
    return cur


def handle_fs(chk, root, script):
    chk.branch("fs-script")
    if len(script["names"]) > 1:
        chk.branch("fs-several-names")
    if any(c in HOSTILE for n in script["names"] for c in n):
        chk.branch("fs-name-hostile")
    chk.case(("fs", script["style"], script["binary"], tuple(o["op"] for o in script["ops"])), nontrivial=True)
    for kind, sig, what in judge_fs(chk, root, script):
        seen = chk.extra.setdefault("failing_histories_per_signature", {})
        seen[sig] = seen.get(sig, 0) + 1
        if seen[sig] > 1:
            continue
        chk.fail(kind, sig, what, {"fs": shrink_fs(chk, root, script, sig) if kind == "violation" else script})


# ------------------------------------------------------------------------------------------------
# torn writes: a crash, or an I/O error, inside one PersistentData.write_file call; and a crash between the server's
# answer to create_job and the write that follows it (model: PM.C19.TW, `crashAfterAnswer`)
# ------------------------------------------------------------------------------------------------
SIG_TORN = "torn-write-leaves-group-unopenable"
TW_KINDS = ["plain", "plain", "ctx", "cmd", "body-json", "sampler-probs", "presets"]
TW_CUTS = ["before", "opened", "full"]


class TornOpen:
    """Stands for the builtin `open` inside perceval.utils.persistent_data while one operation runs.  The `w`-th
    opening for writing is torn: `cut` = "before" (the process stops before the open: nothing is touched), "opened"
    (after the open, before any character), a fraction f (after that share of the characters — at least one, not
    all), "full" (after the last character, before the file is closed); `fault` = "kill" (the process dies: nothing
    runs afterwards) or "oserror" (the I/O layer raises OSError: the code goes on).  Every opening for writing is
    recorded as (group file before, text handed to write, characters that reached the file | "complete")."""

    def __init__(self, env, w, cut, fault, answers=None):
        self.env, self.w, self.cut, self.fault = env, w, cut, fault
        self.n, self.dead, self.events, self.pending = 0, False, [], None
        # `answers` = g: the torn opening is the first opening for writing reached once the server has issued g
        # identifiers in the running operation (the write that follows the g-th answer), whatever its number
        self.answers, self.fired = answers, False

    def is_torn(self):
        if self.answers is None:
            return self.n == self.w
        if not self.fired and len(self.env.server.accepted) >= self.answers:
            self.fired = True
            return True
        return False

    def group_text(self):
        try:
            with open(self.env.file, encoding="UTF-8") as f:
                return f.read()
        except FileNotFoundError:
            return None

    def boom(self):
        if self.fault == "kill":
            self.dead = True
            return Kill()
        return OSError(28, "No space left on device")

    def __call__(self, path, mode="r", *a, **k):
        if not any(ch in mode for ch in "wax"):
            return open(path, mode, *a, **k)
        if self.dead:
            raise Kill()
        self.n += 1
        old = self.group_text()
        torn = self.is_torn()
        if torn and self.cut == "before":
            self.events.append([old, self.pending, 0])
            raise self.boom()
        return _TornFile(self, old, open(path, mode, *a, **k), torn)


class _TornFile:
    """the file object of one opening for writing (the text may arrive in several `write` calls)"""

    def __init__(self, owner, old, real, torn):
        self.owner, self.old, self.real, self.torn = owner, old, real, torn
        self.got, self.recorded = "", False

    def __enter__(self):
        return self

    def __exit__(self, *exc):
        if not self.real.closed:
            self.real.close()
        if not self.recorded and exc[0] is None:
            self.recorded = True
            self.owner.events.append([self.old, self.got, "complete"])
        return False

    def __getattr__(self, name):
        return getattr(self.real, name)

    def close(self):
        self.__exit__(None, None, None)

    def write(self, data):
        o = self.owner
        if not self.torn:
            self.got += data
            return self.real.write(data)
        whole = o.pending if isinstance(o.pending, str) and o.pending.startswith(self.got + data) else self.got + data
        if o.cut == "opened":
            k = 0
        elif o.cut == "full":
            k = len(whole)
        else:
            k = max(1, min(len(whole) - 1, int(o.cut * len(whole))))
        if len(self.got) + len(data) < k or (o.cut == "full" and len(self.got) + len(data) < len(whole)):
            self.got += data
            return self.real.write(data)
        self.real.write(data[:k - len(self.got)])
        self.real.close()
        self.recorded = True
        o.events.append([self.old, whole, k + 1])
        raise o.boom()


def tw_group_view(env, text):
    """what a group file text says: creation stamp + canonical entries"""
    try:
        d = json.loads(text)
    except ValueError:        # the text before a write may itself be what an earlier write error left
        return None
    return [d["created_date"], [env.canon_entry(e) for e in d["job_group_data"]]]


def tw_reopen(env, old, new):
    """JobGroup(name) in a fresh object, on whatever file there is -> "fresh" | "raises:<class>" |
    {"loaded": {"old": b, "new": b}}"""
    existed = os.path.exists(env.file)
    try:
        with warnings.catch_warnings():
            warnings.simplefilter("ignore")
            g = env.JobGroup(env.group)
            if not existed:
                return "fresh" if len(g) == 0 else {"loaded": {"old": False, "new": False}}
            got = [g.created_date.strftime("%Y%m%d_%H%M%S"), env.canon_group_json(g)]
    except Exception as e:   # noqa: BLE001
        if through_code_under_test(e) is None:
            raise
        return "raises:" + type(e).__name__
    return {"loaded": {"old": old is not None and got == tw_group_view(env, old),
                       "new": new is not None and got == tw_group_view(env, new)}}


def tw_put(env, text):
    if text is None:
        if os.path.exists(env.file):
            os.remove(env.file)
    else:
        with open(env.file, "wt", encoding="UTF-8") as f:
            f.write(text)


def tw_agree(real, model):
    """the model speaks about texts, the observation about what the texts say: a model flag must be observed"""
    if isinstance(model, str):
        return real == model or (model == "raises" and isinstance(real, str) and real.startswith("raises:"))
    if not isinstance(real, dict):
        return False
    return all(real["loaded"][k_] for k_ in ("old", "new") if model["loaded"][k_])


def run_tw(root, sc, impl, variant, lean, n_sweep=0, sweep_seed=0):
    """scenario = {"hist": prefix history (ops of the main families), "torn": {"kind": create|add|launch|progress,
    "job", "kw", "sts", "w", "cut", "fault"}} -> dict(findings=[(kind, sig, what)], info=…)"""
    import perceval.utils.persistent_data as pdmod
    hist, torn = sc["hist"], sc["torn"]
    r = Runner(root, True, hist.get("name", GROUP))
    env, srv = r.env, r.env.server
    out = {"findings": [], "info": {}}
    bad = out["findings"]
    try:
        for op in hist["ops"]:
            r.step(copy.deepcopy(op))
        if r.oracle or r.dead:
            out["info"]["skipped"] = "prefix"       # judged by the main families
            return out
        jg = r.jg
        ids_before = [e["id"] for e in (env.read_file() or []) if e["id"] is not None]
        n_unsent = len([j for j in jg.remote_jobs if not j.was_sent])
        mode = torn.get("mode") or {"rerun": False, "replace": False, "seq": False}
        n_active = len([j for j in jg.remote_jobs if j.was_sent and not j._job_status.completed])
        failed_ids = [idnum(j.id) for j in jg.remote_jobs if j._job_status.failed and j.was_sent]
        n_failed = len([j for j in jg.remote_jobs if j._job_status.failed])
        launch_sts = []
        to = TornOpen(env, torn["w"], torn["cut"], torn["fault"], torn.get("g"))
        pd = env.JobGroup._PERSISTENT_DATA
        real_write = pd.write_file

        def write_file(filename, data, file_format):
            to.pending = data
            return real_write(filename, data, file_format)

        pd.write_file = write_file
        pdmod.open = to
        res, mem_after = "ok", None
        try:
            with warnings.catch_warnings():
                warnings.simplefilter("ignore")
                _CLOCK["tick"] += 1
                kind = torn["kind"]
                if kind == "create":
                    JobGroup_name = env.group + "-2"
                    env.group, env.file = JobGroup_name, env.file_of(JobGroup_name)
                    jg = env.JobGroup(JobGroup_name)
                elif kind == "add":
                    job = env.build_job(torn["job"])
                    srv.script([], [])
                    if torn.get("kw") is None:
                        jg.add(job)
                    else:
                        jg.add(job, max_samples=torn["kw"])
                elif kind == "launch":
                    # a rerun first refreshes the statuses (jobs still running stay so); the sequential mode waits
                    # for every job it sent: one final status per job
                    n_out = n_failed if mode["rerun"] else n_unsent
                    launch_sts = (["RUNNING"] * (2 * n_active + 1) if mode["rerun"] else []) + \
                        (["SUCCESS"] * n_out if mode["seq"] else [])
                    srv.script([{"accept": 0}] * n_out, launch_sts)
                    if mode["rerun"] and mode["seq"]:
                        jg.rerun_failed_sequential(0, replace_failed_jobs=mode["replace"])
                    elif mode["rerun"]:
                        jg.rerun_failed_parallel(replace_failed_jobs=mode["replace"])
                    elif mode["seq"]:
                        jg.run_sequential(0)
                    else:
                        jg.run_parallel()
                elif kind == "progress":
                    srv.script([], torn["sts"])
                    jg.progress()
                else:
                    raise RuntimeError(f"unknown torn operation {kind}")
                if jg is not None:
                    mem_after = [env.canon_entry(e) for e in jg._to_json()["job_group_data"]]
        except Kill:
            res = "killed"
        except Exception as e:   # noqa: BLE001
            if through_code_under_test(e) is None:
                raise
            res = exc_name(e)
        finally:
            del pdmod.open
            del pd.write_file
        out["info"].update({"res": res, "writes": to.n, "events": [[o is not None, n is not None and len(n), c] for o, n, c in to.events]})
        fired = [ev for ev in to.events if ev[2] != "complete"]
        if not fired:
            out["info"]["skipped"] = "write-not-reached"
            return out
        if (torn["fault"] == "kill") != (res == "killed"):
            bad.append(("broken", "model-vs-code-torn-write",
                        f"{torn} after {len(hist['ops'])} operations: the operation ended with {res}"))
            return out
        old, new, c = to.events[-1]
        complete = len(new) + (1 if impl == "inPlace" else 3) if new is not None else 0
        cnum = complete if c == "complete" else c
        real = tw_reopen(env, old, new)
        out["info"]["reopen"] = real if isinstance(real, str) else "loaded"
        out["info"]["last_event_torn"] = c != "complete"
        # direct oracle: a file left by a process that died is refused or is one of the two groups — never a third
        if (isinstance(real, dict) and not (real["loaded"]["old"] or real["loaded"]["new"])) \
                or (real == "fresh" and old is not None):
            bad.append(("violation", "torn-file-misread",
                        f"{torn} after {len(hist['ops'])} operations (the write stopped after {cnum} of its events, text of "
                        f"{len(new or '')} characters): the re-opened group ({real if isinstance(real, str) else 'loaded'}) is neither the group before the write "
                        f"nor the group written"))
            return out
        rep = lean.ask({"tw": {"old": old, "new": new if new is not None else "{}", "impl": impl, "cuts": [cnum]}})
        if "err" in rep:
            bad.append(("broken", "model-vs-code-torn-write", f"the model rejected the request: {rep['err']}"))
            return out
        if new is not None and not (rep["accepts_new"] and rep["ends_black"]):
            bad.append(("broken", "model-vs-code-torn-write",
                        f"the model's json.loads refuses the text the code wrote (or it ends in white space): {new[:300]!r}"))
            return out
        if not tw_agree(real, rep["out"][0]):
            bad.append(("broken", "model-vs-code-torn-write",
                        f"{torn} after {len(hist['ops'])} operations, {impl} write stopped after {cnum} events of "
                        f"{complete}: re-opening gives {real}, the model {rep['out'][0]}"))
            return out
        if torn["fault"] == "oserror" and c != "complete" and res == "ok" and mem_after is not None:
            out["info"]["write_error_swallowed"] = isinstance(real, str) or not real["loaded"]["new"]
        # the process died between the server's answer and the write: only the identifier in flight is lost
        if torn["kind"] == "launch" and torn["fault"] == "kill" and torn["cut"] == "before":
            acc = list(srv.accepted)
            on_disk = [e["id"] for e in (env.read_file() or []) if e["id"] is not None]
            g = torn.get("g", torn["w"])
            out["info"]["crash_after_answer"] = ("rerun-" + ("replace" if mode["replace"] else "append") if mode["rerun"]
                                                 else "run") + ("-sequential" if mode["seq"] else "-parallel")
            # identifiers of failed jobs already replaced by their rerun (and saved) are retired; the failed job whose
            # rerun is in flight is still in the file
            retired = failed_ids[:g - 1] if mode["rerun"] and mode["replace"] else []
            if len(acc) != g or any(k not in on_disk for k in acc[:-1]) or acc[-1] in on_disk \
                    or any(k not in on_disk for k in ids_before if k not in retired):
                bad.append(("violation", "accepted-id-lost",
                            f"{out['info']['crash_after_answer']} launch on {n_unsent} unsent / {n_failed} failed jobs, the "
                            f"process dying between the server's answer number "
                            f"{g} and the write that follows: the server issued {acc}, the file held {ids_before} "
                            f"before and holds {on_disk}: an identifier other than the one in flight is missing"))
                return out
            lop = {"op": "launch", "rerun": mode["rerun"], "replace": mode["replace"], "seq": mode["seq"],
                   "outs": [{"accept": 0}] * (g - 1), "sts": list(launch_sts)}
            rep = lean.ask({"variant": variant, "dir": True, "ops": r.lean_ops + [lop], "caa": 0})
            issued = ([k for k, _p in srv.all_created] + (acc if mode["rerun"] else []))[::-1]
            if "err" in rep or rep["caa"]["disk_ids"] != on_disk or rep["caa"]["issued"] != issued \
                    or not rep["caa"]["disk_same"]:
                bad.append(("broken", "model-vs-code-crash-after-answer",
                            f"file identifiers {on_disk}, issued {issued}; the model: {rep.get('caa', rep)}"))
                return out
        # every prefix of the text written, as the file a fresh process finds
        if n_sweep and new is not None:
            rs = __import__("random").Random(sweep_seed)
            n = len(new)
            # the model evaluates `reopen (fileAt …)` afresh for every stopping point (cost ~ cuts x length): budget
            n_sweep = max(12, min(n_sweep, (n_sweep * 130) // max(n, 1)))
            ks = set(range(n + 1)) if n <= n_sweep else \
                set(rs.sample(range(n + 1), n_sweep)) | {0, 1, 2, n - 2, n - 1, n} | \
                {i + 1 for i in rs.sample([i for i, ch in enumerate(new) if ch in '{}[]",:\\'], min(n_sweep // 3, len([ch for ch in new if ch in '{}[]",:\\'])))}
            ks = sorted(k_ for k_ in ks if 0 <= k_ <= n)
            rep = lean.ask({"tw": {"old": None, "new": new, "impl": "inPlace", "cuts": [k_ + 1 for k_ in ks]}})
            for k_, m in zip(ks, rep["out"]):
                tw_put(env, new[:k_])
                got = tw_reopen(env, None, new)
                if not tw_agree(got, m) or (isinstance(got, dict) and k_ < n):
                    bad.append(("violation" if isinstance(got, dict) and k_ < n else "broken",
                                "torn-file-misread" if isinstance(got, dict) and k_ < n else "model-vs-code-torn-write",
                                f"the first {k_} of {n} characters of a group file ({new[:k_][-60:]!r}): re-opening gives "
                                f"{got}, the model {m}"))
                    break
            out["info"]["sweep"] = len(ks)
    finally:
        r.finish()
    return out


def gen_tw(rng, chk, root, force=None):
    """a prefix built online (adds, parallel launches that are all accepted, status refreshes), then one torn operation;
    `force` = "rerun-replace" | "rerun-append" | "rerun-seq" | "seq": the torn operation is a rerun / a sequential
    launch stopped between the last answer of the server and the write that follows it"""
    runner = Runner(root, True, gen_name(rng))
    for _ in range(rng.randint(0, 5)):
        n, unsent, active, failed, ids = group_state(runner)
        what = "add" if n == 0 else rng.choice(["add", "add", "launch", "progress"])
        if what == "add":
            op = gen_job(rng, chk, rng.choice(TW_KINDS), GenState(ids, runner.env.server.skipped, []))
        elif what == "launch":
            op = {"op": "launch", "rerun": False, "replace": False, "seq": False, "outs": [{"accept": 0}] * unsent, "sts": []}
        else:
            op = {"op": "progress", "sts": [rand_status(rng) for _ in range(active)]}
        op["dt"] = rng.choice([0, 1])
        runner.step(op)
    n, unsent, active, failed, ids = group_state(runner)
    if force is not None or rng.random() < 0.3:
        # make sure there is something to launch or to rerun: sent jobs that failed, and unsent ones
        if (force or "").startswith("rerun") or (force is None and rng.random() < 0.6):
            if n == 0 or (not active and not failed and not unsent):
                runner.step(dict(gen_job(rng, chk, "plain", GenState(ids, runner.env.server.skipped, [])), dt=0))
                runner.step(dict(gen_job(rng, chk, rng.choice(TW_KINDS), GenState(ids, runner.env.server.skipped, [])), dt=0))
                n, unsent, active, failed, ids = group_state(runner)
            if not active and not failed and unsent:
                runner.step({"op": "launch", "rerun": False, "replace": False, "seq": False,
                             "outs": [{"accept": 0}] * unsent, "sts": [], "dt": 0})
                n, unsent, active, failed, ids = group_state(runner)
            if active and (not failed or rng.random() < 0.5):
                runner.step({"op": "progress", "dt": 1,
                             "sts": [rng.choice(["ERROR", "ERROR", "CANCELED", "RUNNING"]) for _ in range(active - 1)] + ["ERROR"]})
        else:
            for _ in range(2 if force or not unsent else rng.randint(1, 2)):
                n, unsent, active, failed, ids = group_state(runner)
                runner.step(dict(gen_job(rng, chk, rng.choice(TW_KINDS), GenState(ids, runner.env.server.skipped, [])), dt=0))
        n, unsent, active, failed, ids = group_state(runner)
    kinds = ["create", "add", "add"] + (["launch"] * 3 if unsent else []) + (["progress"] * 2 if active else []) + \
        (["relaunch"] * 4 if failed else [])
    kind = rng.choice(kinds)
    if (force or "").startswith("rerun") and failed:
        kind = "relaunch"
    elif force == "seq" and unsent:
        kind = "launch"
    torn = {"kind": kind, "w": 1, "fault": rng.choice(["kill", "kill", "oserror"]),
            "cut": rng.choice(TW_CUTS + [round(rng.uniform(0.02, 0.98), 3)] * 3)}
    if kind == "relaunch":
        # the process dies between the server's answer to the g-th rerun request and the write that follows
        torn.update({"kind": "launch", "cut": "before", "fault": "kill",
                     "g": failed if force is not None else rng.randint(1, failed),
                     "mode": {"rerun": True, "replace": force != "rerun-append" if force else rng.random() < 0.5,
                              "seq": force == "rerun-seq" if force else rng.random() < 0.4}})
        kind = "rerun"
    elif kind == "launch" and (force == "seq" or rng.random() < 0.35):
        torn.update({"cut": "before", "fault": "kill", "g": unsent if force is not None else rng.randint(1, unsent),
                     "mode": {"rerun": False, "replace": False, "seq": True}})
        kind = "seq"
    if kind == "add":
        op = gen_job(rng, chk, rng.choice(TW_KINDS), GenState(ids, runner.env.server.skipped, []))
        torn["job"], torn["kw"] = op["job"], op["kw"]
    elif kind == "launch":
        torn["w"] = rng.randint(1, unsent)
        if rng.random() < 0.5:
            torn["cut"], torn["fault"] = "before", "kill"
    elif kind == "progress":
        # every active job changes status: one write per job
        torn["sts"] = ["SUSPENDED"] * active
        torn["w"] = rng.randint(1, active)
    hist, _real = runner.finish()
    return {"hist": hist, "torn": torn}


TW_WITNESS = {"hist": {"dir": True, "ops": [{"op": "add", "job": dict(PLAIN), "kw": None}]},
              "torn": {"kind": "add", "job": dict(PLAIN, name=2), "kw": None, "w": 1, "cut": 0.5, "fault": "kill"}}
TW_WITNESS_WHAT = ("outside the property's stopping points (which lie between operations and at server calls), recorded as an "
                   "observation: PersistentData.write_file replaces the group file in place (open(path, 'wt') truncates, then "
                   "the JSON text is written), so a process that stops inside one _write_to_file — or an OSError there, which "
                   "write_file swallows with a warning so that the operation returns normally — leaves a file json.loads "
                   "refuses: JobGroup(name) raises JSONDecodeError from then on, every identifier the file held is out of "
                   "reach of the API, and neither the group before the write nor the group written is found (model: "
                   "TW.torn_write_outcomes, TW.in_place_write_not_atomic; a write through a temporary file renamed onto the "
                   "group file would leave one of the two at every stopping point: TW.write_via_temp_atomic)")


def detect_write_impl(chk, root, variant):
    """-> "inPlace" | "viaTemp": what the file looks like when a write stops half-way"""
    import perceval.utils.persistent_data as pdmod   # noqa: F401
    probe = run_tw(root, TW_WITNESS, "inPlace", variant, chk.lean)
    chk.branch("witness-tw")
    how = probe["info"].get("reopen")
    chk.case(("witness", "tw", how), nontrivial=True)
    if how == "loaded" and not probe["findings"] == []:
        # the previous group is found: the write does not touch the group file before it is complete
        again = run_tw(root, TW_WITNESS, "viaTemp", variant, chk.lean)
        if not again["findings"]:
            return "viaTemp"
    if isinstance(how, str) and how.startswith("raises:") and not probe["findings"]:
        chk.count("out_of_scope_observations", SIG_TORN)
        chk.extra["out_of_scope_observation_" + SIG_TORN] = TW_WITNESS_WHAT
        return "inPlace"
    for kind, sig, what in probe["findings"][:1]:
        chk.fail(kind, sig, "torn-write witness: " + what, {"tw": TW_WITNESS})
    return "inPlace"


def judge_tw(chk, root, sc, impl, variant, n_sweep=0):
    return run_tw(root, sc, impl, variant, chk.lean, n_sweep, chk.seed)


def shrink_tw(chk, root, sc, impl, variant, sig):
    cur = copy.deepcopy(sc)
    changed = True
    while changed:
        changed = False
        for i in range(len(cur["hist"]["ops"]) - 1, -1, -1):
            cand = copy.deepcopy(cur)
            del cand["hist"]["ops"][i]
            try:
                if any(s_ == sig for (_k, s_, _w) in judge_tw(chk, root, cand, impl, variant)["findings"]):
                    cur, changed = cand, True
                    break
            except Exception:   # noqa: BLE001 — a shortened prefix need not be a legal history
                continue
    return cur


def handle_tw(chk, root, sc, impl, variant, n_sweep):
    out = judge_tw(chk, root, sc, impl, variant, n_sweep)
    info, torn = out["info"], sc["torn"]
    chk.case(("tw", torn["kind"], torn["fault"], torn["cut"] if isinstance(torn["cut"], str) else "inner", torn["w"],
              len(sc["hist"]["ops"]), info.get("reopen")), nontrivial="skipped" not in info)
    if "skipped" in info:
        chk.count("tw_skipped", info["skipped"])
    else:
        chk.branch("tw-scenario")
        chk.branch("tw-" + torn["kind"])
        chk.branch("tw-" + torn["fault"])
        chk.branch("tw-cut-" + (torn["cut"] if isinstance(torn["cut"], str) else "inner"))
        chk.count("tw_reopen", str(info.get("reopen")))
        if info.get("crash_after_answer"):
            chk.branch("tw-crash-after-answer")
            chk.branch("tw-caa-" + info["crash_after_answer"])
            if info["crash_after_answer"].startswith("rerun") and info["crash_after_answer"].endswith("sequential"):
                chk.branch("tw-caa-rerun-sequential")
            chk.count("tw_crash_after_answer", info["crash_after_answer"])
            if torn.get("g", torn["w"]) > 1:
                chk.branch("tw-caa-later-answer")
        if info.get("sweep"):
            chk.branch("tw-sweep")
            chk.count("tw_sweep_prefixes", "total", info["sweep"])
        if info.get("write_error_swallowed"):
            chk.branch("tw-write-error-swallowed")
            chk.count("out_of_scope_observations", "write-error-swallowed")
        if torn["w"] > 1:
            chk.branch("tw-later-write")
        if not info.get("last_event_torn", True):
            chk.branch("tw-oserror-repaired-by-later-write")
    for kind, sig, what in out["findings"]:
        seen = chk.extra.setdefault("failing_histories_per_signature", {})
        seen[sig] = seen.get(sig, 0) + 1
        if seen[sig] > 1:
            continue
        chk.fail(kind, sig, what[:900], {"tw": shrink_tw(chk, root, sc, impl, variant, sig), "impl": impl})


# ------------------------------------------------------------------------------------------------
# two JobGroup objects of one name alive at the same time (model: PM.C19.Conc, `Model/C19Conc.lean`)
# ------------------------------------------------------------------------------------------------
CONC_KINDS = ["plain", "plain", "ctx", "cmd", "ext", "dup", "sampler-probs", "body-json", "presets"]
SIG_CONC = "model-vs-code-two-objects"


def conc_disc(acts):
    """the discipline of the model (`Conc.disc false`): an object that takes over starts by re-opening the group"""
    prev = 0
    for a in acts:
        if a["h"] != prev and a["op"]["op"] != "reopen":
            return False
        prev = a["h"]
    return True


class ConcRun:
    """Two real JobGroup objects of one name driven alternately through one Runner (same directory, same scripted
    server).  Object 0 is constructed first; object 1's constructor runs when it is first used.  After every
    action: result, view, the acting object's list, the file, the waiting object's list."""

    def __init__(self, root, name):
        self.r = Runner(root, True, name)
        self.objs = {0: self.r.jg, 1: None}
        self.acts, self.steps, self.findings = [], [], []
        self.accepted, self.replaced = [], False
        self.skipped = None

    def use(self, h):
        """make object h the one the Runner drives (constructing it if it does not exist yet)"""
        env = self.r.env
        if self.objs[h] is None:
            with warnings.catch_warnings():
                warnings.simplefilter("ignore")
                self.objs[h] = env.JobGroup(env.group)
        self.r.jg = self.objs[h]
        return self.r.jg

    def act(self, h, op):
        r, env = self.r, self.r.env
        if self.skipped or r.dead:
            return
        self.use(h)
        mark = len(r.oracle)
        r.step(copy.deepcopy(op))
        self.objs[h] = r.jg
        self.acts.append({"h": h, "op": op})
        snap = r.steps[-1]
        if snap["res"] in ("killed", "crashed", "dead"):
            self.skipped = "script-ran-out"      # both objects of a process die together: not a two-object history
            return
        other = self.objs[1 - h]
        snap = dict(snap, who=h, other=None if other is None else env.mem_view(other))
        self.steps.append(snap)
        self.accepted += list(env.server.accepted)
        if op["op"] == "launch" and op["rerun"] and op["replace"]:
            self.replaced = True
        if conc_disc(self.acts):
            # direct oracle (independent of Lean): under the discipline the property holds for the acting object —
            # every check the single-object families make after an operation, plus: no identifier issued to either
            # object is missing from the file (unless a rerun replaced its job)
            for (t, sig, what) in r.oracle[mark:]:
                self.findings.append(("violation", sig, f"two objects of one name, each re-opening the group when it "
                                      f"takes over; action {len(self.acts) - 1} (object {h}, {describe_op(op)}): {what}"))
            if snap["disk"] is not None and not self.replaced:
                on_disk = [e["id"] for e in snap["disk"]]
                lost = [k for k in self.accepted if k not in on_disk]
                if lost:
                    self.findings.append(("violation", "accepted-id-lost",
                                          f"two objects of one name, each re-opening the group when it takes over; after "
                                          f"action {len(self.acts) - 1} (object {h}, {describe_op(op)}) the identifiers {lost} "
                                          f"issued by the server are not in the file (file: {on_disk})"))

    def finish(self):
        sc = {"name": self.r.name, "acts": self.acts}
        lean_acts = [{"h": a["h"], "op": lop} for a, lop in zip(self.acts, self.r.lean_ops)]
        self.r.finish()
        return sc, {"steps": self.steps, "lean_acts": lean_acts, "findings": self.findings, "skipped": self.skipped}


def run_conc(root, sc):
    cr = ConcRun(root, sc.get("name", GROUP))
    for a in sc["acts"]:
        cr.act(a["h"], copy.deepcopy(a["op"]))
    return cr.finish()[1]


def judge_conc(chk, root, sc, variant, real=None):
    """-> (findings, real)"""
    real = real if real is not None else run_conc(root, sc)
    bad = list(real["findings"])
    if real["skipped"] or bad:
        return bad, real
    rep = chk.lean.ask({"conc": {"variant": variant, "dir": True, "acts": real["lean_acts"]}})
    if "err" in rep:
        return [("broken", SIG_CONC, f"the model rejected the history: {rep['err']}")], real
    if rep["disc"] != conc_disc(sc["acts"]):
        return [("broken", SIG_CONC, f"discipline flag differs: model {rep['disc']}")], real
    norm = (lambda x: x) if variant["ctx"] else strip_ctx
    proj = lambda l: None if l is None else [{k: j[k] for k in ("id", "st", "hd", "name", "res", "dp")} for j in l]   # noqa: E731
    for t, (r_, m) in enumerate(zip(real["steps"], rep["steps"])):
        a = sc["acts"][t]
        where = f"action {t} (object {a['h']}, {describe_op(a['op'])})"
        d = None
        if r_["res"] != m["res"]:
            d = f"result differs: real {r_['res']} model {m['res']}"
        elif r_["view"] != m["view"]:
            d = f"view differs: real {r_['view']} model {m['view']}"
        elif r_["who"] != m["who"]:
            d = f"acting object differs: model {m['who']}"
        elif r_["mem"] != proj(m["mem"]):
            d = f"the acting object's list differs: real {r_['mem']} model {proj(m['mem'])}"
        elif norm(r_["disk"]) != norm(m["disk"]):
            d = f"file differs: real {r_['disk']} model {m['disk']}"
        elif r_["other"] != proj(m["other"]):
            d = f"the waiting object's list differs: real {r_['other']} model {proj(m['other'])}"
        if d:
            return [("broken", SIG_CONC, f"two objects of one name, {where}: {d}")], real
    return [], real


def shrink_conc(chk, root, sc, variant, sig):
    cur = copy.deepcopy(sc)
    changed = True
    while changed:
        changed = False
        for i in range(len(cur["acts"]) - 1, -1, -1):
            cand = copy.deepcopy(cur)
            del cand["acts"][i]
            try:
                if any(s_ == sig for (_k, s_, _w) in judge_conc(chk, root, cand, variant)[0]):
                    cur, changed = cand, True
                    break
            except Exception:   # noqa: BLE001 — a shortened history need not be a legal one
                continue
    return cur


def gen_conc(rng, chk, root):
    """built online: 3-10 actions of two objects (adds of 9 kinds of job incl. jobs sent outside and identifiers the
    OTHER object holds, launches with refusals, reruns, status refreshes, re-openings); half of the histories obey
    the re-open discipline, half do not"""
    cr = ConcRun(root, gen_name(rng))
    disciplined = rng.random() < 0.5
    prev = 0
    for _ in range(rng.randint(3, 10)):
        if cr.skipped or cr.r.dead:
            break
        h = prev if rng.random() < 0.5 else 1 - prev
        fresh = cr.objs[h] is None
        cr.use(h)
        n, unsent, active, failed, ids = group_state(cr.r)
        if (h != prev and disciplined) or (fresh and rng.random() < 0.6):
            op = {"op": "reopen"}
        else:
            what = rng.choice(["add", "add", "add", "launch", "launch", "progress", "rerun", "reopen", "list"])
            if what == "launch" and not unsent:
                what = "add"
            if what == "rerun" and not (failed or active):
                what = "progress" if active else "add"
            if what == "add":
                oth = cr.objs[1 - h]
                oids = [] if oth is None else [idnum(j.id) for j in oth.remote_jobs if j.was_sent]
                op = gen_job(rng, chk, rng.choice(CONC_KINDS), GenState(sorted(set(ids + oids)), cr.r.env.server.skipped, []))
                if op["job"].get("dup") and op["job"]["ext"]["id"] not in ids:
                    # an identifier only the OTHER object's list holds: not a duplicate for the object that adds
                    del op["job"]["dup"]
            elif what == "launch":
                pos = rng.randint(0, unsent + 2)
                outs = ["refuse" if i == pos else {"accept": rng.choice([0, 0, 1])} for i in range(unsent)]
                op = {"op": "launch", "rerun": False, "replace": False, "seq": False, "outs": outs, "sts": []}
            elif what == "rerun":
                op = {"op": "launch", "rerun": True, "replace": rng.random() < 0.5, "seq": False,
                      "outs": [{"accept": 0}] * (failed + active), "sts": [rand_status(rng) for _ in range(2 * active + 1)]}
            elif what == "progress":
                op = {"op": "progress", "sts": [rand_status(rng) for _ in range(active + 1)]}
            elif what == "list":
                op = {"op": "list", "kind": "unsent", "sts": []}
            else:
                op = {"op": "reopen"}
        op["dt"] = rng.choice([0, 1])
        cr.act(h, op)
        prev = h
    return cr.finish()


def handle_conc(chk, root, sc, variant, real=None):
    bad, real = judge_conc(chk, root, sc, variant, real)
    acts = sc["acts"]
    disc = conc_disc(acts)
    chk.case(("conc", disc, tuple((a["h"], a["op"]["op"]) for a in acts)), nontrivial=not real["skipped"] and len(acts) > 1)
    if real["skipped"]:
        chk.count("conc_skipped", real["skipped"])
    else:
        chk.branch("conc-scenario")
        chk.count("conc_histories", "disciplined" if disc else "undisciplined")
        switches = sum(1 for a, b in zip(acts, acts[1:]) if a["h"] != b["h"])
        if disc and switches >= 2:
            chk.branch("conc-disciplined-handover")
        for t, (a, st) in enumerate(zip(acts, real["steps"])):
            if t == 0 or acts[t - 1]["h"] == a["h"] or a["op"]["op"] == "reopen":
                continue
            # a stale object acts: what the file is afterwards (observation; the model must agree, nothing is judged)
            img = lambda l: None if l is None else [(j["id"], j["st"] if j["id"] is not None else None) for j in l]   # noqa: E731
            dsk = None if st["disk"] is None else [(e["id"], e["status"]) for e in st["disk"]]
            is_ = "actor" if dsk == img(st["mem"]) else ("other" if dsk == img(st["other"]) else "neither")
            chk.count("conc_file_after_stale_action", is_)
            chk.branch("conc-stale-action")
            prev_disk = real["steps"][t - 1]["disk"]
            if st["disk"] != prev_disk and prev_disk is not None and st["disk"] is not None:
                chk.branch("conc-stale-write")
                lost = [e["id"] for e in prev_disk if e["id"] is not None and e["id"] not in [x["id"] for x in st["disk"]]]
                if lost:
                    chk.branch("conc-stale-write-loses-id")
                    chk.count("out_of_scope_observations", "stale-object-write-loses-accepted-id")
    for kind, sig, what in bad:
        seen = chk.extra.setdefault("failing_histories_per_signature", {})
        seen[sig] = seen.get(sig, 0) + 1
        if seen[sig] > 1:
            continue
        chk.fail(kind, sig, what[:900], {"conc": shrink_conc(chk, root, sc, variant, sig)})


CONC_WITNESS = {"acts": [
    {"h": 1, "op": {"op": "reopen"}},
    {"h": 0, "op": {"op": "add", "job": dict(PLAIN), "kw": None}},
    {"h": 0, "op": {"op": "launch", "rerun": False, "replace": False, "seq": False, "outs": [{"accept": 0}], "sts": []}},
    {"h": 1, "op": {"op": "add", "job": dict(PLAIN, name=2), "kw": None}}]}


def setup_perceval():
    warnings.simplefilter("ignore")
    try:
        from perceval.utils.logging import get_logger, level, channel
        for ch in (channel.user, channel.general, channel.resources):
            get_logger().set_level(level.off, ch)
    except Exception:   # noqa: BLE001
        pass


def load_corpus():
    """-> [("history", h) | ("fs", script)]"""
    out = []
    for p in sorted(glob.glob(os.path.join(core.VERIF, "corpus", "C19", "*.json"))):
        d = json.load(open(p))
        out.append(("fs", d["fs"]) if "fs" in d else ("ns", d["ns"]) if "ns" in d else ("tw", d["tw"]) if "tw" in d
                   else ("conc", d["conc"]) if "conc" in d else ("history", d["history"]))
    return out


def run(chk: core.Check):
    chk.rule = ("histories of JobGroup operations (create/re-open, add of 21 kinds of job incl. jobs with job_context, "
                "delta parameters, jobs sent outside the group, duplicates, Sampler-made jobs, Sampler jobs with iterations (input "
                "states, noise models, circuit parameters kept as objects in the body), bodies holding tuples / integer keys / "
                "numpy numbers / perceval objects / values without any JSON form; run/rerun parallel|sequential "
                "with replace|append; progress; list_*; get_results with scripted answers to every results request: results with "
                "or without a result_mapping / none / a failing request; track_progress; deletion of the group by name, "
                "with all groups, by date with the cut-off around its creation second, each followed by re-opening the name; "
                "list_existing and deletions / saves of groups with other, close names), each under its own group name (plain / characters refused by some "
                "platforms / punctuation / non-ASCII) and in part next to a bystander group with a close name, against a scripted server (accept with fresh id / refuse at every "
                "loop position / status answers / status requests that fail: unrecoverable HTTP status, recoverable fault, five "
                "recoverable faults in a row / Ctrl-C in a status request or in the sleep that follows it / script exhausted = process "
                "killed at that call), under a clock the harness sets (whole seconds), jobs of one group (and of the "
                "bystander group) sharing platform name and URL but not token or proxies; distinct = distinct "
                "sequences of (operation, mode, result, group size); non-trivial = a launch refused or killed part-way, or "
                "a re-open between an add and a launch; plus scripts of file-primitive calls (write/read/has/delete/open) "
                "over 2-4 close file names in three addressing styles, and scripts of JobGroup(name) / add / list_existing / "
                "delete_job_group / delete_all_job_groups / delete_job_groups_date calls over 2-5 close group names")
    chk.assumptions = [
        "data directory readable and writable (a private temporary directory; the user's real persistent-data "
        "directory is never touched: XDG_DATA_HOME is re-pointed before perceval is imported); one JobGroup object per "
        "group name at a time; each RemoteJob object added once; an added job whose status is SUCCESS has an identifier",
        "the server never issues the same identifier twice; a status query answers, fails (HTTP status 400/401/403/404/"
        "408/409/421/423/429/500/503 or a connection error) or the process dies; whether a failed status request is "
        "swallowed or re-raised is read off the real run and handed to the model, whose theorems cover both outcomes for "
        "every request (the rule that decides it — status code, five faults in a row — is C17's subject, not checked here)",
        "a killed process executes nothing after the server call it died in: what the code under test writes while the "
        "harness's stand-in exception for the kill unwinds (finally / except clauses) is undone before re-opening",
        "crash points of the main machine are server calls and operation boundaries; stopping points inside one "
        "PersistentData.write_file call (characters reach the file in order: any prefix of the text may be what is left) "
        "and between the server's answer to create_job and the write that follows are modelled separately (PM.C19.TW, "
        "crashAfterAnswer) and exercised by the torn-write scenarios; that the group cannot be re-opened after a write "
        "stopped half-way is recorded as an observation, not judged (the property's stopping points lie between operations)",
        "RemoteJob.STATUS_REFRESH_DELAY is set to -1 so that every status evaluation may observe a new server status "
        "(models more than 1 s between evaluations)",
        "command delta parameters limited to max_samples, mapping delta parameters to {max_samples, max_shots} (what Sampler builds)",
        "a process that deletes a group (by name, with all groups, by date) drops its JobGroup object of that group and opens "
        "the name again; `datetime.now()` inside job_group is a clock set by the harness, in whole seconds (created_date is "
        "stored with second resolution); the date given to delete_job_groups_date is a whole second >= the clock's origin",
        "results delivered by the server are well formed (decodable; a result_mapping names perceval.utils."
        "sample_count_to_probs and the results are a BSCount), absent (null / no 'results' key), or the request fails; "
        "a Ctrl-C arrives in a status request, a results request, or a time.sleep of job_group — not between the server's "
        "answer to create_job/rerun_job and the write that follows it (stated residue)",
        "track_progress: a sleep reached without any server call since the previous one, while something still counts as "
        "waiting/running, is an endless loop (only unsent jobs are left): the harness stops the process there (kill)",
        "group names are non-empty file names without a path separator, not '.'/'..', at most 30 characters (the directory "
        "scripts also use the names '', '.', '...' once list_existing handles them); the data "
        "directory lives on a case-sensitive, normalisation-preserving POSIX file system (names differing only in case or "
        "Unicode normalisation are not generated); file contents written through the primitives do not end in white space "
        "(read_file strips it; the group file is JSON)",
    ]
    chk.assumptions.append(
        "two request bodies are the same request iff their wire forms are equal: serialize(body) (what RemoteJob.execute_async "
        "hands to the RPC handler) encoded as JSON, keys sorted; a body whose wire form does not exist (json.dumps refuses "
        "serialize(body)) cannot be sent: the scripted handler raises TypeError before the server is asked, as the HTTP layer "
        "would; whether json.dumps can write a body (model field `js`) is decided by the harness on the job object before add")
    chk.required_branches = ["refuse@first", "refuse@middle", "refuse@last", "kill", "reopen-before-launch",
                             "rerun-replace", "rerun-append", "sequential", "dup-rejected", "ctx-job", "mapdelta-job",
                             "fresh-dir", "typeerror-add", "unused-kw", "sampler-job", "assertion-relaunch",
                             "unsent-error-in-rerun", "witness-ctx", "witness-dir", "witness-add", "witness-stat",
                             "exhaustive-small-groups",
                             # shapes added after seeded changes C19-2 / C19-3 were missed
                             "reopen-with-saved-error", "reopen-with-saved-canceled", "add-after-reopen-with-failed",
                             "rerun-after-reopen-with-failed", "run-after-reopen-with-failed",
                             "name-plain", "name-hostile", "name-non-ascii", "name-other-special", "twin-group",
                             "twin-is-sanitised-name", "fs-script", "fs-several-names", "fs-name-hostile",
                             # shapes added after seeded changes C19-5 / C19-6 were missed
                             "witness-poll", "status-fault-swallowed", "status-fault-raises-in-refresh",
                             "status-fault-raises-in-wait", "status-fault-fifth-in-a-row-raises",
                             "status-change-then-fault-in-refresh", "status-change-then-fault-in-wait",
                             "reopen-with-same-platform-other-credentials",
                             "launch-after-reopen-with-same-platform-other-credentials",
                             "twin-shares-platform-with-group", "exhaustive-status-faults",
                             # the extension: get_results, track_progress, Ctrl-C, listing and deletion
                             "witness-res", "witness-gst", "witness-dots", "get-results", "get-results-requery",
                             "get-results-mapped", "get-results-plain", "get-results-unavailable", "get-results-fault",
                             "save-after-mapped-results", "track-ends", "track-hang", "intr-in-sleep", "intr-in-status",
                             "intr-in-wait", "wipe-name", "wipe-all", "wipe-non-empty-group", "delete-date-hit",
                             "delete-date-miss", "delete-date-boundary", "delete-date-hit-non-empty-group", "other-list",
                             "other-delete", "other-touch", "ns-script", "ns-delete-all", "ns-delete-date", "ns-delete",
                             "ns-list", "exhaustive-extension",
                             # shapes added after seeded change C19-7 was missed: bodies that are not JSON natives
                             "nonjson-body-add", "nonjson-body-add-to-non-empty-group", "nonjson-body-success-job-add",
                             "unsendable-body-add", "json-exotic-body-add", "sampler-iterations-job",
                             "launch-after-reopen-with-exotic-body", "launch-after-nonjson-body-add",
                             "exhaustive-bodies", "witness-iterations",
                             # second extension: stopping points inside a file write, and between the server's answer and
                             # the write that follows it
                             "witness-tw", "tw-scenario", "tw-create", "tw-add", "tw-launch", "tw-progress", "tw-kill",
                             "tw-oserror", "tw-cut-before", "tw-cut-opened", "tw-cut-inner", "tw-cut-full",
                             "tw-crash-after-answer", "tw-sweep", "tw-later-write",
                             # third extension: the crash after the answer in reruns and in the sequential mode; two
                             # objects of one name
                             "tw-caa-run-parallel", "tw-caa-run-sequential", "tw-caa-rerun-replace-parallel",
                             "tw-caa-rerun-append-parallel", "tw-caa-rerun-sequential", "tw-caa-later-answer",
                             "witness-conc", "conc-scenario", "conc-disciplined-handover", "conc-stale-action",
                             "conc-stale-write", "conc-stale-write-loses-id"]
    setup_perceval()
    chk.lean = core.LeanDriver("C19")
    root = tempfile.mkdtemp(prefix="run-", dir=_ROOT)
    try:
        from perceval.utils import PersistentData
        default_dir = PersistentData().directory
        chk.extra["data_directory_isolation"] = {
            "perceval_default_data_dir_during_run": default_dir,
            "inside_private_root": os.path.realpath(default_dir).startswith(os.path.realpath(_ROOT) + os.sep),
            "perceval_imported_before_harness": _PERCEVAL_PRELOADED}
        if not chk.extra["data_directory_isolation"]["inside_private_root"]:
            raise RuntimeError(f"perceval's default persistent-data directory {default_dir} is outside the private root")
        variant = detect_variant(chk, root)
        dots_ok = detect_dots(chk, root)
        chk.extra["code_variant"] = {k: ("repaired" if v else "defect present") for k, v in variant.items()}
        chk.extra["code_variant"]["list_existing_dot_names"] = "repaired" if dots_ok else "defect present"
        observe_iterations(chk, root)
        impl = detect_write_impl(chk, root, variant)
        chk.extra["code_variant"]["group_file_write"] = ("through a temporary file renamed onto the group file"
                                                          if impl == "viaTemp" else "in place (open 'wt', then write)")
        for kind, item in load_corpus():
            if kind == "fs":
                handle_fs(chk, root, item)
            elif kind == "tw":
                handle_tw(chk, root, item, impl, variant, chk.pick(150, 400))
            elif kind == "conc":
                handle_conc(chk, root, item, variant)
            elif kind == "ns":
                if dots_ok or not any(n.strip(".") == "" for n in item["names"]):
                    handle_ns(chk, root, item)
            else:
                handle_batch(chk, root, [item], variant)
        # torn writes, I/O errors inside a write, a crash between the server's answer and the write that follows
        t0 = _time.process_time(), _time.time()
        for i_tw in range(chk.pick(70, 300)):
            force = ("rerun-replace", "seq", "rerun-append", "rerun-seq")[i_tw % 4] if i_tw < chk.pick(8, 16) else None
            handle_tw(chk, root, gen_tw(chk.rng, chk, root, force), impl, variant, chk.pick(150, 300))
        chk.extra["torn_write_family_seconds"] = {"cpu_python": round(_time.process_time() - t0[0], 1),
                                                  "wall": round(_time.time() - t0[1], 1)}
        # two objects of one name acting alternately
        t0 = _time.process_time(), _time.time()
        handle_conc(chk, root, copy.deepcopy(CONC_WITNESS), variant)
        chk.branch("witness-conc")
        for _ in range(chk.pick(150, 800)):
            sc_, real_ = gen_conc(chk.rng, chk, root)
            handle_conc(chk, root, sc_, variant, real_)
        chk.extra["two_objects_family_seconds"] = {"cpu_python": round(_time.process_time() - t0[0], 1),
                                                   "wall": round(_time.time() - t0[1], 1)}
        # listing and deleting the group files of a directory through JobGroup's own entry points
        for _ in range(chk.pick(200, 1200)):
            handle_ns(chk, root, gen_ns_script(chk.rng, chk, dots_ok))
        # the file primitives over several (close) names, against the name-keyed store of the model
        for _ in range(chk.pick(300, 1500)):
            handle_fs(chk, root, gen_fs_script(chk.rng, chk))
        # exhaustive family
        nmax = chk.pick(2, 3)
        batch = []
        n_exh = 0
        for hist in exhaustive_histories(nmax, chk):
            batch.append(hist)
            n_exh += 1
            if len(batch) == 200:
                handle_batch(chk, root, batch, variant)
                batch = []
        if batch:
            handle_batch(chk, root, batch, variant)
        chk.branch("exhaustive-small-groups", n_exh)
        n_flt = 0
        batch = []
        for hist in exhaustive_fault_histories(nmax):
            batch.append(hist)
            n_flt += 1
            if len(batch) == 200:
                handle_batch(chk, root, batch, variant)
                batch = []
        if batch:
            handle_batch(chk, root, batch, variant)
        chk.branch("exhaustive-status-faults", n_flt)
        n_ext = 0
        batch = []
        for hist in exhaustive_extension_histories(chk.pick(2, 2), chk.pick(False, True)):
            batch.append(hist)
            n_ext += 1
            if len(batch) == 200:
                handle_batch(chk, root, batch, variant)
                batch = []
        if batch:
            handle_batch(chk, root, batch, variant)
        chk.branch("exhaustive-extension", n_ext)
        n_body = 0
        batch = []
        for hist in exhaustive_body_histories(chk.pick(False, True)):
            batch.append(hist)
            n_body += 1
            if len(batch) == 200:
                handle_batch(chk, root, batch, variant)
                batch = []
        if batch:
            handle_batch(chk, root, batch, variant)
        chk.branch("exhaustive-bodies", n_body)
        chk.extra["exhaustive_body_histories"] = n_body
        chk.extra["exhaustive_body_rule"] = exhaustive_body_histories.__doc__
        chk.extra["exhaustive_extension_histories"] = n_ext
        chk.extra["exhaustive_extension_rule"] = exhaustive_extension_histories.__doc__
        chk.extra["exhaustive_status_fault_histories"] = n_flt
        chk.extra["exhaustive_status_fault_rule"] = exhaustive_fault_histories.__doc__
        chk.extra["exhaustive_histories"] = n_exh
        chk.extra["exhaustive_rule"] = (f"all groups of 1..{nmax} jobs x all accept/refuse vectors x parallel|sequential x "
                                        "3 status patterns x rerun replace|append x accept/refuse vectors of the rerun x "
                                        "one re-open at every operation boundary (or none)")
        chk.exhaustive = True
        # random histories
        n = chk.pick(1300, 4500)
        max_ops = chk.pick(12, 40)
        batch, reals = [], []
        for _ in range(n):
            h, r = gen_history(chk.rng, chk, max_ops, root)
            batch.append(h)
            reals.append(r)
            if len(batch) == 200:
                handle_batch(chk, root, batch, variant, reals)
                batch, reals = [], []
        if batch:
            handle_batch(chk, root, batch, variant, reals)
        chk.extra["server_calls_note"] = "every server call of every history is scripted; none reaches the network"
    finally:
        shutil.rmtree(root, ignore_errors=True)


def replay(chk, data):
    setup_perceval()
    chk.lean = core.LeanDriver("C19")
    chk.rule = "replay of one stored history"
    root = tempfile.mkdtemp(prefix="replay-", dir=_ROOT)
    try:
        if "fs" in data["replay"]:
            script = data["replay"]["fs"]
            chk.case(("fs", script["style"]), True)
            for kind, sig, what in judge_fs(chk, root, script):
                chk.fail(kind, sig, what, {"fs": script})
            return
        if "tw" in data["replay"]:
            sc = data["replay"]["tw"]
            variant = detect_variant(core.Check("C19", chk.tier, chk.seed), root)
            chk.case(("tw", sc["torn"]["kind"]), True)
            for impl in ([data["replay"]["impl"]] if "impl" in data["replay"] else ["inPlace"]):
                for kind, sig, what in judge_tw(chk, root, sc, impl, variant, 150)["findings"]:
                    chk.fail(kind, sig, what, {"tw": sc, "impl": impl})
            return
        if "conc" in data["replay"]:
            sc = data["replay"]["conc"]
            variant = detect_variant(core.Check("C19", chk.tier, chk.seed), root)
            chk.case(("conc", len(sc["acts"])), True)
            for kind, sig, what in judge_conc(chk, root, sc, variant)[0]:
                chk.fail(kind, sig, what, {"conc": sc})
            return
        if "ns" in data["replay"]:
            script = data["replay"]["ns"]
            chk.case(("ns", len(script["names"])), True)
            for kind, sig, what in judge_ns(chk, root, script):
                chk.fail(kind, sig, what, {"ns": script})
            return
        hist = data["replay"]["history"]
        real = run_real(root, hist)
        # the variant of the code under replay is detected the same way as in a full run
        variant = detect_variant(core.Check("C19", chk.tier, chk.seed), root)
        rep = chk.lean.ask(lean_request(hist, real, variant))
        chk.case(history_signature(hist, real), True)
        for (t, sig, what) in real["oracle"]:
            chk.fail("violation", sig, f"step {t}: {what}"[:900], {"history": hist})
        if not real["oracle"]:
            for kind, sig, what in judge(chk, root, hist, variant, real, rep):
                chk.fail(kind, sig, what, {"history": hist, "detected_variant": variant})
    finally:
        shutil.rmtree(root, ignore_errors=True)
