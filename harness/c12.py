"""C12 — a unitary decomposition, when returned, reproduces the requested matrix.

For every generated configuration the REAL `Circuit.decomposition(U, block, …)` is run (in a process pool; a
decomposition costs 0.3–6 s of sympy/scipy).  A returned circuit is

* checked directly on the implementation (numpy, independent of Lean): the ordered product of the leaves' own
  matrices equals `U` within `precision·c` when the phase layer is requested, and equals `U·diag` (`diag·U` with
  `inverse_h`) with unit-modulus diagonal otherwise; the circuit consists only of copies of the block, the
  phase layer and PERMs;
* sent leaf by leaf, as exact dyadic rationals, to the Lean model (`Model/C12.lean`), which (a) computes the exact
  product, (b) undoes `C.inverse(v,h)` exactly and replays the bookkeeping of `decompose_triangle` on the
  pre-processed matrix with the observed blocks as solver results: the predicted component list (block / PERM
  positions, order, PERM lists), the number of unused blocks, the flat structure predicted by the model of
  `Circuit.inverse`, the final diagonal (against the observed phase layer), the off-diagonal residue and the
  ghost error term are compared with what the code returned.

Constraints that leave the solver *no free parameter* (an entry imposing every parameter, alone / before fallbacks /
on a matrix that is a mesh of the block at exactly those values; blocks without free parameters) are generated on
purpose: `solve` then only *decides* whether the imposed values null the entry, and an accepted non-root gives a
plausible circuit with a wrong matrix.  `solve.py: solve` itself is also run on exactly representable functions and
compared with its Lean model (`Model/C12Solve.lean`, op `solve` of the driver).

The retry loop (`while count < max_try`) is observed attempt by attempt (`_AttemptLog`, `judge_attempts`): blocks with a
bounded non-periodic parameter make single attempts fail after they have solved cells, a later attempt succeeds; every
attempt must start from the requested matrix and leave the shared array (the caller's matrix) untouched (model `retry`).
Nearly structured matrices (`near`: entries ≫ precision next to a pivot of modulus 1 to second order), negligible
non-zero entries (`dust`) and a block / Matrix object that already served an earlier request are generated on purpose.

`None` is counted; it is a violation only for the blocks the elimination scheme is documented with
(`catalog["mzi phase last"]`, `BS(θ)//PS(φ)`), with unrestricted constraints.
"""
from __future__ import annotations

import copy
import glob
import json
import math
import multiprocessing as mp
import os
import time

# one BLAS/OpenMP thread per process: the matrices are at most 7x7 and the pool already uses every core
for _v in ("OMP_NUM_THREADS", "OPENBLAS_NUM_THREADS", "MKL_NUM_THREADS", "NUMEXPR_NUM_THREADS"):
    os.environ.setdefault(_v, "1")

import numpy as np  # noqa: E402
from fractions import Fraction  # noqa: E402

from . import core

UNIVERSAL = ("mzi_last", "bs_ps")
BLOCK_NAMES = ["mzi_last", "bs_ps", "bs", "bsphase_ps", "bsH_ps", "bsRy_ps", "bsphase2_ps", "mzi_first", "bsH_phibl",
               "bsH_fixed", "bs_fixed", "bsnp_ps", "bs_psnp", "mzi_np", "bsHnp_ps"]
NO_FREE_PARAM = ("bsH_fixed", "bs_fixed")          # blocks without any free parameter: `solve` gets x0 == []
# blocks with a bounded NON-periodic parameter: `bounds` reach L-BFGS-B, which regularly ends on a bound, so a
# decomposition attempt is abandoned somewhere in the middle and the retry loop of Circuit.decomposition starts again
BOUNDED = ("bsnp_ps", "bs_psnp", "mzi_np", "bsHnp_ps")
# … of which those whose horizontal inverse stays inside the declared range (BS.H keeps theta, a periodic phi may be
# negated): the only ones combined with inverse_h
BOUNDED_H_OK = ("bsHnp_ps",)


# ------------------------------------------------------------------------------------------------
# building things from a spec (used in the workers and for replay)
# ------------------------------------------------------------------------------------------------
def make_block(name):
    import perceval as pcvl
    from perceval.components import BS, PS
    P = pcvl.P
    if name == "mzi_last":
        return pcvl.catalog["mzi phase last"].build_circuit()
    if name == "mzi_first":
        return pcvl.catalog["mzi phase first"].build_circuit()
    if name == "bs_ps":
        return BS(theta=P("theta")) // PS(phi=P("phi"))
    if name == "bs":
        return BS(theta=P("theta"))
    if name == "bsphase_ps":          # a block carrying a BS phase (the C11 trigger under inverse_h / inverse_v)
        return BS(theta=P("theta"), phi_tr=0.37) // PS(phi=P("phi"))
    if name == "bsphase2_ps":
        return BS.H(theta=P("theta"), phi_tl=0.9, phi_br=-0.4) // (1, PS(phi=P("phi")))
    if name == "bsH_ps":
        return BS.H(theta=P("theta")) // PS(phi=P("phi"))
    if name == "bsRy_ps":
        return BS.Ry(theta=P("theta")) // (1, PS(phi=P("phi")))
    if name == "bsH_phibl":
        return BS.H(theta=P("theta"), phi_bl=P("phi"))
    if name == "bsH_fixed":           # no free parameter at all: the solver only has to *decide* f([]) <= precision
        return BS.H()
    if name == "bs_fixed":
        return BS(theta=0.9, phi_tr=0.2)
    if name == "bsnp_ps":             # beam splitter angle limited to [0, pi] (not periodic), free phase
        th = P("theta", min_v=0, max_v=math.pi)
        b = BS(theta=th) // (1, PS(phi=P("phi")))
        th.set_periodic(False)        # (the BS constructor forces the flag to True: set it afterwards)
        return b
    if name == "bsHnp_ps":            # Hadamard-convention BS with a bounded angle: its horizontal inverse keeps theta
        th = P("theta", min_v=0, max_v=math.pi)
        b = BS.H(theta=th) // (1, PS(phi=P("phi")))
        th.set_periodic(False)
        return b
    if name == "bs_psnp":             # phase limited to [0, 2pi] without wrap-around
        ph = P("phi")
        b = BS(theta=P("theta")) // (1, PS(phi=ph))
        ph.set_periodic(False)
        return b
    if name == "mzi_np":              # the universal MZI with both phases bounded and not periodic
        b = pcvl.catalog["mzi phase last"].build_circuit()
        for p in b.get_parameters():
            p.set_periodic(False)
        return b
    raise ValueError(name)


_BLOCK_U = {}


def block_unitary(name, vals):
    """2x2 matrix of the block `name` with its free parameters (in `get_parameters()` order) set to `vals`,
    computed by the block's own compute_unitary (the same source the leaves' matrices are taken from)."""
    key = (name, tuple(float(v) for v in vals))
    if key not in _BLOCK_U:
        b = make_block(name)
        ps = b.get_parameters()
        if len(ps) != len(vals):
            raise ValueError(f"block {name} has {len(ps)} free parameters, {len(vals)} values given")
        for p, v in zip(ps, vals):
            p.set_value(float(v))
        _BLOCK_U[key] = np.array(b.compute_unitary(use_symbolic=False), dtype=complex)
    return _BLOCK_U[key]


def free_param_names(name):
    return [p.name for p in make_block(name).get_parameters()]


def mesh_matrix(n, seed, block, cells):
    """U = B_1 · B_2 · … · B_k · D: the blocks in the order `decompose_triangle` eliminates its cells
    (`for j in range(n-1, 0, -1): for i in range(j)`, block on rows (i, i+1)), `cells[c]` = parameter values of the
    block in cell c or None for an empty cell, D a random diagonal of phases.  With `constraints=[vals]` the imposed
    values null every targeted entry exactly (to rounding), an empty cell leaves an exact zero."""
    rs = np.random.RandomState(seed % (2 ** 31))
    u = np.eye(n, dtype=complex)
    c = 0
    for j in range(n - 1, 0, -1):
        for i in range(j):
            vals = cells[c] if c < len(cells) else None
            c += 1
            if vals is None:
                continue
            e = np.eye(n, dtype=complex)
            e[i:i + 2, i:i + 2] = block_unitary(block, vals)
            u = u @ e
    return u @ np.diag([unit_phase(rs) for _ in range(n)])


def haar(rs, n):
    z = (rs.standard_normal((n, n)) + 1j * rs.standard_normal((n, n))) / math.sqrt(2)
    q, r = np.linalg.qr(z)
    d = np.diag(r)
    return q * (d / np.abs(d))


def unit_phase(rs):
    k = rs.randint(0, 6)
    return [1, -1, 1j, -1j][k] if k < 4 else np.exp(1j * rs.uniform(0, 2 * math.pi))


def make_matrix(kind, n, seed):
    """Deterministic numpy matrix for (kind, n, seed); exact zeros / ones where the kind says so."""
    rs = np.random.RandomState(seed % (2 ** 31))
    if kind == "haar":
        return haar(rs, n)
    if kind == "identity":
        return np.eye(n, dtype=complex)
    if kind == "perm":
        p = rs.permutation(n)
        u = np.zeros((n, n), dtype=complex)
        for i in range(n):
            u[p[i], i] = 1
        return u
    if kind == "permphase":
        u = make_matrix("perm", n, seed + 1)
        return u @ np.diag([unit_phase(rs) for _ in range(n)])
    if kind == "diag":
        return np.diag([unit_phase(rs) for _ in range(n)]).astype(complex)
    if kind == "blockdiag":
        u = np.zeros((n, n), dtype=complex)
        i = 0
        while i < n:
            k = min(n - i, int(rs.randint(1, 4)))
            u[i:i + k, i:i + k] = haar(rs, k) if k > 1 else unit_phase(rs)
            i += k
        return u
    if kind == "sparse":     # product of a few embedded 2x2 blocks: many exact zeros, some already-eliminated cells
        u = np.diag([unit_phase(rs) for _ in range(n)]).astype(complex)
        for _ in range(int(rs.randint(1, n + 1))):
            o = int(rs.randint(0, n - 1))
            e = np.eye(n, dtype=complex)
            e[o:o + 2, o:o + 2] = haar(rs, 2)
            u = e @ u
        return u
    if kind == "rowperm":    # rows of a block-diagonal matrix shuffled: zeros *below* non-zero entries of a column,
        u = make_matrix("blockdiag", n, seed + 7)        # the input of the wide PERM substitution ([d,1,…,d-1,0])
        return u[rs.permutation(n), :]
    if kind == "tiny":       # rotations by tiny angles: entries on both sides of the `precision` threshold
        u = np.diag([unit_phase(rs) for _ in range(n)]).astype(complex)
        for _ in range(int(rs.randint(1, n + 2))):
            o = int(rs.randint(0, n - 1))
            t = 10 ** rs.uniform(-8, -2)
            ph = np.exp(1j * rs.uniform(0, 2 * math.pi))
            e = np.eye(n, dtype=complex)
            e[o:o + 2, o:o + 2] = [[math.cos(t), -math.sin(t) * np.conj(ph)], [math.sin(t) * ph, math.cos(t)]]
            u = e @ u
        return u
    if kind == "near":       # an exactly structured matrix times ONE or two rotations by an angle between the tolerance
        # of the check and sqrt(precision): a pivot within `precision` of modulus 1 next to entries 1000 x precision,
        # "almost" diagonal / block-diagonal / permutation / triangular inputs (first-order vs second-order smallness)
        base = ["identity", "diag", "perm", "permphase", "blockdiag", "sparse", "lowerband", "rowperm"][rs.randint(0, 8)]
        u = make_matrix(base, n, seed + 3)
        for _ in range(int(rs.randint(1, 3))):
            a, b = sorted(rs.choice(n, 2, replace=False))
            t = 10 ** rs.uniform(-4.5, -2.7)
            ph = np.exp(1j * rs.uniform(0, 2 * math.pi)) if rs.rand() < 0.7 else 1.0
            e = np.eye(n, dtype=complex)
            e[a, a] = e[b, b] = math.cos(t)
            e[a, b] = -math.sin(t) * np.conj(ph)
            e[b, a] = math.sin(t) * ph
            u = (e @ u) if rs.rand() < 0.5 else (u @ e)
        return u
    if kind == "dust":       # an exactly structured matrix with NEGLIGIBLE but non-zero entries (rotations far below the
        # precision): the identity skips overwrite non-zero values, also in the array shared by the retry attempts
        base = ["identity", "diag", "blockdiag", "sparse", "lowerband", "permphase"][rs.randint(0, 6)]
        u = make_matrix(base, n, seed + 5)
        for _ in range(int(rs.randint(1, 4))):
            a, b = sorted(rs.choice(n, 2, replace=False))
            t = 10 ** rs.uniform(-9, -6.4)
            ph = np.exp(1j * rs.uniform(0, 2 * math.pi))
            e = np.eye(n, dtype=complex)
            e[a, a] = e[b, b] = math.cos(t)
            e[a, b] = -math.sin(t) * np.conj(ph)
            e[b, a] = math.sin(t) * ph
            u = (e @ u) if rs.rand() < 0.5 else (u @ e)
        return u
    if kind == "dust7":      # entries between 2e-7 and 8e-7: negligible for the default precision 1e-6, NOT negligible
        # for a requested precision of 1e-7 (the request's own precision must be the one the thresholds use)
        base = ["identity", "diag", "blockdiag", "sparse", "permphase"][rs.randint(0, 5)]
        u = make_matrix(base, n, seed + 9)
        for _ in range(int(rs.randint(1, 3))):
            a, b = sorted(rs.choice(n, 2, replace=False))
            t = 10 ** rs.uniform(-6.7, -6.1)
            ph = np.exp(1j * rs.uniform(0, 2 * math.pi))
            e = np.eye(n, dtype=complex)
            e[a, a] = e[b, b] = math.cos(t)
            e[a, b] = -math.sin(t) * np.conj(ph)
            e[b, a] = math.sin(t) * ph
            u = (e @ u) if rs.rand() < 0.5 else (u @ e)
        return u
    if kind == "lowerband":  # lower-Hessenberg-like: products of blocks in elimination order, zeros in the upper part
        u = np.eye(n, dtype=complex)
        for o in range(n - 2, -1, -1):
            if rs.rand() < 0.7:
                e = np.eye(n, dtype=complex)
                e[o:o + 2, o:o + 2] = haar(rs, 2)
                u = u @ e
        return u
    raise ValueError(kind)


def spec_matrix(spec):
    if "U" in spec:
        return np.array([[complex(a, b) for a, b in row] for row in spec["U"]], dtype=complex)
    if spec["kind"] == "mesh":
        return mesh_matrix(spec["n"], spec["seed"], spec["block"], spec["mesh"])
    return make_matrix(spec["kind"], spec["n"], spec["seed"])


def ncells(n):
    return n * (n - 1) // 2


# ------------------------------------------------------------------------------------------------
# worker: run the real code
# ------------------------------------------------------------------------------------------------
def _leaf_dict(r, c, with_u=True):
    from perceval.components import PERM
    d = {"off": int(r[0]), "w": len(r), "kind": type(c).__name__, "U": None}
    if with_u:
        u = np.array(c.compute_unitary(), dtype=complex)
        d["U"] = [[(float(z.real), float(z.imag)) for z in row] for row in u]
    if isinstance(c, PERM):
        d["perm"] = [int(x) for x in c.perm_vector]
    try:
        d["params"] = {p.name: (float(p) if p.defined else None) for p in c.get_parameters(all_params=True)}
    except Exception:
        d["params"] = {}
    return d


def _rows(a):
    return [[(float(z.real), float(z.imag)) for z in row] for row in np.array(a, dtype=complex)]


class _AttemptLog:
    """Observation-only hooks on `decomposition.decompose_triangle` / `decomposition.solve` (the names
    Circuit.decomposition and decompose_triangle look up at call time): one record per attempt of the retry loop —
    the matrix the attempt was handed, the same array object after the attempt, how many cells were solved, whether
    it succeeded.  The wrapped functions are called unchanged; if the names are not there the log stays `None` and the
    branches that need it are never hit (reported as a blind generator, not as a finding)."""

    def __init__(self):
        self.log = None
        self._undo = []

    def __enter__(self):
        try:
            import perceval.components.linear_circuit as LC
            D = LC.decomposition
            orig_t, orig_s = D.decompose_triangle, D.solve
        except Exception:
            return self
        self.log = []
        log = self.log

        def hook_t(u, *a, **k):
            rec = {"in": _rows(u), "solved": 0, "calls": 0, "ok": False}
            log.append(rec)
            try:
                r = orig_t(u, *a, **k)
                rec["ok"] = r is not None
                return r
            finally:
                try:
                    rec["after"] = _rows(u)
                except Exception:
                    rec["after"] = None

        def hook_s(*a, **k):
            r = orig_s(*a, **k)
            if log:
                log[-1]["calls"] += 1
                if r is not None:
                    log[-1]["solved"] += 1
            return r

        D.decompose_triangle, D.solve = hook_t, hook_s
        self._undo = [(D, "decompose_triangle", orig_t), (D, "solve", orig_s)]
        return self

    def __exit__(self, *exc):
        for mod, name, val in self._undo:
            setattr(mod, name, val)
        return False


# ------------------------------------------------------------------------------------------------
# the existence clause for a whole run (`Model/C12Exact.lean`, `universal_block_run_succeeds`): the real
# `decompose_triangle` with the closed form of the existence theorems plugged in where it calls `solve`
# ------------------------------------------------------------------------------------------------
def exact_solve_for(block_name):
    """A replacement for `decomposition.solve` (the name decompose_triangle looks up at call time) that answers with the
    closed-form parameters.  It is handed what the real solve is handed: g(p) = |cU_inv[0,0](p)·a + cU_inv[0,1](p)·b|.
    The closed form needs |a|, |b| and a·conj(b) only; they are read off four values of g at parameter points where
    the first row of cU_inv is (1,0), (0,·), and two mixing points (no access to the locals of decompose_triangle).
    Like solve it refuses (None) a point whose g exceeds the precision unless allow_error."""
    hp = math.pi / 2

    def exact_solve(f, x0, constraint, bounds, precision, allow_error=False):
        g = lambda *p: float(np.ravel(f(list(p)))[0])
        if block_name == "bs_ps":          # row = (cos(t/2)·e^{-i phi}, -i·sin(t/2))
            ra, rb = g(0.0, 0.0), g(math.pi, 0.0)
            A, B = ra * ra, rb * rb
            im_w = (A + B - 2 * g(hp, 0.0) ** 2) / 2
            re_w = (2 * g(hp, hp) ** 2 - A - B) / 2
            first = math.pi if rb == 0 else 2 * math.atan(ra / rb)
            second = cmath.phase(complex(re_w, im_w)) - hp
        elif block_name == "mzi_last":     # row = (h(1 - e^{-i pa}), -i·h(1 + e^{-i pa})·e^{-i pb})
            ra, rb = g(math.pi, 0.0), g(0.0, 0.0)
            A, B = ra * ra, rb * rb
            re_w = (A + B - 2 * g(hp, 0.0) ** 2) / 2
            im_w = (2 * g(hp, hp) ** 2 - A - B) / 2
            first = math.pi if ra == 0 else 2 * math.atan(rb / ra)
            second = -cmath.phase(complex(re_w, im_w))
        else:
            raise ValueError(block_name)
        x = [first, second]
        if g(*x) > precision and not allow_error:
            return None
        return x

    return exact_solve


class _ExactSolver:
    """installs `exact_solve_for(block)` as `decomposition.solve` for the duration of one request"""

    def __init__(self, block_name):
        self.block_name = block_name
        self._undo = None

    def __enter__(self):
        import perceval.components.linear_circuit as LC
        D = LC.decomposition
        self._undo = (D, D.solve)
        D.solve = exact_solve_for(self.block_name)
        return self

    def __exit__(self, *exc):
        D, orig = self._undo
        D.solve = orig
        return False


def observe(spec):
    """Run `Circuit.decomposition` on the spec. Everything returned is plain data."""
    import warnings
    warnings.filterwarnings("ignore")
    import perceval as pcvl
    from perceval.components import PS, PERM, Circuit
    t0 = time.time()
    out = {"spec": spec}
    stage = "setup"
    try:
        block = make_block(spec["block"])
        if isinstance(block, Circuit):
            out["pattern"] = [_leaf_dict(r, c, False) for r, c in block]
        else:
            out["pattern"] = [_leaf_dict(tuple(range(block.m)), block, False)]
        out["free"] = [p.name for p in block.get_parameters()]
        u0 = spec_matrix(spec)
        if spec.get("malformed") == "nonunitary":
            u0 = u0.copy()
            u0[0, 0] += 0.25
        kw = {}
        if spec.get("phase"):
            kw["phase_shifter_fn"] = PS
        if spec.get("perm"):
            kw["permutation"] = PERM
        if spec.get("v"):
            kw["inverse_v"] = True
        if spec.get("h"):
            kw["inverse_h"] = True
        if spec.get("constraints") is not None:
            kw["constraints"] = [tuple(c) for c in spec["constraints"]]
        if spec.get("malformed") == "constraints":
            kw["constraints"] = [(None, None, None, None, None)]
        if spec.get("malformed") == "shape":
            kw["shape"] = "hexagon"
        if spec.get("malformed") == "rectangle":
            kw["shape"] = "rectangle"
        if "merge" in spec:
            kw["merge"] = spec["merge"]
        if "precision" in spec:
            kw["precision"] = spec["precision"]
        if "ignore" in spec:
            kw["ignore_identity_block"] = spec["ignore"]
        if "max_try" in spec:
            kw["max_try"] = spec["max_try"]
        pcvl.random_seed(spec["seed"])
        arg = pcvl.Matrix(u0.copy())
        stage = "call"
        if spec.get("warmup"):
            # a long-lived block object (and caller's matrix object) used for an earlier request: another matrix,
            # or the very same Matrix object, decomposed first with the same `block`
            first = arg if spec["warmup"] == "same" else pcvl.Matrix(make_matrix("haar", spec["n"], spec["seed"] + 13))
            w = Circuit.decomposition(first, block, **kw)
            out["warmup_result"] = "none" if w is None else "circuit"
            out["warmup_changed_arg"] = bool(np.max(np.abs(np.array(arg, dtype=complex) - u0)) > 0)
            out["warmup_arg_unitary"] = bool(arg.is_unitary())
        if spec.get("exact"):
            # the run-level existence theorem on the real bookkeeping: the closed form instead of scipy
            with _ExactSolver(spec["block"]), _AttemptLog() as al:
                c = Circuit.decomposition(arg, block, **kw)
        else:
            with _AttemptLog() as al:
                c = Circuit.decomposition(arg, block, **kw)
        out["attempts"] = al.log
        out["arg_unitary_after"] = bool(arg.is_unitary())
        out["input_changed"] = bool(np.max(np.abs(np.array(arg, dtype=complex) - u0)) > 0)
        out["input_diff"] = [[i, j] for i in range(u0.shape[0]) for j in range(u0.shape[1])
                             if complex(np.array(arg, dtype=complex)[i, j]) != complex(u0[i, j])]
        if isinstance(block, Circuit):
            out["pattern_after"] = [_leaf_dict(r, cc, False) for r, cc in block]
        else:
            out["pattern_after"] = [_leaf_dict(tuple(range(block.m)), block, False)]
        if c is None:
            out["none"] = True
        else:
            out["m"] = c.m
            out["flat"] = [_leaf_dict(r, cc) for r, cc in c]
            out["M_code"] = [[(float(z.real), float(z.imag)) for z in row]
                             for row in np.array(c.compute_unitary(), dtype=complex)]
            out["ntop"] = len(list(c._components)) if hasattr(c, "_components") else None
    except Exception as e:
        # any Python exception of the code under test on a legal request is a finding (judge: `raises-…`); an exception
        # while the harness itself builds the block / the matrix is a harness problem and must not be blamed on the code
        if stage != "call":
            raise
        out["exc"] = type(e).__name__
        out["msg"] = str(e)[:200]
    out["t"] = time.time() - t0
    return out


# ------------------------------------------------------------------------------------------------
# judging one observation
# ------------------------------------------------------------------------------------------------
def cm(rows):
    return np.array([[complex(a, b) for a, b in row] for row in rows], dtype=complex)


def numpy_product(flat, m):
    u = np.eye(m, dtype=complex)
    for lf in flat:
        e = np.eye(m, dtype=complex)
        o, w = lf["off"], lf["w"]
        e[o:o + w, o:o + w] = cm(lf["U"])
        u = e @ u
    return u


def tol_of(spec):
    """The bound of `decomposition_error_bound_precision` (Props/C12.lean, a theorem): every overwritten entry has
    modulus <= precision (threshold test / acceptance test of solve) and the blocks are unitary, so, with
    N = n(n-1)/2 cells and d = N·precision,  ||U - circuit||_F <= (sqrt(n-1) + 2)·d + n·d²  (Frobenius norm, hence
    every entry; the same bound up to a unit diagonal without the phase layer:
    `decomposition_error_bound_no_phase_layer`; the Frobenius norm is invariant under np.flip and, for unitary
    matrices, under inversion, so it also covers inverse_v / inverse_h).  1e-9 is the floating-point slack of the
    comparison itself.  (It replaces the measured `precision·4(#cells+1)` of the earlier rounds and is smaller than
    it for every n <= 6.)"""
    n = spec["n"]
    d = ncells(n) * spec.get("precision", 1e-6)
    # a run with the closed-form solver plugged in (`exact`) has nothing but rounding on top of the bound
    return (math.sqrt(max(n - 1, 0)) + 2) * d + n * d * d + (1e-11 if spec.get("exact") else 1e-9)


def direct_oracle(spec, U, M):
    """The property evaluated on the implementation. -> (ok, signature, text)"""
    tol = tol_of(spec)
    inv = bool(spec.get("v") or spec.get("h"))
    if M.shape != U.shape:
        return False, "wrong-size", f"circuit has {M.shape[0]} modes, matrix {U.shape[0]}"
    if spec.get("phase"):
        err = float(np.max(np.abs(M - U)))
        if err > tol:
            return (False, "inverse-option-wrong-matrix" if inv else "matrix-mismatch",
                    f"max |M - U| = {err:.3g} > precision*c = {tol:.3g}")
        return True, None, err
    aerr = float(np.max(np.abs(np.abs(M) - np.abs(U))))
    if aerr > tol:
        return (False, "inverse-option-wrong-matrix" if inv else "modulus-mismatch",
                f"max ||M_ij| - |U_ij|| = {aerr:.3g} > {tol:.3g}")
    n = U.shape[0]
    worst = 0.0
    for k in range(n):
        a, b = (U[k, :], M[k, :]) if spec.get("h") else (U[:, k], M[:, k])
        c = np.vdot(a, b)          # conj(a)·b : b ≈ c·a
        worst = max(worst, abs(abs(c) - 1), float(np.max(np.abs(b - c * a))))
    if worst > tol:
        side = "diag·U" if spec.get("h") else "U·diag"
        return (False, "inverse-option-wrong-matrix" if inv else "not-up-to-diagonal",
                f"M is not {side} with a unit-modulus diagonal (residue {worst:.3g} > {tol:.3g})")
    return True, None, max(aerr, worst)


def uninvert_struct(flat, n, v, h):
    fl = list(reversed(flat)) if h else list(flat)
    if v:
        fl = [dict(lf, off=n - lf["off"] - lf["w"]) for lf in fl]
    return fl


def parse_items(fl, pattern, spec):
    """Parse the (structurally un-inverted) flat list from its end into blocks / PERMs; the rest is the phase layer.
    -> (phase_leaves, items) or raises ValueError(text)."""
    L = len(pattern)
    items = []
    i = len(fl)
    inv = bool(spec.get("v") or spec.get("h"))
    while i > 0:
        took = False
        if i >= L:
            seg = fl[i - L:i]
            n0 = seg[0]["off"] - pattern[0]["off"]
            if n0 >= 0 and all(s["kind"] == p["kind"] and s["w"] == p["w"] and s["off"] - p["off"] == n0
                               for s, p in zip(seg, pattern)):
                # a copy of the block: parameters fixed in the template keep their value
                if not inv:
                    for s, p in zip(seg, pattern):
                        for name, val in p["params"].items():
                            if val is not None and name in s["params"] and s["params"][name] is not None \
                                    and abs(s["params"][name] - val) > 1e-12:
                                raise ValueError(f"block copy at {n0} changed fixed parameter {name}: "
                                                 f"{val} -> {s['params'][name]}")
                items.append({"k": "block", "off": n0, "leaves": seg})
                i -= L
                took = True
        if not took and fl[i - 1]["kind"] == "PERM":
            if not spec.get("perm"):
                raise ValueError("PERM component although no permutation was requested")
            items.append({"k": "perm", "off": fl[i - 1]["off"], "leaf": fl[i - 1]})
            i -= 1
            took = True
        if not took:
            break
    phase = fl[:i]
    items.reverse()
    for lf in phase:
        if lf["kind"] != "PS" or lf["w"] != 1:
            raise ValueError(f"component {lf['kind']} at {lf['off']} is neither a copy of the block, a PERM nor a "
                             f"phase shifter of the phase layer")
    if phase and not spec.get("phase"):
        raise ValueError("phase shifters outside the blocks although no phase layer was requested")
    idx = [lf["off"] for lf in phase]
    if idx != sorted(set(idx), reverse=True):
        raise ValueError(f"phase layer indices {idx} are not strictly decreasing")
    return phase, items


def full_entries(spec):
    """constraint entries that impose *every* free parameter of the block (nothing left to optimise)"""
    return [c for c in (spec.get("constraints") or []) if all(x is not None for x in c)]


def block_values(item, free):
    """values of the block's free parameters (template order) in one copy of the block"""
    d = {}
    for lf in item["leaves"]:
        d.update(lf.get("params") or {})
    return [d.get(name) for name in free]


def entry_matches(c, vals):
    if len(c) != len(vals):
        return False
    for want, got in zip(c, vals):
        if want is None:
            continue
        if got is None:
            return False
        d = (float(got) - float(want)) % (2 * math.pi)          # a periodic parameter may be stored reduced
        if min(d, 2 * math.pi - d) > 1e-9:
            return False
    return True


def lean_fold_request(spec, obs, Upre, phase, items, prec_scale=1.0):
    n = spec["n"]
    prec = spec.get("precision", 1e-6) * prec_scale
    its = []
    for it in items:
        if it["k"] == "block":
            its.append({"k": "block", "off": it["off"],
                        "leaves": [{"off": lf["off"] - it["off"], "U": core.mat(cm(lf["U"]))} for lf in it["leaves"]]})
        else:
            its.append({"k": "perm", "off": it["off"], "p": it["leaf"]["perm"]})
    return {"op": "fold", "m": n, "U": core.mat(Upre), "prec": core.rat(prec), "ignore": bool(spec.get("ignore", True)),
            "perm": bool(spec.get("perm")), "v": bool(spec.get("v")), "h": bool(spec.get("h")), "items": its,
            "phase_idx": [lf["off"] for lf in phase],
            "pattern": [[p["off"], p["w"]] for p in obs["pattern"]]}


def unc(p):
    return complex(float(core.unrat(p[0])), float(core.unrat(p[1])))


def pre_processed(spec, U):
    """the matrix `Circuit.decomposition` hands to `decompose_triangle`"""
    if spec.get("h"):
        U = np.linalg.inv(U)
    if spec.get("v"):
        U = np.flip(U)
    return U


def hit(chk, obs, name):
    """a required shape: counted once in total and once more when it came out of the random generator (and not from
    the stored corpus), so that a generator that no longer produces the shape is noticed although the corpus does"""
    chk.branch(name)
    if not obs.get("from_corpus"):
        chk.branch(name + "/generated")


# ------------------------------------------------------------------------------------------------
# the existence clause: closed-form parameters (transcription of Lemmas/C12Exist.lean: bsPsTheta / bsPsPhi /
# mziPhiA / mziPhiB) and the comparison of the optimiser's solution with them modulo the periods
# ------------------------------------------------------------------------------------------------
import cmath  # noqa: E402


def closed_form(block, a, b):
    """parameters (in `get_parameters()` order) nulling cU_inv[0,0]·a + cU_inv[0,1]·b — `bsPs_exists_nulling_parameters`,
    `mzi_exists_nulling_parameters`; `cmath.phase` is `Complex.arg` (0 at 0, principal value)"""
    if block == "bs_ps":
        th = math.pi if b == 0 else 2 * math.atan(abs(a) / abs(b))
        return [th, cmath.phase(a) - cmath.phase(b) - math.pi / 2]
    if block == "mzi_last":
        pa = math.pi if a == 0 else 2 * math.atan(abs(b) / abs(a))
        return [pa, cmath.phase(b) - cmath.phase(a)]
    if block == "bs":                  # bs_alone_nullable_iff: a root exists iff Re(a·conj b) = 0
        w = a * b.conjugate()
        return [math.pi if b == 0 else 2 * math.atan(w.imag / abs(b) ** 2)]
    if block == "mzi_first":           # mzi_phase_first_nullable_iff: iff Im(a·conj b) = 0; phi_a is irrelevant
        return [0.0, cmath.phase(a - 1j * b) - cmath.phase(a + 1j * b)]
    raise ValueError(block)


def circle_dist(x):
    """distance of the angle x from 0 modulo 2pi"""
    d = x % (2 * math.pi)
    return min(d, 2 * math.pi - d)


def compare_with_closed_form(block, vals, a, b, prec):
    """`vals` = parameters the optimiser returned for the cell with entries (a, b).  The equation is homogeneous: its
    solution set is  {first ≡ ±first0 (mod 2pi), second ≡ second0 (+pi with the minus sign) (mod 2pi)}  with
    (first0, second0) the closed form.  |equation| <= precision confines the optimiser's point to a neighbourhood of
    that set whose size is computed here (no free tolerance):  r·|sin((first' - first0)/2)| <= |eq|  and
    w·|sin(second' - second0)| <= |eq|  with r = |(a, b)| and w the modulus of the summand the second parameter turns.
    -> None (agrees), a text (disagrees) or "skip" (the cell does not determine the parameters at this precision)"""
    if any(v is None for v in vals) or len(vals) != 2:
        return "skip"
    r = math.hypot(abs(a), abs(b))
    if r < 100 * prec:
        return "skip"
    first0, second0 = closed_form(block, a, b)
    t = float(vals[0]) % (2 * math.pi)
    second = float(vals[1])
    if t > math.pi:
        t = 2 * math.pi - t
        second += math.pi
    tol1 = 2 * math.asin(min(1.0, 1.001 * prec / r)) + 1e-9
    if abs(t - first0) > tol1:
        return (f"first parameter {vals[0]:.9g} (reduced {t:.9g}) differs from the closed form {first0:.9g} by "
                f"{abs(t - first0):.3g} > {tol1:.3g}")
    # modulus of the term multiplied by e^{-i·second}: cos(first'/2)·|a| for BS//PS, cos(first'/2)·|b| for the MZI
    w = math.cos(t / 2) * (abs(a) if block == "bs_ps" else abs(b))
    if w < 4 * prec:
        return None          # the phase is not determined (one of the two entries vanishes to the precision)
    tol2 = math.asin(min(1.0, 1.001 * prec / w)) + 1e-9
    if circle_dist(second - second0) > tol2:
        return (f"second parameter {vals[1]:.9g} differs from the closed form {second0:.9g} by "
                f"{circle_dist(second - second0):.3g} > {tol2:.3g} (modulo 2pi, after the sign reduction of the first)")
    return None


def judge_cells(chk, obs, rep, items, M_np, U):
    """What the replay's ghost recording (`trace`) says about every cell, against the real result:
    target 1 — the parameters the optimiser found in a solved cell against the closed form of the existence theorems;
    target 2 — the hypotheses and the conclusions of `residue_bound` / `decomposition_error_bound` on this instance."""
    spec = obs["spec"]
    n = spec["n"]
    prec = spec.get("precision", 1e-6)
    cells = rep.get("cells")
    if cells is None:
        return ("broken", "lean-fold", "the model's reply carries no cell recording")
    if not rep.get("lower"):
        return ("broken", "lean-invariant", "the model's final u is not lower triangular (final_u_lower_triangular)")
    zs = [math.sqrt(float(core.unrat(c[5]))) for c in cells]
    solved = [c for c in cells if c[2]]
    blocks = [it for it in reversed(items) if it["k"] == "block"]          # the order the loop consumed them
    if len(solved) != len(blocks):
        return ("broken", "bookkeeping-structure", f"{len(solved)} solved cells in the replay, {len(blocks)} blocks")
    worst = max(zs, default=0.0)
    chk.extra["max_cell_residue_over_precision"] = max(chk.extra.get("max_cell_residue_over_precision", 0.0),
                                                       worst / prec)
    if worst > prec * (1 + 2e-6) + 1e-13:
        k = zs.index(worst)
        return ("broken", "cell-residue-above-precision",
                f"cell (j={cells[k][0]}, n={cells[k][1]}): the entry overwritten by u[n,j] = 0 has modulus {worst:.6g} > "
                f"precision = {prec:.3g} (hypothesis of residue_bound: the acceptance test of solve / the threshold test)")
    if spec.get("exact"):
        # every solved cell is nulled by the closed form (`universal_block_run_succeeds`: exactly, here to rounding)
        zsolved = [z for z, c in zip(zs, cells) if c[2]]
        chk.extra["max_exact_run_cell_residue"] = max(chk.extra.get("max_exact_run_cell_residue", 0.0),
                                                      max(zsolved, default=0.0))
        if max(zsolved, default=0.0) > 1e-12:
            k = zs.index(max(zsolved))
            return ("broken", "exact-run-residue",
                    f"cell (j={cells[k][0]}, n={cells[k][1]}): the closed-form parameters leave {zs[k]:.3g} in the entry "
                    f"u[n,j] = 0 overwrites (the model says exactly 0; rounding allows 1e-12)")
    delta = sum(zs)
    resid = math.sqrt(float(core.unrat(rep["resid2"])))
    if resid > delta * (1 + 1e-9) + 1e-13:
        return ("broken", "lean-invariant", f"residue_bound fails on the replay: ||U - Q·u||_F = {resid:.6g} > "
                                            f"sum of overwritten moduli = {delta:.6g}")
    D = [unc(z) for z in rep["D"]]
    udiag = math.sqrt(float(core.unrat(rep["offF2"])) + sum((abs(d) - 1) ** 2 for d in D))
    lemma = (math.sqrt(max(n - 1, 0)) + 1) * delta + n * delta * delta
    if udiag > lemma + 1e-9:
        return ("broken", "lean-invariant", f"lower_triangular_near_unitary_near_diagonal fails on the replay: "
                                            f"||u - diag(phases)||_F = {udiag:.6g} > {lemma:.6g}")
    v, h = bool(spec.get("v")), bool(spec.get("h"))
    if spec.get("phase") and not (v or h):
        F = float(np.linalg.norm(M_np - U))
        bound = resid + udiag + (1e-11 if spec.get("exact") else 1e-9)
        chk.branch("bound-compared")
        chk.extra["max_frobenius_error_over_bound"] = max(chk.extra.get("max_frobenius_error_over_bound", 0.0),
                                                          F / max(tol_of(spec), 1e-300))
        if F > bound:
            return ("broken", "error-above-instance-bound",
                    f"||U - circuit||_F = {F:.6g} exceeds ||U - Q·u||_F + ||u - diag(phases)||_F = {bound:.6g} computed by "
                    f"the model from the same blocks (decomposition_error_bound, before its last inequality)")
    # --- the constraint loop tries the entries IN ORDER (constraints_tried_in_order): an earlier entry that imposes every
    # parameter is decided without the minimiser (accepted iff |equation| <= precision at its values), so if it was
    # acceptable for a cell, the block of that cell must carry its values ---------------------------------------------
    if spec.get("constraints") and not (v or h) and obs.get("free") is not None:
        cons = spec["constraints"]
        for c, it in zip(solved, blocks):
            a, b = unc(c[3]), unc(c[4])
            vals = block_values(it, obs["free"])
            idx = next((k for k, e in enumerate(cons) if entry_matches(e, vals)), None)
            if idx is None:
                continue          # reported as constraint-not-respected by the caller
            for k in range(idx):
                e = cons[k]
                if len(e) == 0 or not all(x is not None for x in e):
                    continue
                B = block_unitary(spec["block"], e)
                r_e = abs(np.conj(B[0, 0]) * a + np.conj(B[1, 0]) * b)
                if r_e < prec * (1 - 1e-3) - 1e-12:
                    return ("broken", "constraint-order",
                            f"cell (j={c[0]}, n={c[1]}): constraint #{k} {e} imposes every parameter and nulls the entry "
                            f"(|equation| = {r_e:.3g} <= precision) but the block carries {vals}, matching only entry "
                            f"#{idx}: the entries are not tried in the listed order")
                hit(chk, obs, "earlier-full-constraint-rejected")
    # --- the characterised non-universal blocks: a cell the solver accepted must be (nearly) nullable ---------------
    # bs_alone_nullable_iff / mzi_phase_first_nullable_iff are exact; |equation| <= precision relaxes the criterion to
    # |Re(a·conj b)| <= sqrt2·precision·max(|a|,|b|)   (c·Re(a conj b) = Re(e conj b), s·Re(a conj b) = -Re(i a conj e))
    # |Im(a·conj b)| <= precision·(|a| + |b|)          (| |a - ib| - |a + ib| | <= 2·precision)
    # (two lines of algebra from the model's equation, evaluated per instance; not a Lean theorem)
    if spec["block"] in OTHER_BLOCKS and not (v or h):
        for c in solved:
            a, b = unc(c[3]), unc(c[4])
            w = a * b.conjugate()
            if spec["block"] == "bs":
                crit, lim = abs(w.real), math.sqrt(2) * prec * max(abs(a), abs(b))
            else:
                crit, lim = abs(w.imag), prec * (abs(a) + abs(b))
            chk.branch("solved-cell-nullable:" + spec["block"])
            if crit > lim * 1.01 + 1e-13:
                return ("broken", "solved-cell-not-nullable",
                        f"cell (j={c[0]}, n={c[1]}) of a circuit returned for the block {spec['block']}: a = {a:.6g}, "
                        f"b = {b:.6g} has {'Re' if spec['block'] == 'bs' else 'Im'}(a·conj b) = {crit:.3g} > {lim:.3g}: "
                        f"no parameter value brings the equation below the precision, yet the cell was accepted")
    # --- target 1: the optimiser's parameters against the closed form -------------------------------------------
    if spec["block"] in UNIVERSAL and not (v or h) and len(obs.get("free", [])) == 2:
        for c, it in zip(solved, blocks):
            a, b = unc(c[3]), unc(c[4])
            vals = block_values(it, obs["free"])
            r = compare_with_closed_form(spec["block"], vals, a, b, prec)
            if r == "skip":
                chk.count("closed_form", "skipped (cell does not determine the parameters)")
                continue
            hit(chk, obs, "closed-form-compared:" + spec["block"])
            if r is not None:
                return ("broken", "optimiser-not-closed-form",
                        f"cell (j={c[0]}, n={c[1]}) with a = {a:.6g}, b = {b:.6g}: {r} [block {spec['block']} at mode "
                        f"{it['off']}]")
    return None


# ------------------------------------------------------------------------------------------------
# the block family and the equation: `Model/C12Block.lean` against the real blocks
# ------------------------------------------------------------------------------------------------
def rat_unit(rng):
    """a point of the unit circle with rational coordinates (Fractions), occasionally on an axis"""
    if rng.random() < 0.15:
        return rng.choice([(Fraction(1), Fraction(0)), (Fraction(0), Fraction(1)), (Fraction(-1), Fraction(0)),
                           (Fraction(0), Fraction(-1))])
    return core.rational_cs(rng)


def gen_block_case(rng):
    blk = rng.choice(UNIVERSAL)
    kind = rng.choice(["rational", "rational", "closed", "closed", "closed-axis"])
    def z():
        return (Fraction(rng.randint(-12, 12), 8), Fraction(rng.randint(-12, 12), 8))
    a, b = z(), z()
    if kind == "closed-axis":          # the branches `b = 0` / `a = 0` of the closed form, and real / imaginary entries
        which = rng.choice(["a0", "b0", "real", "imag", "both0"])
        if which in ("a0", "both0"):
            a = (Fraction(0), Fraction(0))
        if which in ("b0", "both0"):
            b = (Fraction(0), Fraction(0))
        if which == "real":
            a, b = (a[0], Fraction(0)), (b[0], Fraction(0))
        if which == "imag":
            a, b = (Fraction(0), a[1]), (Fraction(0), b[1])
    cse = {"block": blk, "kind": kind, "a": [str(x) for x in a], "b": [str(x) for x in b]}
    if kind == "rational":
        if blk == "bs_ps":
            c, s_ = rat_unit(rng)
            p = rat_unit(rng)
            cse.update(c=str(c), s=str(s_), p=[str(p[0]), str(p[1])])
        else:
            ea, eb = rat_unit(rng), rat_unit(rng)
            cse.update(ea=[str(ea[0]), str(ea[1])], eb=[str(eb[0]), str(eb[1])])
    return cse


OTHER_BLOCKS = ("bs", "mzi_first")          # characterised, not universal (`Model/C12Other.lean`)


def gen_other_block_case(rng):
    """`BS(theta)` alone / `catalog['mzi phase first']`: the block family at rational points (matrix, inverse row and
    equation against the model), cells built to be nullable (the closed-form root must null the REAL equation) and
    cells built not to be (the REAL solve must answer None)"""
    blk = rng.choice(OTHER_BLOCKS)
    kind = rng.choice(["rational", "nullable", "nullable", "unsolvable", "unsolvable"])
    q = lambda: Fraction(rng.randint(-12, 12), 8)
    a, b = (q(), q()), (q(), q())
    if kind == "nullable":
        t = Fraction(rng.randint(-12, 12), 4)
        which = rng.choice(["ratio", "ratio", "ratio", "a0", "b0", "both0"])
        if which == "ratio" and blk == "bs":          # a = i·t·b
            a = (-t * b[1], t * b[0])
        elif which == "ratio":                         # a = t·b
            a = (t * b[0], t * b[1])
        if which in ("a0", "both0"):
            a = (Fraction(0), Fraction(0))
        if which in ("b0", "both0"):
            b = (Fraction(0), Fraction(0))
    if kind == "unsolvable":
        while True:
            crit = (a[0] * b[0] + a[1] * b[1]) if blk == "bs" else (a[1] * b[0] - a[0] * b[1])
            if crit != 0:
                break
            a, b = (q(), q()), (q(), q())
    cse = {"block": blk, "kind": kind, "a": [str(x) for x in a], "b": [str(x) for x in b],
           "seed": rng.randrange(1, 2 ** 30)}
    if kind == "rational":
        if blk == "bs":
            c, s_ = rat_unit(rng)
            cse.update(c=str(c), s=str(s_))
        else:
            ea, eb = rat_unit(rng), rat_unit(rng)
            cse.update(ea=[str(ea[0]), str(ea[1])], eb=[str(eb[0]), str(eb[1])])
    return cse


def block_case_params(cse):
    """the real parameter values of a block case"""
    fz = lambda pr: complex(float(Fraction(pr[0])), float(Fraction(pr[1])))
    if cse["kind"] == "rational" and cse["block"] == "bs":
        return [2 * math.atan2(float(Fraction(cse["s"])), float(Fraction(cse["c"])))]
    if cse["kind"] == "rational":
        if cse["block"] == "bs_ps":
            p = fz(cse["p"])
            return [2 * math.atan2(float(Fraction(cse["s"])), float(Fraction(cse["c"]))), math.atan2(p.imag, p.real)]
        ea, eb = fz(cse["ea"]), fz(cse["eb"])
        return [math.atan2(ea.imag, ea.real), math.atan2(eb.imag, eb.real)]
    return closed_form(cse["block"], fz(cse["a"]), fz(cse["b"]))


def observe_blocks(cases):
    """REAL code: the block's own compute_unitary at the parameter values, and the first row of `component.U.inv()`
    (simplified, lambdified exactly as decompose_triangle builds its equation) — plain data out."""
    import warnings
    warnings.filterwarnings("ignore")
    import sympy as sp
    import scipy as scp
    row_fn = {}
    outs = []
    for cse in cases:
        try:
            name = cse["block"]
            if name not in row_fn:
                comp = make_block(name)
                params = comp.get_parameters()
                syms = [x.spv for x in params]
                cU_inv = comp.U.inv()
                cU_inv.simplify()
                row_fn[name] = (sp.lambdify([syms], [cU_inv[0, 0], cU_inv[0, 1]], modules=[np, scp]),
                                [(bool(x.is_periodic), x.bounds) for x in params])
            f, pinfo = row_fn[name]
            if cse["kind"] == "unsolvable":
                # the REAL solve on the REAL equation of a cell the model says no parameter value can null
                from perceval.utils.algorithms.solve import solve as real_solve
                fz = lambda pr: complex(float(Fraction(pr[0])), float(Fraction(pr[1])))
                a, b = fz(cse["a"]), fz(cse["b"])
                g = lambda p: float(np.abs(f(list(p))[0] * a + f(list(p))[1] * b))
                rs = np.random.RandomState(cse["seed"])
                k = len(pinfo)
                answers = []
                for _ in range(2):
                    r = real_solve(g, [float(x) for x in rs.uniform(0, 2 * math.pi, k)], [None] * k, [None] * k, 1e-6)
                    answers.append(None if r is None else [[float(x) for x in r], g(r)])
                grid = np.linspace(0, 2 * math.pi, 181)
                gmin = min(g([t] * k) if k == 1 else min(g([t, u]) for u in grid[::6]) for t in grid)
                outs.append({"answers": answers, "grid_min": float(gmin),
                             "bounds_passed": [(not per and bnd or None) is not None for per, bnd in pinfo]})
                continue
            vals = block_case_params(cse)
            row = [complex(z) for z in f(vals)]
            outs.append({"vals": vals, "U": _rows(block_unitary(name, vals)),
                         "row": [(z.real, z.imag) for z in row],
                         "bounds_passed": [(not per and bnd or None) is not None for per, bnd in pinfo]})
        except Exception as e:
            outs.append({"exc": type(e).__name__, "msg": str(e)[:200]})
    return outs


def judge_block(chk, cse, out):
    if "exc" in out:
        return ("broken", "block-raises-" + out["exc"], f"evaluating the block raised {out['exc']}: {out.get('msg')}")
    fz = lambda pr: complex(float(Fraction(pr[0])), float(Fraction(pr[1])))
    a, b = fz(cse["a"]), fz(cse["b"])
    if cse["block"] in OTHER_BLOCKS and cse["kind"] != "rational":
        # the characterisation theorems: the model decides exactly whether the cell has a root at all
        req = {"op": "blockmat", "block": cse["block"], "a": cse["a"], "b": cse["b"]}
        req.update({"c": "1", "s": "0"} if cse["block"] == "bs" else {"ea": ["1", "0"], "eb": ["1", "0"]})
        rep = chk.lean.ask(req)
        if "err" in rep:
            return ("broken", "lean-blockmat", f"model rejected the request: {rep['err']}")
        if rep["nullable"] != (cse["kind"] == "nullable"):
            return ("broken", "nullable-criterion",
                    f"{cse['block']}: the case was built as {cse['kind']} (a = {a}, b = {b}) but the model's criterion "
                    f"says nullable = {rep['nullable']}")
        if cse["kind"] == "unsolvable":
            chk.branch("unsolvable-cell:" + cse["block"])
            chk.extra["min_unsolvable_grid_min"] = min(chk.extra.get("min_unsolvable_grid_min", 1e9), out["grid_min"])
            got = [x for x in out["answers"] if x is not None]
            if got:
                return ("broken", "unsolvable-cell-solved",
                        f"{cse['block']}: solve returned {got[0][0]} (|equation| = {got[0][1]:.3g}) for a = {a}, b = {b}, "
                        f"a cell no parameter value nulls ({'bs_alone' if cse['block'] == 'bs' else 'mzi_phase_first'}"
                        f"_nullable_iff); smallest |equation| on a grid: {out['grid_min']:.3g}")
            return None
    row = [complex(*z) for z in out["row"]]
    eq_code = row[0] * a + row[1] * b
    if any(out["bounds_passed"]):
        return ("broken", "universal-block-bounded",
                f"a parameter of {cse['block']} is not periodic: decompose_triangle would pass bounds to the minimiser "
                f"(the existence theorems assume every real value is admissible)")
    if cse["kind"] != "rational":
        # the existence theorems evaluated on the real block: the closed form nulls the real equation
        chk.branch("closed-form-root:" + cse["block"])
        scale = abs(a) + abs(b)
        if abs(eq_code) > 1e-12 * scale + 1e-300:
            return ("broken", "closed-form-not-a-root",
                    f"{cse['block']}: cU_inv[0,0]·a + cU_inv[0,1]·b = {abs(eq_code):.3g} at the closed-form parameters "
                    f"{out['vals']} for a = {a}, b = {b} (bsPs/mzi_exists_nulling_parameters, bs_alone/"
                    f"mzi_phase_first_nullable_iff say 0)")
        return None
    req = {"op": "blockmat", "block": cse["block"], "a": cse["a"], "b": cse["b"]}
    for k in ("c", "s", "p", "ea", "eb"):
        if k in cse:
            req[k] = cse[k]
    rep = chk.lean.ask(req)
    if "err" in rep:
        return ("broken", "lean-blockmat", f"model rejected the request: {rep['err']}")
    chk.branch("blockmat:" + cse["block"])
    if not rep["unit"] or rep.get("closed_form_agrees") is False:
        return ("broken", "lean-invariant", "the model's block and inverse do not multiply to 1 / closed form differs")
    M = np.array([[unc(z) for z in r] for r in rep["M"]], dtype=complex)
    Minv = np.array([[unc(z) for z in r] for r in rep["Minv"]], dtype=complex)
    if np.max(np.abs(M - cm(out["U"]))) > 1e-9:
        return ("broken", "block-matrix",
                f"{cse['block']} at {out['vals']}: compute_unitary differs from the model's matrix by "
                f"{np.max(np.abs(M - cm(out['U']))):.3g}")
    if max(abs(Minv[0, 0] - row[0]), abs(Minv[0, 1] - row[1])) > 1e-9:
        return ("broken", "block-inverse-row",
                f"{cse['block']} at {out['vals']}: first row of component.U.inv() is {row}, the model's is "
                f"{[Minv[0, 0], Minv[0, 1]]}")
    if abs(unc(rep["eq"]) - eq_code) > 1e-9 * (1 + abs(eq_code)):
        return ("broken", "block-equation", f"{cse['block']}: equation value {eq_code} vs model {unc(rep['eq'])}")
    return None


def handle_block(chk, cse, out):
    r = judge_block(chk, cse, out)
    if r is not None:
        kind, sig, what = r
        chk.count("failures", sig)
        chk.fail(kind, sig, what, {"block_case": cse})


# ------------------------------------------------------------------------------------------------
# the glue of Circuit.decomposition around decompose_triangle: which exception / None / circuit (Model/C12Glue.lean)
# ------------------------------------------------------------------------------------------------
GLUE_SHAPES = ["triangle", "TRIANGLE", "Triangle", "rectangle", "RECTANGLE", "hexagon", "", "enum:TRIANGLE",
               "enum:RECTANGLE", "none", "int"]


def gen_glue_case(rng):
    n = rng.choice([2, 2, 3])
    blk = rng.choice(["bs_ps", "bs_ps", "mzi_last", "bs", "bs_fixed"])
    k = NFREE[blk]
    good = [None] * k
    cons = rng.choice(["none", "none", "good", "good2", "empty", "wronglen", "shorter", "longer", "tuple-of-tuples", "entry-int",
                       "entry-str", "tuple-entry", "bad-after-good"])
    shape = rng.choice(GLUE_SHAPES) if rng.random() < 0.45 else rng.choice(["triangle", "TRIANGLE", "enum:TRIANGLE"])
    if rng.random() < 0.5:
        cons = rng.choice(["none", "good", "good2", "tuple-entry"])
    return {"n": n, "block": blk, "seed": rng.randrange(1, 2 ** 30), "shape": shape,
            "kind": rng.choice(["haar", "haar", "identity", "perm", "sparse"]),
            "nonunitary": rng.random() < 0.12, "cons": cons, "max_try": rng.choice([0, 1, 2, 3, 3, 10, -1]),
            "allow_error": rng.random() < 0.3, "phase": rng.random() < 0.5}


def glue_constraints(cse):
    """-> (python object handed to the code, description for the model)"""
    k = NFREE[cse["block"]]
    free = [None] * k
    c = cse["cons"]
    if c == "none":
        return None, None
    if c == "good":
        return [tuple(free)], [k]
    if c == "good2":
        return [list(free), tuple(free)], [k, k]
    if c == "empty":
        return [], []
    if c == "wronglen":
        return [tuple(free) + (None,)], [k + 1]
    if c == "shorter":          # one component missing (a block without free parameter cannot have fewer: k + 1 then)
        m = k - 1 if k else k + 1
        return [tuple(free), (None,) * m], [k, m]
    if c == "longer":
        return [tuple(free), (None,) * (k + 2)], [k, k + 2]
    if c == "tuple-of-tuples":
        return (tuple(free),), "notlist"
    if c == "entry-int":
        return [5], [-1]
    if c == "entry-str":          # a str has a length but is neither a list nor a tuple
        return ["x" * k], [-1]
    if c == "tuple-entry":
        return [tuple(free)], [k]
    if c == "bad-after-good":
        return [tuple(free), 7], [k, -1]
    raise ValueError(c)


def observe_glue(cse):
    import warnings
    warnings.filterwarnings("ignore")
    import perceval as pcvl
    from perceval.components import PS, Circuit
    from perceval.utils import InterferometerShape
    out = {}
    block = make_block(cse["block"])
    u0 = make_matrix(cse["kind"], cse["n"], cse["seed"])
    if cse["nonunitary"]:
        u0 = u0.copy()
        u0[0, 0] += 0.25
    sh = cse["shape"]
    shape = {"enum:TRIANGLE": InterferometerShape.TRIANGLE, "enum:RECTANGLE": InterferometerShape.RECTANGLE,
             "none": None, "int": 1}.get(sh, sh)
    cons, _ = glue_constraints(cse)
    kw = {"shape": shape, "max_try": cse["max_try"], "allow_error": cse["allow_error"]}
    if cons is not None:
        kw["constraints"] = cons
    if cse["phase"]:
        kw["phase_shifter_fn"] = PS
    pcvl.random_seed(cse["seed"])
    out["nparams"] = len(block.get_parameters())
    with _AttemptLog() as al:
        try:
            c = Circuit.decomposition(pcvl.Matrix(u0), block, **kw)
            out["result"] = "None" if c is None else "circuit"
        except Exception as e:
            out["result"] = type(e).__name__
            out["msg"] = str(e)[:160]
    out["attempts"] = None if al.log is None else [bool(a["ok"]) for a in al.log]
    out["calls"] = None if al.log is None else [int(a["calls"]) for a in al.log]
    out["solved"] = None if al.log is None else [int(a["solved"]) for a in al.log]
    return out


def judge_glue(chk, cse, out):
    sh = cse["shape"]
    if sh.startswith("enum:"):
        shape = {"obj": sh[5:].lower()}
    elif sh in ("none", "int"):
        shape = {"obj": "foreign"}
    else:
        up = sh.upper()
        shape = {"str": up.lower() if up in ("TRIANGLE", "RECTANGLE") else None}
    _, cdesc = glue_constraints(cse)
    att = out.get("attempts")
    if att is None:
        return None          # the observation hooks could not be installed: reported by the required branches
    rep = chk.lean.ask({"op": "glue", "shape": shape, "unitary": not cse["nonunitary"], "symbolic": False,
                        "constraints": cdesc, "nparams": out["nparams"], "max_try": cse["max_try"], "attempts": att})
    if "err" in rep:
        return ("broken", "lean-glue", f"model rejected the request: {rep['err']}")
    chk.branch("glue:" + rep["outcome"])
    chk.count("glue", f"{rep['outcome']}")
    got = out["result"]
    if got != rep["outcome"]:
        return ("broken", "decomposition-control-flow",
                f"Circuit.decomposition(shape={sh!r}, constraints={cse['cons']}, max_try={cse['max_try']}, "
                f"unitary={not cse['nonunitary']}) gave {got} ({out.get('msg', '')}); the model of its control flow says "
                f"{rep['outcome']} (attempts observed: {att})")
    if got == "circuit" and rep.get("k") != len(att) - 1:
        return ("broken", "decomposition-control-flow", f"circuit returned by attempt {len(att) - 1}, model says {rep.get('k')}")
    if got == "None" and len(att) != max(cse["max_try"], 0) and shape in ({"str": "triangle"}, {"obj": "triangle"}):
        return ("broken", "gave-up-before-max-try", f"None after {len(att)} attempts, max_try = {cse['max_try']}")
    if got in ("ValueError", "AssertionError", "NotImplementedError") and att:
        return ("broken", "decomposition-control-flow", f"{got} raised after {len(att)} attempt(s) had been started")
    # allow_error=True: solve never answers None (solve_allow_error_isSome), so every started attempt succeeds — unless
    # the list of constraints is empty (no call of solve at all)
    if cse["allow_error"] and att and cse["cons"] != "empty":
        chk.branch("glue:allow-error")
        if not all(att) or any(c != s_ for c, s_ in zip(out["calls"], out["solved"])):
            return ("broken", "allow-error-returns-none",
                    f"with allow_error=True an attempt was abandoned / a call of solve answered None: attempts {att}, "
                    f"solve calls {out['calls']}, accepted {out['solved']}")
    if cse["cons"] == "empty" and att:
        chk.branch("glue:empty-constraint-list")
    if cse["max_try"] <= 0 and got == "None":
        chk.branch("glue:max-try-zero")
    return None


def handle_glue(chk, cse, out):
    r = judge_glue(chk, cse, out)
    if r is not None:
        kind, sig, what = r
        chk.count("failures", sig)
        chk.fail(kind, sig, what, {"glue_case": cse})


def judge_attempts(chk, obs, U):
    """The retry loop (`while count < max_try`), observed attempt by attempt.

    * directly on the implementation (hypothesis `hleave` of `retry_reconstruct_with_error`): every attempt must start
      from the requested (pre-processed) matrix, up to entries of modulus <= precision replaced by 0 — nothing of an
      abandoned attempt may reach the next one;
    * against the Lean model (`retry … id`): the array object shared by the attempts is left untouched by an attempt
      (the in-place writes of the pinned code, model `inPlace` / op `leave`, are recognised: `caller-matrix-modified`);
    * the number of attempts: at most `max_try`, and exactly `max_try` when nothing is returned."""
    spec = obs["spec"]
    att = obs.get("attempts")
    if att is None:
        return None
    n = spec["n"]
    prec = spec.get("precision", 1e-6)
    max_try = spec.get("max_try", 10)
    chk.count("attempts", len(att))
    if len(att) > max_try:
        return ("broken", "more-attempts-than-max-try", f"{len(att)} attempts although max_try = {max_try}")
    if obs.get("none") and len(att) != max_try:
        return ("broken", "gave-up-before-max-try", f"None returned after {len(att)} attempts although max_try = {max_try}")
    if not att:
        return None
    if att[-1]["ok"] != ("flat" in obs) or any(a["ok"] for a in att[:-1]):
        return ("broken", "attempt-bookkeeping", "the returned value is not that of the last and only successful attempt: "
                f"{[a['ok'] for a in att]} / {'circuit' if 'flat' in obs else 'none'}")
    first = cm(att[0]["in"])
    if not spec.get("warmup"):
        Upre = pre_processed(spec, U)
        # U.inv() of the code vs numpy's inverse here: equal to rounding only
        if first.shape != Upre.shape or np.max(np.abs(first - Upre)) > (1e-12 if spec.get("h") else 0.0):
            return ("broken", "first-attempt-input", "the matrix handed to the first attempt is not the requested one "
                    f"(after inverse_h / inverse_v pre-processing): max difference {np.max(np.abs(first - Upre)):.3g}")
    for k in range(1, len(att)):
        cur = cm(att[k]["in"])
        bad = [(i, j) for i in range(n) for j in range(n)
               if cur[i, j] != first[i, j] and not (cur[i, j] == 0 and abs(first[i, j]) <= prec * (1 + 1e-9))]
        if bad:
            i, j = bad[0]
            return ("broken", "attempt-starts-from-modified-matrix",
                    f"attempt {k + 1} of the retry loop was started on a matrix that differs from the requested one in "
                    f"{len(bad)} entries, e.g. [{i},{j}] = {cur[i, j]:.6g} instead of {first[i, j]:.6g} (attempt {k} "
                    f"had solved {att[k - 1]['solved']} cell(s) before it was abandoned)")
    # the array object shared by the attempts (it is the caller's matrix, or a view of it): the model (`retry … id`,
    # every attempt on a private copy) says an attempt leaves it exactly as it was.  The pinned code wrote
    # `u[n, j] = 0` of its leading identity skips into it (model `inPlace`, op `leave`): recognised and named.
    for k, a in enumerate(att):
        if a.get("after") is None:
            continue
        before, after = cm(a["in"]), cm(a["after"])
        if np.array_equal(before, after):
            continue
        diff = [(i, j) for i in range(n) for j in range(n) if before[i, j] != after[i, j]]
        for scale in (1.0, 1.0 + 1e-6, 1.0 - 1e-6):
            rep = chk.lean.ask({"op": "leave", "m": n, "U": core.mat(before), "prec": core.rat(prec * scale),
                                "ignore": bool(spec.get("ignore", True))})
            if "err" in rep:
                return ("broken", "lean-leave", f"model rejected the request: {rep['err']}")
            want = before.copy()
            for i, j in rep["zeroed"]:
                want[i, j] = 0
            if not rep["other"] and np.array_equal(want, after):
                kind = "violation" if obs.get("arg_unitary_after") is False else "broken"
                return (kind, "caller-matrix-modified",
                        f"the call wrote into the matrix object of its caller (entries {diff[:6]} set to 0, as the "
                        f"in-place model of the pinned decompose_triangle predicts)"
                        + ("; the caller's matrix is no longer unitary for Matrix.is_unitary, the same request "
                           "repeated on it is refused" if kind == "violation" else ""))
        return ("broken", "attempt-in-place-writes",
                f"attempt {k + 1}: the array shared by all attempts was modified by the attempt (model: every attempt "
                f"works on a private copy); entries {diff[:6]}, e.g. {before[diff[0]]:.6g} -> {after[diff[0]]:.6g}")
    # the shape on which the pinned code wrote into the caller's matrix (asked from the model, not from the tree)
    rep = chk.lean.ask({"op": "leave", "m": n, "U": core.mat(first), "prec": core.rat(prec),
                        "ignore": bool(spec.get("ignore", True))})
    if "err" in rep:
        return ("broken", "lean-leave", f"model rejected the request: {rep['err']}")
    if rep["zeroed"]:
        hit(chk, obs, "negligible-entries-in-leading-skips")
        chk.count("leading_skip_kind", spec["kind"])
    if "flat" in obs and len(att) >= 2:
        hit(chk, obs, "retry-then-circuit")
        if any(a["solved"] > 0 for a in att[:-1]):
            hit(chk, obs, "retry-after-partial-attempt")
    return None


def judge(chk, obs):
    """-> None or (kind, signature, text).  Also fills the histograms."""
    spec = obs["spec"]
    n = spec["n"]
    U = spec_matrix(spec)
    if spec.get("malformed"):
        chk.branch("rejected")
        want = {"nonunitary": "ValueError", "constraints": "AssertionError", "shape": "ValueError",
                "rectangle": "NotImplementedError"}[spec["malformed"]]
        got = obs.get("exc")
        chk.count("rejections", f"{spec['malformed']}->{got}")
        if got != want:
            return ("broken", "malformed-input-accepted",
                    f"malformed request ({spec['malformed']}) gave {got or 'a result'} instead of {want}")
        return None
    if "exc" in obs and obs.get("warmup_changed_arg") and not obs.get("warmup_arg_unitary", True):
        return ("violation", "caller-matrix-modified",
                f"a first Circuit.decomposition on this Matrix object wrote into it; the same request repeated on the same "
                f"object raises {obs['exc']}: {obs.get('msg')}")
    if "exc" in obs and spec.get("exact"):
        return ("broken", "exact-run-raises", f"Circuit.decomposition with the closed-form solver plugged in raised "
                                              f"{obs['exc']}: {obs.get('msg')}")
    if "exc" in obs:
        return ("violation", "raises-" + obs["exc"], f"Circuit.decomposition raised {obs['exc']}: {obs.get('msg')}")
    chk.count("result", ("none" if obs.get("none") else "circuit") + ":" + spec["block"])
    if obs.get("input_changed"):
        chk.count("side_effects", "input matrix modified in place")
    if obs.get("none") and spec.get("exact"):
        # `universal_block_run_succeeds`: with a solver that nulls every cell decompose_triangle has no way to answer None
        att = obs.get("attempts") or []
        return ("broken", "exact-run-none",
                f"decompose_triangle answered None although every call of solve was answered with the closed-form root "
                f"({len(att)} attempt(s), {sum(a['calls'] for a in att)} solver call(s), "
                f"{sum(a['solved'] for a in att)} accepted): the run-level existence theorem of the model does not "
                f"describe this code")
    if obs.get("none"):
        chk.branch("none")
        if spec.get("constraints") and len(full_entries(spec)) == len(spec["constraints"]):
            chk.branch("constraint-full-none")          # every entry imposes all parameters and none was accepted
        unrestricted = spec.get("constraints") is None or any(all(x is None for x in c) for c in spec["constraints"])
        if spec["block"] in UNIVERSAL and unrestricted and spec.get("max_try", 10) >= 10:
            return ("violation", "universal-block-none",
                    f"no circuit found within {spec.get('max_try', 10)} tries for the universal block {spec['block']}")
        return judge_attempts(chk, obs, U)
    chk.branch("circuit")
    flat = obs["flat"]
    M_np = numpy_product(flat, n)
    ok, sig, info = direct_oracle(spec, U, M_np)
    if not ok and spec.get("exact"):
        # not a public-API observation (decomposition.solve was replaced by the closed form): a disagreement between
        # the run-level theorems of the model and the real bookkeeping, not a failing input of the property
        return ("broken", "exact-run-" + sig, "with the closed-form solver plugged in: " + str(info))
    if not ok:
        return ("violation", sig, info)
    chk.extra["max_err_over_precision"] = max(chk.extra.get("max_err_over_precision", 0.0),
                                              float(info) / spec.get("precision", 1e-6))
    if obs.get("pattern_after") is not None and obs["pattern_after"] != obs["pattern"]:
        return ("broken", "block-template-modified",
                f"the building block handed to Circuit.decomposition was modified by the call: {obs['pattern']} -> "
                f"{obs['pattern_after']}")
    if spec.get("warmup"):
        hit(chk, obs, "block-reused")
    r = judge_attempts(chk, obs, U)
    if r is not None:
        return r
    if spec.get("exact") and obs.get("attempts") is not None:
        att = obs["attempts"]
        if len(att) != 1 or att[0]["calls"] != att[0]["solved"]:
            return ("broken", "exact-run-retried",
                    f"with the closed-form solver the first attempt must succeed and every answer must be accepted: "
                    f"{len(att)} attempt(s), calls/accepted = {[(a['calls'], a['solved']) for a in att]}")
        hit(chk, obs, "exact-run:" + spec["block"])
        if spec.get("precision", 1e-6) <= 1e-11:
            hit(chk, obs, "exact-run-tight-precision")
    # --- structure: only copies of the block, PERMs, phase layer --------------------------------
    v, h = bool(spec.get("v")), bool(spec.get("h"))
    try:
        phase, items = parse_items(uninvert_struct(flat, n, v, h), obs["pattern"], spec)
    except ValueError as e:
        return ("violation", "foreign-component", str(e))
    for it in items:
        if it["k"] == "perm":
            lf = it["leaf"]
            pm = np.zeros((lf["w"], lf["w"]))
            for i, x in enumerate(lf["perm"]):
                pm[x, i] = 1
            if np.max(np.abs(cm(lf["U"]) - pm)) > 1e-12:
                return ("violation", "perm-matrix", f"PERM leaf at {lf['off']} does not have the matrix of {lf['perm']}")
    # --- constraints: every solved block carries the values of one of the entries -------------------------------
    nblocks = sum(1 for it in items if it["k"] == "block")
    if not obs.get("free") and nblocks:
        chk.branch("no-free-param-circuit")
    if spec.get("constraints") is not None and not (v or h):
        cons = spec["constraints"]
        full = [all(x is not None for x in c) for c in cons]
        for it in items:
            if it["k"] != "block":
                continue
            vals = block_values(it, obs.get("free", []))
            idx = next((k for k, c in enumerate(cons) if entry_matches(c, vals)), None)
            if idx is None:
                return ("broken", "constraint-not-respected",
                        f"block at mode {it['off']} has parameters {dict(zip(obs.get('free', []), vals))}, which is "
                        f"compatible with none of the constraints {cons}")
            if full[idx] and len(cons[idx]):
                chk.branch("constraint-full-used")
            if any(full[:idx]):
                chk.branch("constraint-full-rejected-then-fallback")
    # --- Lean: exact product ---------------------------------------------------------------------
    rep = chk.lean.ask({"op": "prod", "m": n, "leaves": [{"off": lf["off"], "U": core.mat(cm(lf["U"]))} for lf in flat]})
    if "err" in rep:
        return ("broken", "lean-prod", f"model rejected the returned circuit: {rep['err']}")
    M_lean = np.array([[unc(z) for z in row] for row in rep["M"]], dtype=complex)
    if np.max(np.abs(M_lean - cm(obs["M_code"]))) > 1e-9:
        return ("violation", "compute-unitary-not-product",
                "compute_unitary() of the returned circuit differs from the exact product of its leaves")
    ok2, sig2, info2 = direct_oracle(spec, U, M_lean)
    if not ok2:
        return ("broken", "oracle-disagreement", f"numpy product passes, exact product fails: {info2}")
    # --- Lean: replay of the bookkeeping ------------------------------------------------------------
    Upre = U
    if h:
        Upre = np.linalg.inv(Upre)
    if v:
        Upre = np.flip(Upre)
    want_items = [["block", it["off"]] if it["k"] == "block" else ["perm", it["off"], it["leaf"]["perm"]] for it in items]
    want_flat = [[lf["off"], lf["w"]] for lf in flat]
    last = None
    for scale in (1.0, 1.0 + 1e-6, 1.0 - 1e-6):
        rep = chk.lean.ask(lean_fold_request(spec, obs, Upre, phase, items, scale))
        if "err" in rep:
            return ("broken", "lean-fold", f"model rejected the replay request: {rep['err']}")
        good = (not rep.get("none")) and rep["comps"] == want_items and rep["left"] == 0 and rep["flat"] == want_flat
        if good:
            if scale != 1.0:
                chk.count("threshold", "decided within 1e-6 of the precision")
            break
        last = rep
    else:
        rep = last
        if rep.get("none"):
            what = "the model's control flow needs more solved blocks than the circuit contains"
        elif rep["left"] != 0:
            what = f"{rep['left']} block(s) of the circuit are not used by the model's control flow"
        elif rep["comps"] != want_items:
            what = f"component list differs: model {rep['comps'][:8]} code {want_items[:8]}"
        else:
            what = f"flat structure after Circuit.inverse differs: model {rep['flat'][:8]} code {want_flat[:8]}"
        return ("broken", "bookkeeping-structure", what)
    if not rep.get("inv_holds"):
        return ("broken", "lean-invariant", "the model's own invariant circMat·u + err = U does not evaluate to true")
    tol = tol_of(spec)
    off = math.sqrt(float(core.unrat(rep["off2"])))
    err = math.sqrt(float(core.unrat(rep["err2"])))
    if off > tol or err > tol:
        return ("broken", "residue", f"final u off-diagonal {off:.3g} / overwritten-entry term {err:.3g} exceed {tol:.3g}")
    r = judge_cells(chk, obs, rep, items, M_np, U)
    if r is not None:
        return r
    chk.count("nskip", rep["nskip"])
    if rep["nskip"]:
        chk.branch("identity-skip")
    if any(c[0] == "perm" for c in rep["comps"]):
        chk.branch("perm-substitution")
        if any(len(c[2]) > 2 for c in rep["comps"] if c[0] == "perm"):
            chk.branch("perm-wide")
    if any(c[0] == "block" for c in rep["comps"]):
        chk.branch("solved-block")
    # phase layer against the final diagonal
    D = [unc(z) for z in rep["D"]]
    if spec.get("phase"):
        got = {}
        for lf in phase:
            z = complex(*lf["U"][0][0])
            got[lf["off"]] = (1 / z) if h else z          # PS.inverse(h) negated the phase
        for i, d in enumerate(D):
            target = d / abs(d) if abs(d) > 0 else d
            if i in got:
                if abs(got[i] - target) > 1e-6 + tol:
                    return ("broken", "phase-layer", f"phase shifter on mode {i} realises {got[i]:.6g}, residual "
                                                     f"diagonal entry is {d:.6g}")
            elif abs(target - 1) > 1e-6 + tol:
                return ("broken", "phase-layer", f"no phase shifter on mode {i} although the residual diagonal "
                                                 f"entry is {d:.6g}")
        if phase:
            chk.branch("phase-layer")
    return None


# ------------------------------------------------------------------------------------------------
# generation
# ------------------------------------------------------------------------------------------------
KINDS = ["haar", "haar", "haar", "perm", "permphase", "blockdiag", "sparse", "sparse", "lowerband", "diag", "identity",
         "rowperm", "rowperm", "tiny", "tiny", "near", "near", "dust", "dust"]


def gen_spec(rng, max_n, i):
    r = rng.random()
    # thorough tier: the model's exact replay of a returned circuit (`fold`, one sequential Lean process, exact rationals
    # that grow with every cell) costs about 6x more per extra mode (n = 4: ~1 s, 5: ~7 s, 6: ~35 s on a Haar matrix), and
    # it - not the decompositions, which run in 14 processes - is what the wall time of the tier consists of: n = 6 is
    # kept as 2.5% of the cases, n = 5 as 25% (was 1/8 and 1/4 of 1500 cases: 26+ min of CPU in that one process; with
    # 400 cases and these shares about 7 min measured on a machine under load 60-80)
    n = rng.choice([2, 2, 3, 3, 3, 4, 4, 5] if max_n <= 5 else
                   [2] * 4 + [3] * 10 + [4] * 15 + [5] * 10 + [6])
    n = min(n, max_n)
    spec = {"n": n, "kind": rng.choice(KINDS), "seed": rng.randrange(1, 2 ** 30)}
    b = rng.random()
    if b < 0.30:
        spec["block"] = "mzi_last"
    elif b < 0.60:
        spec["block"] = "bs_ps"
    elif b < 0.72:
        spec["block"] = "bsphase_ps"
    elif b < 0.80:
        spec["block"] = "bsphase2_ps"
    elif b < 0.86:
        spec["block"] = "bsH_ps"
    elif b < 0.92:
        spec["block"] = "bsRy_ps"
    elif b < 0.97:
        spec["block"] = "bs"
    elif b < 0.985:
        spec["block"] = "mzi_first"
    else:
        spec["block"] = "bsH_phibl"
    if spec["block"] in ("bs", "mzi_first", "bsH_phibl"):
        # these mostly answer None after 10 full tries: keep them small, and give `bs` matrices it can do
        spec["n"] = min(spec["n"], 3)
        if spec["block"] == "bs":
            spec["kind"] = rng.choice(["perm", "identity", "haar", "sparse"])
    spec["phase"] = rng.random() < 0.6
    spec["perm"] = rng.random() < (0.7 if spec["kind"] in ("rowperm", "perm", "permphase") else 0.35)
    if rng.random() < 0.2:
        spec["ignore"] = False
    if rng.random() < 0.2:
        spec["v"] = True
    if rng.random() < 0.2:
        spec["h"] = True
    if rng.random() < 0.25:
        spec["merge"] = rng.choice([True, False])
    if rng.random() < 0.15:
        spec["precision"] = rng.choice([1e-7, 1e-5])
    if rng.random() < 0.07 and spec["block"] not in ("bs", "mzi_first", "bsH_phibl"):
        spec["precision"] = 1e-7
        spec["kind"] = "dust7"
        spec["n"] = max(spec["n"], 3)
    if rng.random() < 0.15 and spec["block"] not in ("bs",):
        # restrictive first, unrestricted fallback (a constraint has one entry per free parameter: 2 here)
        spec["constraints"] = rng.choice([[[None, 0], [None, None]], [[math.pi, None], [None, None]],
                                          [[None, None]], [[None, 0.5]]])
    if rng.random() < 0.24:
        full_constraint_scenario(rng, spec)
    elif rng.random() < 0.25:
        retry_scenario(rng, spec)
    if rng.random() < 0.12 and not spec.get("scenario"):
        spec["warmup"] = rng.choice(["other", "same"])
    if r < 0.05:
        spec["malformed"] = rng.choice(["nonunitary", "constraints", "shape", "rectangle"])
        spec["n"] = min(spec["n"], 3)
    return spec


def gen_exact_spec(rng, max_n):
    """a request of the run-level existence stream: one of the two universal blocks, any matrix kind, the closed-form
    solver plugged in (`exact`), the default precision or one at rounding level (1e-12: nothing but exact zeros and
    rounding dust is skipped, the returned matrix must be the requested one to 1e-11)"""
    spec = {"n": rng.choice([2, 3, 3, 4, 4, 5] if max_n <= 5 else [2] * 4 + [3] * 8 + [4] * 11 + [5] * 8 + [6]),
            "kind": rng.choice(KINDS + ["dust7"]),
            "seed": rng.randrange(1, 2 ** 30), "block": rng.choice(UNIVERSAL), "exact": True}
    spec["n"] = min(spec["n"], max_n)
    if spec["kind"] == "dust7":
        spec["n"] = max(spec["n"], 3)
    spec["phase"] = rng.random() < 0.7
    spec["perm"] = rng.random() < (0.7 if spec["kind"] in ("rowperm", "perm", "permphase") else 0.3)
    if rng.random() < 0.25:
        spec["ignore"] = False
    if rng.random() < 0.15:
        spec["v"] = True
    if rng.random() < 0.5:
        spec["precision"] = 1e-12
    if rng.random() < 0.15:
        spec["merge"] = False
    if rng.random() < 0.2:
        spec["max_try"] = 1
    return spec


NFREE = {"mzi_last": 2, "bs_ps": 2, "bs": 1, "bsphase_ps": 2, "bsH_ps": 2, "bsRy_ps": 2, "bsphase2_ps": 2,
         "mzi_first": 2, "bsH_phibl": 2, "bsH_fixed": 0, "bs_fixed": 0, "bsnp_ps": 2, "bs_psnp": 2, "mzi_np": 2, "bsHnp_ps": 2}
SPECIAL_ANGLES = [0.0, math.pi, math.pi / 2]


def rand_values(rng, k, special=0.15):
    """k imposed parameter values inside every parameter's range"""
    return [rng.choice(SPECIAL_ANGLES) if rng.random() < special else round(rng.uniform(0.2, 2.9), 3) for _ in range(k)]


def ncells_list(n, vals, rng=None, holes=0.0):
    return [None if (rng is not None and rng.random() < holes) else list(vals) for _ in range(ncells(n))]


def full_constraint_scenario(rng, spec):
    """Constraints (or blocks) that leave the numerical solver *no free parameter*: `solve` then only decides whether
    the imposed values null the targeted entry.  Shapes: a fully imposed entry alone on a matrix it does not solve
    (only None or a correct circuit is valid), the same followed by less restrictive fallbacks, matrices that ARE
    meshes of the block at the imposed values (the entry must be usable), meshes mixing two imposed settings, and
    blocks without any free parameter."""
    sc = rng.choice(["full-only", "full-only", "full-fallback", "full-fallback", "mesh-hit", "mesh-hit", "mesh-two",
                     "mesh-miss", "nofree-mesh", "nofree-other", "partial-values"])
    spec["scenario"] = sc
    spec["n"] = min(spec["n"], 4)
    for k in ("v", "h"):
        spec.pop(k, None)
    if sc.startswith("nofree"):
        spec["block"] = rng.choice(NO_FREE_PARAM)
        spec.pop("constraints", None)
        if rng.random() < 0.4:
            spec["constraints"] = [[]]
        if sc == "nofree-mesh":
            spec["kind"] = "mesh"
            ign = spec.get("ignore", True)
            spec["mesh"] = ncells_list(spec["n"], [], rng, holes=0.3 if ign else 0.0)
            spec["perm"] = False
        else:
            spec["kind"] = rng.choice(["haar", "identity", "perm", "sparse", "diag"])
            spec["max_try"] = 3
        return
    if spec["block"] in ("mzi_first", "bsH_phibl"):
        spec["block"] = "bs_ps"
    if rng.random() < 0.3:
        spec["block"] = "bs"
    if spec["block"] == "bs":
        spec["n"] = min(spec["n"], 3)
    k = NFREE[spec["block"]]
    free = [None] * k
    if sc == "full-only":
        if spec["kind"] in ("identity", "diag"):
            spec["kind"] = "haar"
        spec["constraints"] = [rand_values(rng, k) for _ in range(rng.choice([1, 1, 2]))]
        spec["max_try"] = rng.choice([1, 3])
    elif sc == "full-fallback":
        cons = [rand_values(rng, k, special=0.4)]
        if k == 2 and rng.random() < 0.6:
            part = rand_values(rng, k, special=0.4)
            part[rng.randrange(k)] = None
            cons.append(part)
        cons.append(free)
        spec["constraints"] = cons
    elif sc == "partial-values":
        part = rand_values(rng, k)
        part[rng.randrange(k)] = None
        spec["constraints"] = [part, free]
    else:
        vals = rand_values(rng, k, special=0.0)
        spec["kind"] = "mesh"
        ign = spec.get("ignore", True)
        if rng.random() < 0.7:
            spec["perm"] = False
        if sc == "mesh-hit":
            spec["mesh"] = ncells_list(spec["n"], vals, rng, holes=0.25 if ign else 0.0)
            spec["constraints"] = rng.choice([[vals], [rand_values(rng, k), vals], [vals, free]])
        elif sc == "mesh-two":
            other = rand_values(rng, k, special=0.0)
            spec["mesh"] = [list(rng.choice([vals, other])) for _ in range(ncells(spec["n"]))]
            spec["constraints"] = [vals, other]
        else:                                   # the matrix is a mesh at `vals`, the constraint imposes other values
            spec["mesh"] = ncells_list(spec["n"], vals)
            wrong = list(vals)
            w = rng.randrange(k)
            wrong[w] = round(wrong[w] + rng.choice([0.05, 0.5, 1e-3]), 4)
            spec["constraints"] = [wrong]
            spec["max_try"] = 2


def retry_scenario(rng, spec):
    """Requests on which single attempts of the retry loop FAIL SOMEWHERE IN THE MIDDLE and a later one succeeds: a
    block with a bounded non-periodic parameter (L-BFGS-B ends on a bound from an unlucky random start), matrices
    with enough cells to solve, a generous `max_try`.  Whatever happened in the abandoned attempts, the circuit
    finally returned must reproduce the requested matrix."""
    spec["scenario"] = "retry"
    spec["block"] = rng.choice(BOUNDED)
    spec["n"] = rng.choice([3, 3, 4]) if spec["n"] < 3 else min(spec["n"], 4)
    spec["kind"] = rng.choice(["haar", "haar", "haar", "sparse", "blockdiag", "rowperm", "lowerband", "near", "dust"])
    spec["max_try"] = rng.choice([8, 12, 12, 16])
    spec.pop("constraints", None)
    # inverse_h negates phases / Rx angles: not representable inside a non-periodic range that starts at 0 (the
    # parameter refuses the value, ValueError) — a contradictory request, not generated; inverse_v is, and inverse_h
    # with the block whose inverse stays in range
    if rng.random() < 0.3:
        spec["block"] = rng.choice(BOUNDED_H_OK)
        if rng.random() < 0.6:
            spec["h"] = True
    if spec["block"] not in BOUNDED_H_OK:
        spec.pop("h", None)
    else:
        spec.pop("v", None)          # BS.H: the vertical inverse is theta -> 2pi - theta, outside [0, pi]
    if rng.random() < 0.5:
        spec["phase"] = True
    if rng.random() < 0.15:
        k = NFREE[spec["block"]]
        part = rand_values(rng, k)
        part[rng.randrange(k)] = None
        spec["constraints"] = [part, [None] * k]


def expected_cost(spec):
    """rough relative cost, only used to start the long decompositions first"""
    c = ncells(spec["n"]) + 1
    if spec.get("scenario") == "retry":
        c *= 4
    elif spec.get("scenario"):
        c *= 0.5
    elif spec["block"] in ("bs", "mzi_first", "bsH_phibl"):
        c *= 10          # ten full tries before answering None
    if spec["block"] in ("bsphase_ps", "bsphase2_ps"):
        c *= 2
    if spec.get("warmup"):
        c *= 2
    if spec["kind"] in ("identity", "diag", "perm", "permphase") and spec.get("ignore", True):
        c *= 0.3
    return c


def small_entry_above_tolerance(spec):
    """the matrix handed to the elimination has an entry above its diagonal that is small (< 3e-3: a unitary can carry
    it next to a pivot whose modulus is within 1e-5 of 1) but larger than the tolerance of the direct oracle: treating
    it as negligible is visible in the returned matrix"""
    if spec.get("malformed"):
        return False
    u = pre_processed(spec, spec_matrix(spec))
    n = u.shape[0]
    lo = tol_of(spec)
    return any(lo * 2 < abs(u[i, j]) < 3e-3 for j in range(n) for i in range(j))


def signature(spec):
    return (spec["n"], spec["kind"], spec["block"], bool(spec.get("phase")), bool(spec.get("perm")),
            spec.get("ignore", True), bool(spec.get("v")), bool(spec.get("h")), spec.get("merge", True),
            json.dumps(spec.get("constraints")), spec.get("precision", 1e-6), spec.get("warmup"),
            bool(spec.get("exact")))


# ------------------------------------------------------------------------------------------------
def shrink(chk, spec, sig, pool_observe):
    """Greedy simplification of the options / size while the same failure signature persists."""
    cur = dict(spec)

    def fails(s):
        r = judge_quiet(chk, pool_observe(s))
        return r is not None and r[1] == sig

    budget = 6
    for key, val in (("merge", None), ("constraints", None), ("precision", None), ("ignore", None), ("perm", False),
                     ("v", False), ("h", False)):
        if budget <= 0:
            break
        if key in cur and cur[key] not in (None, False):
            cand = {k: x for k, x in cur.items() if k != key}
            if val is not None:
                cand[key] = val
            budget -= 1
            try:
                if fails(cand):
                    cur = cand
            except Exception:
                pass
    while cur["n"] > 2 and budget > 0:
        cand = dict(cur, n=cur["n"] - 1)
        budget -= 1
        try:
            if fails(cand):
                cur = cand
            else:
                break
        except Exception:
            break
    return cur


class _Quiet:
    """Check facade that swallows histogram updates during shrinking."""

    def __init__(self, chk):
        self.lean = chk.lean
        self.extra = {}

    def branch(self, *a, **k):
        pass

    def count(self, *a, **k):
        pass


def judge_quiet(chk, obs):
    return judge(_Quiet(chk), obs)


def handle(chk, obs, pool_observe=observe, do_shrink=True):
    spec = obs["spec"]
    chk.count("n", spec["n"])
    chk.count("kind", spec["kind"])
    chk.count("block", spec["block"])
    chk.count("options", "+".join(k for k in ("phase", "perm", "v", "h") if spec.get(k)) or "plain")
    if spec.get("ignore") is False:
        chk.branch("ignore-identity-off")
    if spec.get("merge") is False:
        chk.branch("merge-off")
    if spec.get("constraints") is not None:
        chk.branch("constraints")
        if full_entries(spec):
            chk.branch("constraint-full")
            chk.count("constraint_shape", "".join("F" if all(x is not None for x in c) else
                                                  ("N" if all(x is None for x in c) else "p")
                                                  for c in spec["constraints"]))
    if spec["block"] in NO_FREE_PARAM:
        chk.branch("block-no-free-param")
    if spec["block"] in BOUNDED:
        chk.branch("block-bounded-nonperiodic")
    if small_entry_above_tolerance(spec):
        hit(chk, obs, "small-entry-above-tolerance" + ("" if "flat" in obs else "-nocircuit"))
    if spec.get("precision") == 1e-7 and not spec.get("malformed") and "flat" in obs:
        up = pre_processed(spec, spec_matrix(spec))
        if any(1.5e-7 < abs(up[i, j]) < 9.5e-7 for j in range(spec["n"]) for i in range(j)):
            hit(chk, obs, "entry-between-requested-and-default-precision")
    if spec["kind"] == "mesh":
        chk.count("mesh", ("circuit" if "flat" in obs else "none" if obs.get("none") else "exc") + ":" +
                  spec.get("scenario", "?"))
    if spec.get("v"):
        chk.branch("inverse_v")
    if spec.get("h"):
        chk.branch("inverse_h")
    if not spec.get("phase"):
        chk.branch("no-phase-layer")
    res = judge(chk, obs)
    nontrivial = ("flat" in obs) and spec["n"] >= 3
    chk.case(signature(spec), nontrivial=nontrivial,
             sample={k: spec[k] for k in spec if k != "U"} | {"result": "None" if obs.get("none") else
                                                              obs.get("exc", f"{len(obs.get('flat', []))} leaves"),
                                                              "t": round(obs["t"], 2)})
    if res is not None:
        kind, sig, what = res
        chk.count("failures", f"{sig}|{spec['block']}|v={int(bool(spec.get('v')))} h={int(bool(spec.get('h')))}")
        # one defect, one report: a concrete failing input supersedes a bare model/code disagreement of the same signature
        if kind == "violation":
            chk.failures[:] = [f for f in chk.failures if not (f[0] == "broken" and f[1] == sig)]
        elif any(f[0] == "violation" and f[1] == sig for f in chk.failures):
            return
        first = not any(f[1] == sig for f in chk.failures)
        small = shrink(chk, spec, sig, pool_observe) if (do_shrink and first) else spec
        small = dict(small)
        small["U"] = [[(float(z.real), float(z.imag)) for z in row] for row in spec_matrix(small)]
        chk.fail(kind, sig, what + f" [block={small['block']} n={small['n']} kind={small['kind']} "
                                   f"options={ {k: small[k] for k in ('phase', 'perm', 'v', 'h', 'ignore', 'merge', 'constraints') if k in small} }]",
                 {"spec": small})


# ------------------------------------------------------------------------------------------------
# the solver's own bookkeeping: `solve.py: solve` against the Lean model `Model/C12Solve.lean`
# ------------------------------------------------------------------------------------------------
from fractions import Fraction  # noqa: E402

SOLVE_PREC = Fraction(1, 2 ** 20)          # dyadic, so that float and exact comparisons agree
SOLVE_COEFFS = [Fraction(0), Fraction(1, 2), Fraction(-1, 2), Fraction(1), Fraction(-1), Fraction(2), Fraction(3, 4),
                Fraction(-3, 2)]


# ------------------------------------------------------------------------------------------------
# round 8: the parameter plumbing between `solve` and the circuit (`Model/C12Inst.lean`): the `bounds` list built from
# the block's parameters, what reaches the minimiser after the imposed parameters were removed, and the instantiation
# `get_parameters()[0].fix_value(res[i])` of the copy that goes into the circuit
# ------------------------------------------------------------------------------------------------
INST_EXTRA_BLOCKS = ("bs_fixed_first", "bsnp_fixed_between")
INST_NFREE = dict(NFREE, bs_fixed_first=2, bsnp_fixed_between=2)
# the matrix is also handed over as a sympy-class Matrix (MatrixS) of plain numbers — what `circuit.U` is — and as one with a
# free symbol (must be refused)
INST_SYMBOLIC_CLASS = True
INST_OUTSIDE = [-1.3, 7.9, 15.2, -9.4, 26.0, 13.1, -0.05]


def make_inst_block(name):
    import perceval as pcvl
    from perceval.components import BS
    P = pcvl.P
    if name == "bs_fixed_first":       # the table starts with a FIXED parameter, the free ones are not adjacent
        return BS.H(theta=1.1, phi_bl=P("a"), phi_br=P("b"))
    if name == "bsnp_fixed_between":   # bounded non-periodic angle, a fixed parameter, then a free periodic phase
        th = P("theta", min_v=0, max_v=math.pi)
        b = BS.H(theta=th, phi_tl=0.3, phi_bl=P("phi"))
        th.set_periodic(False)
        return b
    return make_block(name)


def _param_table(comp):
    return [{"name": p.name, "free": not p.fixed, "val": (float(p) if p.defined else None),
             "lo": (None if p.min is None else float(p.min)), "hi": (None if p.max is None else float(p.max)),
             "per": bool(p.is_periodic)} for p in comp.get_parameters(all_params=True)]


def gen_inst_case(rng, i):
    scripted = [("bsnp_ps", "full-outside", True), ("bs_psnp", "partial-first", False), ("bsH_phibl", "full-outside", True),
                ("bs_fixed_first", "full", True), ("bsnp_fixed_between", "partial-second", False),
                ("mzi_np", "partial-second", False), ("bsnp_fixed_between", "full-outside", True),
                ("bs_psnp", "partial-outside", True), ("bs_ps", "free", False), ("mzi_last", "free", False)]
    matclass = "numeric"
    force_phase = False
    if i < len(scripted):
        blk, mode, allow = scripted[i]
        if i == 8:
            matclass, force_phase = "symdef", True
        if i == 9:
            matclass = "symfree"
    else:
        if INST_SYMBOLIC_CLASS:
            matclass = rng.choice(["numeric"] * 8 + ["symdef", "symfree"])
        pool = list(BOUNDED) + list(INST_EXTRA_BLOCKS) + ["bsH_phibl"] if rng.random() < 0.45 else BLOCK_NAMES
        blk = rng.choice(pool)
        mode = rng.choice(["free", "free", "partial-first", "partial-second", "full", "full-outside", "partial-outside"])
        allow = rng.random() < (0.6 if mode != "free" else 0.2)
    k = INST_NFREE[blk]

    def inside():
        return rng.uniform(0.1, 3.0)

    def outside():
        return rng.choice(INST_OUTSIDE) + rng.uniform(-0.01, 0.01)
    cons = None
    if k and mode != "free":
        if mode == "full":
            c = [inside() for _ in range(k)]
        elif mode == "full-outside":
            c = [inside() for _ in range(k)]
            c[rng.randrange(k)] = outside()
        elif mode == "partial-outside":
            c = [None] * k
            c[rng.randrange(k)] = outside()
        else:
            c = [None] * k
            c[0 if mode == "partial-first" else k - 1] = inside()
        cons = [c]
        if not allow and rng.random() < 0.5:
            cons.append([None] * k)          # a free fallback entry
    return {"block": blk, "n": rng.choice([2, 2, 3]), "kind": rng.choice(["haar", "haar", "perm", "sparse"]),
            "seed": rng.randrange(1, 2 ** 30), "phase": (rng.random() < 0.6) or force_phase, "ignore": rng.random() < 0.5,
            "cons": cons, "allow_error": bool(allow), "max_try": 3, "matclass": matclass}


def observe_inst(cse):
    import warnings
    warnings.filterwarnings("ignore")
    import perceval as pcvl
    from perceval.components import PS, PERM, Circuit
    import scipy.optimize as so
    t0 = time.time()
    out = {}
    block = make_inst_block(cse["block"])
    out["table"] = _param_table(block)
    u0 = make_matrix(cse["kind"], cse["n"], cse["seed"])
    kw = {"max_try": cse["max_try"], "allow_error": cse["allow_error"], "merge": False,
          "ignore_identity_block": cse["ignore"]}
    if cse["cons"] is not None:
        kw["constraints"] = [tuple(c) for c in cse["cons"]]
    if cse["phase"]:
        kw["phase_shifter_fn"] = PS
    attempts = []
    undo = []
    try:
        import perceval.components.linear_circuit as LC
        import perceval.utils.algorithms.solve as SM
        D = LC.decomposition
        orig_t, orig_s, orig_m = D.decompose_triangle, D.solve, so.minimize
        cur = {"solve": None}

        def hook_t(*a, **k):
            rec = {"calls": [], "ok": False}
            attempts.append(rec)
            r = orig_t(*a, **k)
            rec["ok"] = r is not None
            return r

        def hook_s(f, x0, constraint, bounds, *a, **k):
            rec = {"x0": [float(x) for x in x0], "cs": [None if c is None else float(c) for c in constraint],
                   "bounds": [None if b is None else [None if b[0] is None else float(b[0]),
                                                     None if b[1] is None else float(b[1])] for b in bounds],
                   "min": [], "res": None}
            if attempts:
                attempts[-1]["calls"].append(rec)
            prev, cur["solve"] = cur["solve"], rec
            try:
                r = orig_s(f, x0, constraint, bounds, *a, **k)
            finally:
                cur["solve"] = prev
            rec["res"] = None if r is None else [float(x) for x in r]
            return r

        def hook_m(fun, x0, *a, **k):
            if cur["solve"] is not None:
                b = k.get("bounds")
                cur["solve"]["min"].append({"x0": [float(x) for x in x0], "method": k.get("method"),
                                            "bounds": None if b is None else [[None if lo is None else float(lo),
                                                                              None if hi is None else float(hi)]
                                                                             for lo, hi in b]})
            return orig_m(fun, x0, *a, **k)

        D.decompose_triangle, D.solve, so.minimize = hook_t, hook_s, hook_m
        undo = [(D, "decompose_triangle", orig_t), (D, "solve", orig_s), (so, "minimize", orig_m)]
        if getattr(SM, "minimize", None) is orig_m:
            SM.minimize = hook_m
            undo.append((SM, "minimize", orig_m))
        out["hooked"] = True
    except Exception:
        out["hooked"] = False
    pcvl.random_seed(cse["seed"])
    mc = cse.get("matclass", "numeric")
    if mc == "numeric":
        arg = pcvl.Matrix(u0.copy())
    else:
        import sympy as sp
        arg = pcvl.Matrix([[complex(z) for z in row] for row in u0], use_symbolic=True)
        if mc == "symfree":
            arg[0, 0] = sp.Symbol("x")
    out["arg_class"] = type(arg).__name__
    out["arg_symbolic"] = bool(arg.is_symbolic())
    try:
        try:
            c = Circuit.decomposition(arg, block, **kw)
            out["result"] = "None" if c is None else "circuit"
        except Exception as e:
            c = None
            out["result"] = type(e).__name__
            out["msg"] = str(e)[:160]
    finally:
        for mod, name, val in undo:
            setattr(mod, name, val)
    out["attempts"] = attempts
    out["table_after"] = _param_table(block)
    if c is not None:
        comps = getattr(c, "_components", None)
        if comps is not None:
            out["blocks"] = [_param_table(cc) for r, cc in comps if len(r) == 2 and not isinstance(cc, PERM)]
        out["left_free"] = len(c.get_parameters())
        if cse["phase"] and not cse["allow_error"]:
            M = np.array(c.compute_unitary(), dtype=complex)
            out["dist"] = float(np.linalg.norm(M - u0))
    out["t"] = time.time() - t0
    return out


def _ratn(x):
    return None if x is None else core.rat(float(x))


def judge_inst(chk, cse, out):
    if not out.get("hooked"):
        return None                     # no observation: the required branches report the blind run
    table = out["table"]
    k = sum(1 for p in table if p["free"])
    cells = [{"free": p["free"], "val": _ratn(p["val"]), "lo": _ratn(p["lo"]), "hi": _ratn(p["hi"]), "per": p["per"]}
             for p in table]
    sig_case = f"{cse['block']}/{'free' if cse['cons'] is None else 'cons'}/{'ae' if cse['allow_error'] else 'strict'}"
    if out["table_after"] != table:
        return ("broken", "block-template-modified", f"the caller's block changed: {table} -> {out['table_after']}")
    free_idx = [i for i, p in enumerate(table) if p["free"]]
    if any(not table[j]["free"] for j in range(free_idx[0] if free_idx else 0, free_idx[-1] if free_idx else 0)) \
            or (free_idx and free_idx[0] > 0):
        chk.branch("inst:fixed-among-free")
    base = chk.lean.ask({"op": "inst", "cells": cells, "res": []})
    if "err" in base:
        return ("broken", "lean-inst", f"model rejected the template: {base['err']}")
    want_bounds = [None if b is None else [None if x is None else float(Fraction(x)) for x in b] for b in base["bounds"]]
    last_ok = None
    raised_in = None
    for ai, att in enumerate(out["attempts"]):
        for call in att["calls"]:
            # (1) the `bounds` list decompose_triangle hands to solve
            if call["bounds"] != want_bounds:
                return ("broken", "solve-bounds-wrong",
                        f"decompose_triangle passed bounds {call['bounds']} to solve; the parameters of the block are "
                        f"{[(p['name'], p['lo'], p['hi'], p['per']) for p in table if p['free']]}: expected {want_bounds}")
            if any(b is not None for b in want_bounds):
                chk.branch("inst:bounds-nonperiodic")
            if len(call["x0"]) != k or len(call["cs"]) != k:
                return ("broken", "solve-arity", f"solve called with {len(call['x0'])} starting values / "
                                                 f"{len(call['cs'])} constraint entries for {k} free parameters")
            # (2) what reaches the minimiser
            rep = chk.lean.ask({"op": "optargs", "x0": [core.rat(x) for x in call["x0"]], "bs": list(range(k)),
                                "cs": [_ratn(c) for c in call["cs"]]})
            if "err" in rep:
                return ("broken", "lean-inst", f"model rejected the solve call: {rep['err']}")
            mx0 = [float(Fraction(x)) for x in rep["x0"]]
            mb = [[None, None] if want_bounds[l] is None else want_bounds[l] for l in rep["bs"]]
            if not mx0:
                if call["min"]:
                    return ("broken", "minimiser-called-without-parameter",
                            f"every parameter imposed ({call['cs']}) but the minimiser was called: {call['min']}")
            else:
                if not call["min"]:
                    return ("broken", "minimiser-not-observed", f"solve({call['cs']}) returned without calling the minimiser")
                first = call["min"][0]
                if first["x0"] != mx0:
                    return ("broken", "minimiser-start-misaligned",
                            f"constraint {call['cs']}, x0 {call['x0']}: the minimiser started from {first['x0']}, "
                            f"model: {mx0}")
                for mc in call["min"]:
                    if mc["bounds"] != mb:
                        return ("broken", "minimiser-bounds-misaligned",
                                f"constraint {call['cs']}, bounds {call['bounds']}: the minimiser ({mc['method']}) was "
                                f"given bounds {mc['bounds']}, model: {mb}")
                chk.branch("inst:minimiser-compared")
                if len(mx0) < k:
                    chk.branch("inst:minimiser-partial")
                    if any(b != [None, None] for b in mb) or any(b is not None for b in want_bounds):
                        chk.branch("inst:minimiser-partial-bounded")
            if call["res"] is not None:
                if len(call["res"]) != k:
                    return ("broken", "solve-result-length", f"solve returned {len(call['res'])} values for {k} parameters")
                for c_, r_ in zip(call["cs"], call["res"]):
                    if c_ is not None and r_ != c_:
                        return ("broken", "imposed-value-not-returned", f"constraint {call['cs']} -> {call['res']}")
        if att["ok"]:
            last_ok = ai
    got = out["result"]
    # (0) which object the elimination runs on (`MatClass` of Model/C12Inst.lean; main model = repaired code)
    mc = cse.get("matclass", "numeric")
    if mc != "numeric":
        if not out.get("arg_symbolic"):
            raise RuntimeError(f"the harness did not build a symbolic-class matrix ({out.get('arg_class')})")
        rep = chk.lean.ask({"op": "matclass", "cls": mc, "repaired": True})
        pinned = chk.lean.ask({"op": "matclass", "cls": mc, "repaired": False})
        if "err" in rep or "err" in pinned:
            raise RuntimeError(rep.get("err") or pinned.get("err"))
        if not rep["passes"]:
            glue = chk.lean.ask({"op": "glue", "shape": {"str": "triangle"}, "unitary": False, "symbolic": True,
                                 "constraints": None if cse["cons"] is None else [k] * len(cse["cons"]), "nparams": k,
                                 "max_try": cse["max_try"], "attempts": []})
            if glue.get("outcome") != "ValueError":
                return ("broken", "lean-glue", f"glue model on a symbolic request: {glue}")
            if got != "ValueError" or out["attempts"]:
                return ("broken", "symbolic-matrix-not-refused",
                        f"a matrix with a free symbol gave {got} ({out.get('msg', '')}) after {len(out['attempts'])} attempt(s); "
                        f"the model says ValueError before any attempt")
            chk.branch("inst:symbolic-free-refused")
            return None
        if got not in ("circuit", "None"):
            if cse["phase"] and not pinned["readable"]:
                # the property evaluated directly: a unitary matrix (perceval's own Matrix class, what `circuit.U` is) was
                # requested and the call raised
                return ("violation", "symbolic-class-input-crashes",
                        f"Circuit.decomposition raised {got} ({out.get('msg', '')}) on a unitary {out.get('arg_class')} "
                        f"of plain numbers with a phase layer (block {cse['block']}, n = {cse['n']}): the validation looks at "
                        f"Matrix(U) but the elimination runs on the caller's sympy object")
    # (3) the instantiation of the solved blocks
    def model_inst(res):
        rep = chk.lean.ask({"op": "inst", "cells": cells, "res": [core.rat(x) for x in res]})
        if "err" in rep:
            raise RuntimeError(rep["err"])
        return rep["out"]
    # an attempt that raised: its last accepted solve result must be one the model refuses
    if got not in ("circuit", "None"):
        att = out["attempts"][-1] if out["attempts"] else None
        accepted = [c["res"] for c in att["calls"] if c["res"] is not None] if att else []
        # the loop stops at the first accepted answer of a cell: the raising one is the last accepted of the attempt
        if got == "ValueError" and accepted and model_inst(accepted[-1]) is None:
            chk.branch("inst:value-error")
            chk.count("inst", "ValueError as the model says")
            return None
        return ("violation", f"raises-{got}",
                f"Circuit.decomposition raised {got} ({out.get('msg', '')}) on block {cse['block']}, constraints "
                f"{cse['cons']}, allow_error={cse['allow_error']}; accepted solver results of the attempt: {accepted}")
    # every accepted result of every attempt is instantiated (abandoned attempts too): none may be refused by the model
    for att in out["attempts"]:
        cell_res = _cell_results(att)
        for res in cell_res:
            if model_inst(res) is None:
                return ("broken", "instantiation-should-raise",
                        f"the model of fix_value refuses {res} for {[(p['name'], p['lo'], p['hi'], p['per']) for p in table if p['free']]} "
                        f"but the call ended with {got}")
    if got == "None":
        chk.count("inst", "None")
        return None
    if "blocks" not in out:
        return None
    att = out["attempts"][last_ok] if last_ok is not None else None
    if att is None or last_ok != len(out["attempts"]) - 1:
        return ("broken", "decomposition-control-flow", "a circuit was returned but the last attempt did not succeed")
    cell_res = _cell_results(att)
    blocks = out["blocks"][::-1]          # the list is prepended: circuit order = reverse of the solving order
    if len(blocks) != len(cell_res):
        return ("broken", "block-count", f"{len(cell_res)} cells were solved, the circuit has {len(blocks)} blocks")
    worst = None
    for res, tb in zip(cell_res, blocks):
        want = model_inst(res)
        if want is None or len(want) != len(tb):
            worst = f"model {want}, circuit {tb}"
            break
        for w, g, tp in zip(want, tb, table):
            wv = None if w["val"] is None else float(Fraction(w["val"]))
            if w["free"] != g["free"] or (wv is None) != (g["val"] is None) or \
                    (wv is not None and not core.close(g["val"], wv)) or (g["lo"], g["hi"], g["per"]) != (tp["lo"], tp["hi"], tp["per"]):
                worst = (f"solver result {res}: parameter {tp['name']} of the block in the circuit is "
                         f"{'free' if g['free'] else 'fixed'} = {g['val']} (bounds {g['lo']}, {g['hi']}, periodic {g['per']}); "
                         f"model: {'free' if w['free'] else 'fixed'} = {wv}")
                break
        if worst:
            break
        if any(tp["free"] and abs(g["val"] - r) > 1e-6 for tp, g, r in
               zip([tp for tp in table if tp["free"]], [g for g, tp in zip(tb, table) if tp["free"]], res)):
            chk.branch("inst:wrapped")
    if worst is None and out.get("left_free"):
        worst = f"the returned circuit still has {out['left_free']} free parameter(s)"
    if worst:
        n = cse["n"]
        N = n * (n - 1) // 2
        bound = (math.sqrt(n - 1) + 2) * N * 1e-6 + n * (N * 1e-6) ** 2 + 1e-9
        if out.get("left_free") or ("dist" in out and out["dist"] > bound):
            return ("violation", "instantiated-block-wrong-parameters",
                    f"{worst}; ||circuit - U||_F = {out.get('dist')} (bound {bound:.3g}), free parameters left: {out.get('left_free')}")
        return ("broken", "instantiated-block-wrong-parameters", worst)
    if "dist" in out:
        n = cse["n"]
        N = n * (n - 1) // 2
        bound = (math.sqrt(n - 1) + 2) * N * 1e-6 + n * (N * 1e-6) ** 2 + 1e-9
        if out["dist"] > bound:
            return ("violation", "wrong-matrix", f"||circuit - U||_F = {out['dist']} > {bound:.3g} (block {cse['block']}, "
                                                 f"constraints {cse['cons']})")
    chk.branch("inst:compared")
    if mc == "symdef":
        chk.branch("inst:symbolic-class-numeric-content")
    chk.count("inst", "circuit compared")
    chk.case(sig_case, cse["n"] >= 3, None)
    return None


def _cell_results(att):
    """accepted solver results of one attempt, one per solved cell: the constraint loop stops at the first accepted
    entry, so every accepted call closes a cell"""
    return [c["res"] for c in att["calls"] if c["res"] is not None]


def handle_inst(chk, cse, out):
    try:
        r = judge_inst(chk, cse, out)
    except RuntimeError as e:
        r = ("broken", "lean-inst", f"model rejected a request: {e}")
    if r is not None:
        kind, sig, what = r
        chk.count("failures", sig)
        chk.fail(kind, sig, what, {"inst_case": cse})



def _dy(rng):
    return Fraction(rng.randint(-16, 16), 8)


def gen_solve_case(rng):
    """f(x) = |b + Σ aᵢ·xᵢ| with small dyadic coefficients (float arithmetic on them is exact), a constraint that imposes
    all / some / none of the parameters, and b placed so that the imposed values are a root, a near-root (2^-30), on
    the threshold, or not a root."""
    k = rng.choice([0, 1, 1, 2, 2, 2, 3])
    a = [rng.choice(SOLVE_COEFFS) for _ in range(k)]
    shape = rng.choice(["all", "all", "mixed", "mixed", "none"])
    if shape == "all":
        cs = [_dy(rng) for _ in range(k)]
    elif shape == "none":
        cs = [None] * k
    else:
        cs = [(_dy(rng) if rng.random() < 0.5 else None) for _ in range(k)]
    x0 = [_dy(rng) for _ in range(k)]
    point = [c if c is not None else _dy(rng) for c in cs]
    delta = rng.choice([Fraction(0), Fraction(0), Fraction(1, 2 ** 30), SOLVE_PREC, Fraction(1, 2 ** 19),
                        Fraction(1, 2 ** 10), Fraction(1, 4), Fraction(1), Fraction(3)]) * rng.choice([1, -1])
    b = -sum((ai * xi for ai, xi in zip(a, point)), Fraction(0)) + delta
    return {"a": [str(x) for x in a], "b": str(b), "x0": [str(x) for x in x0],
            "cs": [None if c is None else str(c) for c in cs], "allow": rng.random() < 0.1,
            "bounds": rng.random() < 0.2}


def observe_solve(cases):
    """Run the real `solve` on every case (in a worker). Plain data out."""
    import warnings
    warnings.filterwarnings("ignore")
    from perceval.utils.algorithms.solve import solve
    outs = []
    for cse in cases:
        a = [float(Fraction(x)) for x in cse["a"]]
        b = float(Fraction(cse["b"]))

        def f(x, a=a, b=b):
            return abs(b + sum(ai * float(xi) for ai, xi in zip(a, x)))
        x0 = [float(Fraction(x)) for x in cse["x0"]]
        cs = [None if c is None else float(Fraction(c)) for c in cse["cs"]]
        bounds = [((-8.0, 8.0) if cse.get("bounds") else None) for _ in x0]
        try:
            res = solve(f, list(x0), list(cs), bounds, float(SOLVE_PREC), cse.get("allow", False))
            outs.append({"res": None if res is None else [float(v) for v in res]})
        except Exception as e:  # a Python exception of the code under test on a legal input is a finding
            outs.append({"exc": type(e).__name__, "msg": str(e)[:200]})
    return outs


def judge_solve(chk, cse, out):
    """-> None or (kind, signature, text)"""
    a = [Fraction(x) for x in cse["a"]]
    b = Fraction(cse["b"])
    cs = [None if c is None else Fraction(c) for c in cse["cs"]]
    x0 = [Fraction(x) for x in cse["x0"]]
    k = len(cs)
    allow = bool(cse.get("allow"))
    free = [i for i, c in enumerate(cs) if c is None]
    eff_free = [i for i in free if a[i] != 0]

    def F(x):
        return abs(b + sum((ai * xi for ai, xi in zip(a, x)), Fraction(0)))
    if "exc" in out:
        return ("broken", "solve-raises-" + out["exc"], f"solve raised {out['exc']}: {out.get('msg')}")
    shape = "empty" if k == 0 else ("all-imposed" if not free else ("free" if len(free) == k else "partial"))
    res = out["res"]
    req = {"op": "solve", "a": cse["a"], "b": cse["b"], "x0": cse["x0"], "cs": cse["cs"], "prec": core.rat(SOLVE_PREC),
           "allow": allow}
    if res is None:
        chk.count("solve", shape + ":none")
        if not free:
            chk.branch("solve-all-imposed-reject")
        if eff_free:
            # the minimiser gave up although a root exists: allowed ("returns nothing"), nothing to compare
            chk.count("solve", "none-although-root-exists")
            return None
        point = [c if c is not None else x0[i] for i, c in enumerate(cs)]
        if F(point) <= SOLVE_PREC or allow:
            return ("broken", "solve-rejects-root",
                    f"solve returned None although f = {float(F(point)):.3g} <= precision at the imposed values {cse['cs']}")
        rep = chk.lean.ask(dict(req, opt=[core.rat(x0[i]) for i in free]))
        if "err" in rep:
            return ("broken", "lean-solve", f"model rejected the request: {rep['err']}")
        if not rep.get("none"):
            return ("broken", "solve-model-disagreement", f"code returned None, model returns {rep.get('res')}")
        return None
    chk.count("solve", shape + ":result")
    rq = [Fraction(*float(v).as_integer_ratio()) for v in res]
    if len(rq) != k:
        return ("broken", "solve-result-length", f"solve returned {len(rq)} values for {k} parameters")
    for i, c in enumerate(cs):
        if c is not None and rq[i] != c:
            return ("broken", "solve-imposed-value-moved",
                    f"imposed value {float(c)} of parameter {i} came back as {res[i]} (constraint {cse['cs']})")
    fx = F(rq)
    if not allow and fx > SOLVE_PREC * (1 + Fraction(1, 10 ** 9)):
        return ("broken", "solve-accepts-nonroot",
                f"solve returned {res} with f = {float(fx):.3g} > precision = {float(SOLVE_PREC):.3g} "
                f"(constraint {cse['cs']}, {len(free)} free parameter(s))")
    if not free:
        chk.branch("solve-all-imposed-accept" if k else "solve-no-parameter")
    elif len(free) < k:
        chk.branch("solve-partial")
    else:
        chk.branch("solve-free")
    rep = chk.lean.ask(dict(req, opt=[core.rat(rq[i]) for i in free]))
    if "err" in rep:
        return ("broken", "lean-solve", f"model rejected the request: {rep['err']}")
    if rep.get("none"):
        if abs(fx - SOLVE_PREC) <= SOLVE_PREC * Fraction(1, 10 ** 6):
            chk.count("solve", "threshold")
            return None
        return ("broken", "solve-model-disagreement", f"code returned {res}, model returns None (f = {float(fx):.3g})")
    if [Fraction(x) for x in rep["res"]] != rq:
        return ("broken", "solve-model-disagreement", f"code returned {res}, model {rep['res']}")
    return None


def handle_solve(chk, cse, out):
    r = judge_solve(chk, cse, out)
    if r is not None:
        kind, sig, what = r
        chk.count("failures", sig)
        chk.fail(kind, sig, what, {"solve_case": cse})


def load_corpus():
    out = []
    for p in sorted(glob.glob(os.path.join(core.VERIF, "corpus", "C12", "*.json"))):
        out.append(json.load(open(p))["spec"])
    return out


def _init_worker():
    import warnings
    warnings.filterwarnings("ignore")
    import perceval  # noqa: F401  (pay the import once per process)


def run(chk: core.Check):
    chk.rule = ("random configurations (matrix kind × size × block × phase layer × PERM substitution × "
                "ignore_identity_block × inverse_v/h × merge × constraints (free / partial / fully imposed, alone or with "
                "fallbacks, on Haar matrices and on meshes of the block at the imposed values) × precision × blocks with a bounded "
                "non-periodic parameter and max_try 8..16 (retry loop) × reuse of the block / Matrix object); distinct = "
                "distinct option signatures; non-trivial = a circuit was returned for n ≥ 3; plus direct calls of "
                "solve.py: solve compared with its Lean model (extra.solve_cases); plus the two universal blocks at rational "
                "points of the unit circle (compute_unitary and the first row of component.U.inv() against "
                "Model/C12Block.lean, exactly) and at the closed-form parameters of the existence theorems for random and "
                "axis-aligned (a, b) (extra.block_cases); plus requests exercising the glue of Circuit.decomposition (shape "
                "strings / enum members / foreign objects × non-unitary input × constraints of every malformed kind × "
                "max_try <= 0 × allow_error) whose outcome (exception class / None / circuit and the attempt it came from) "
                "is compared with Model/C12Glue.lean (extra.glue_cases); plus runs of Circuit.decomposition in which "
                "decomposition.solve is replaced by the closed form of the existence theorems (extra.exact_run_cases: the "
                "run-level existence theorem on the real bookkeeping — one attempt, every cell nulled to 1e-12, the matrix "
                "reproduced to 1e-11 at precision 1e-12); plus BS(theta) alone and catalog['mzi phase first'] at rational "
                "points, on cells built nullable (closed-form root on the real equation) and on cells the model says no "
                "parameter value nulls (the real solve must answer None) (extra.other_block_cases); plus runs of "
                "Circuit.decomposition (merge=False, n = 2..3, constraints free / partial / fully imposed / imposed outside the "
                "period or the bounds, allow_error on/off, numeric and sympy-class matrices) in which every call of "
                "decomposition.solve and of scipy.optimize.minimize is recorded: the bounds list, what reaches the minimiser "
                "and the parameter table of every block of the returned circuit against Model/C12Inst.lean (extra.inst_cases)")
    chk.assumptions = [
        "block matrices and the phase shifters' matrices are taken from each leaf's own compute_unitary() (C14)",
        "allow_error=True voids the precision guarantee by design: it is exercised for the control flow (glue cases) and "
        "for the parameter plumbing (inst cases: the solver result is then the imposed vector), never for the matrix",
        "inst cases read the blocks of the returned circuit through Circuit._components (merge=False) and the parameter "
        "tables through get_parameters(all_params=True); the hooks on decomposition.solve / scipy.optimize.minimize call "
        "the originals unchanged",
        "existence (a circuit is found within max_try=10) is claimed only for catalog['mzi phase last'] and "
        "BS(theta)//PS(phi) with an unrestricted constraint; it is validated by sampling, not proved",
        "tolerance of the direct oracle = the proved bound (sqrt(n-1)+2)·N·precision + n·(N·precision)² + 1e-9 "
        "(decomposition_error_bound_precision; N = n(n-1)/2); its hypotheses (unitary blocks, every overwritten entry "
        "<= precision) are re-evaluated on every returned circuit by the model's replay",
        "existence theorems are over the reals/complex numbers (exact arithmetic): that scipy's minimiser FINDS the root "
        "is validated by sampling only",
        "the numerical minimiser inside solve is an oracle of the solve model (its observed result is replayed); "
        "res.fun is taken to be f(res.x)",
        "blocks with a bounded non-periodic parameter (used to make single attempts of the retry loop fail) are combined "
        "only with the inversion options whose inverted component stays inside the declared range (Rx blocks: inverse_v; "
        "the BS.H block: inverse_h); otherwise Parameter refuses the value (ValueError), a contradictory request",
        "the attempts of the retry loop are observed through wrappers around decomposition.decompose_triangle / "
        "decomposition.solve that call the original functions unchanged",
        "in the `exact` runs decomposition.solve is REPLACED by the closed-form solver (it is handed the same g, reads |a|, "
        "|b|, a·conj(b) off four values of g and applies solve's own acceptance test); a failure there is a model/code "
        "disagreement, not a failing input of the property",
        "the relaxed nullability test on solved cells of BS(theta) / 'mzi phase first' circuits is a per-instance check "
        "with a hand-derived tolerance (the exact criterion is the Lean theorem)",
    ]
    chk.required_branches = ["circuit", "none", "solved-block", "identity-skip", "perm-substitution", "phase-layer",
                             "no-phase-layer", "inverse_v", "inverse_h", "ignore-identity-off", "merge-off",
                             "constraints", "rejected", "perm-wide",
                             # the solver's path without any free parameter left (x0 == []): accepted, rejected,
                             # rejected with a later entry taken, and blocks without free parameters
                             "constraint-full", "constraint-full-used", "constraint-full-none",
                             "constraint-full-rejected-then-fallback", "block-no-free-param",
                             "no-free-param-circuit",
                             # matrices that are nearly but not exactly structured (first-order small entries)
                             "small-entry-above-tolerance",
                             # the retry loop: an attempt abandoned after it had solved cells, then a successful one;
                             # in-place writes into the array shared by the attempts; a long-lived block object
                             "block-bounded-nonperiodic", "retry-then-circuit", "retry-after-partial-attempt",
                             "negligible-entries-in-leading-skips", "block-reused",
                             # … and the same shapes out of the random generator, not only from the corpus
                             "small-entry-above-tolerance/generated", "retry-then-circuit/generated",
                             "retry-after-partial-attempt/generated", "negligible-entries-in-leading-skips/generated",
                             "block-reused/generated",
                             # solve.py itself against its Lean model
                             "solve-all-imposed-accept", "solve-all-imposed-reject", "solve-no-parameter",
                             "solve-partial", "solve-free",
                             # the existence clause: the block family and the equation against the Lean model, the closed
                             # form as a root of the real equation, the optimiser's parameters against the closed form
                             "blockmat:bs_ps", "blockmat:mzi_last", "closed-form-root:bs_ps", "closed-form-root:mzi_last",
                             "closed-form-compared:bs_ps", "closed-form-compared:mzi_last",
                             "closed-form-compared:bs_ps/generated", "closed-form-compared:mzi_last/generated",
                             # the perturbation bound evaluated on the instance
                             "bound-compared", "earlier-full-constraint-rejected/generated",
                             # the glue of Circuit.decomposition: every outcome of its control flow
                             "glue:ValueError", "glue:AssertionError", "glue:NotImplementedError", "glue:None",
                             "glue:circuit", "glue:allow-error", "glue:max-try-zero",
                             # a requested precision below the default one, with entries between the two
                             "entry-between-requested-and-default-precision/generated",
                             # the run-level existence theorem on the real bookkeeping (closed form instead of scipy)
                             "exact-run:mzi_last/generated", "exact-run:bs_ps/generated",
                             "exact-run-tight-precision/generated",
                             # the two characterised non-universal blocks: family, nullable and unsolvable cells
                             "blockmat:bs", "blockmat:mzi_first", "closed-form-root:bs", "closed-form-root:mzi_first",
                             "unsolvable-cell:bs", "unsolvable-cell:mzi_first",
                             # round 8: bounds list, what reaches the minimiser, instantiation of the solved blocks
                             "inst:compared", "inst:fixed-among-free", "inst:bounds-nonperiodic", "inst:minimiser-compared",
                             "inst:minimiser-partial", "inst:minimiser-partial-bounded", "inst:wrapped", "inst:value-error",
                             "inst:symbolic-class-numeric-content", "inst:symbolic-free-refused"]
    chk.lean = core.LeanDriver("C12")
    rng = chk.rng
    n_cases = chk.pick(200, 400)
    max_n = chk.pick(5, 6)
    specs = load_corpus()
    ncorpus = len(specs)
    for i in range(n_cases):
        specs.append(gen_spec(rng, max_n, i))
    # longest first inside the pool would be nicer, but order = determinism of the report; chunksize 1
    procs = min(14, os.cpu_count() or 4)
    t0 = time.time()
    with mp.get_context("fork").Pool(procs, initializer=_init_worker) as pool:
        def pool_observe(s):
            return pool.apply(observe, (s,))
        tsum = 0.0
        by_block = {}
        order = sorted(range(len(specs)), key=lambda i: -expected_cost(specs[i]))
        pending = {i: pool.apply_async(observe, (specs[i],)) for i in order}
        solve_cases = [gen_solve_case(rng) for _ in range(chk.pick(150, 600))]
        nchunk = 10
        solve_pending = [pool.apply_async(observe_solve, (solve_cases[c::nchunk],)) for c in range(nchunk)]
        block_cases = [gen_block_case(rng) for _ in range(chk.pick(120, 480))]
        block_pending = [pool.apply_async(observe_blocks, (block_cases[c::4],)) for c in range(4)]
        glue_cases = [gen_glue_case(rng) for _ in range(chk.pick(120, 400))]
        glue_pending = [pool.apply_async(observe_glue, (g,)) for g in glue_cases]
        exact_specs = [gen_exact_spec(rng, max_n) for _ in range(chk.pick(40, 80))]
        exact_pending = [pool.apply_async(observe, (e,)) for e in exact_specs]
        other_cases = [gen_other_block_case(rng) for _ in range(chk.pick(60, 240))]
        other_pending = [pool.apply_async(observe_blocks, (other_cases[c::4],)) for c in range(4)]
        inst_cases = [gen_inst_case(rng, i) for i in range(chk.pick(60, 200))]
        inst_pending = [pool.apply_async(observe_inst, (g,)) for g in inst_cases]
        for i in range(len(specs)):
            obs = pending.pop(i).get()
            if i < ncorpus:
                obs["from_corpus"] = True
            tsum += obs["t"]
            key = specs[i]["block"] + (":none" if obs.get("none") else "")
            by_block[key] = round(by_block.get(key, 0.0) + obs["t"], 1)
            handle(chk, obs, pool_observe)
        chk.extra["cpu_s_by_block"] = by_block
        for c in range(nchunk):
            for cse, out in zip(solve_cases[c::nchunk], solve_pending[c].get()):
                handle_solve(chk, cse, out)
        chk.extra["solve_cases"] = len(solve_cases)
        for c in range(4):
            for cse, out in zip(block_cases[c::4], block_pending[c].get()):
                handle_block(chk, cse, out)
        chk.extra["block_cases"] = len(block_cases)
        for g, pend in zip(glue_cases, glue_pending):
            handle_glue(chk, g, pend.get())
        chk.extra["glue_cases"] = len(glue_cases)
        for pend in exact_pending:
            handle(chk, pend.get(), pool_observe)
        chk.extra["exact_run_cases"] = len(exact_specs)
        for c in range(4):
            for cse, out in zip(other_cases[c::4], other_pending[c].get()):
                handle_block(chk, cse, out)
        chk.extra["other_block_cases"] = len(other_cases)
        tinst = 0.0
        for g, pend in zip(inst_cases, inst_pending):
            o = pend.get()
            tinst += o["t"]
            handle_inst(chk, g, o)
        chk.extra["inst_cases"] = len(inst_cases)
        chk.extra["inst_cpu_s"] = round(tinst, 1)
    chk.extra["decomposition_cpu_s"] = round(tsum, 1)
    chk.extra["pool_wall_s"] = round(time.time() - t0, 1)
    chk.extra["corpus_cases"] = ncorpus


def replay(chk, data):
    chk.lean = core.LeanDriver("C12")
    chk.rule = "replay of one stored configuration"
    if "glue_case" in data["replay"]:
        cse = data["replay"]["glue_case"]
        handle_glue(chk, cse, observe_glue(cse))
        return
    if "block_case" in data["replay"]:
        cse = data["replay"]["block_case"]
        handle_block(chk, cse, observe_blocks([cse])[0])
        return
    if "inst_case" in data["replay"]:
        cse = data["replay"]["inst_case"]
        handle_inst(chk, cse, observe_inst(cse))
        return
    if "solve_case" in data["replay"]:
        cse = data["replay"]["solve_case"]
        handle_solve(chk, cse, observe_solve([cse])[0])
        return
    spec = data["replay"]["spec"]
    handle(chk, observe(spec), do_shrink=False)
