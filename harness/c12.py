"""C12 — a unitary decomposition, when returned, reproduces the requested matrix.

For every generated configuration the REAL `Circuit.decomposition(U, block, …)` is run (in a process pool; a
decomposition costs 0.3–6 s of sympy/scipy).  A returned circuit is

* checked directly on the implementation (numpy, independent of Lean): the ordered product of the leaves' own
  matrices equals `U` within `precision·c` when the phase layer is requested, and equals `U·diag` (`diag·U` with
  `inverse_h`) with unit-modulus diagonal otherwise; the circuit consists only of copies of the block, the
  phase layer and PERMs;
* sent leaf by leaf, as exact dyadic rationals, to the Lean model (`Model/C12.lean`), which (a) computes the exact
  product, (b) undoes `C.inverse(v,h)` exactly and replays the bookkeeping of `decompose_triangle` on the
  pre-processed matrix with the observed blocks as solver results: the predicted component list (block / PERM
  positions, order, PERM lists), the number of unused blocks, the flat structure predicted by the model of
  `Circuit.inverse`, the final diagonal (against the observed phase layer), the off-diagonal residue and the
  ghost error term are compared with what the code returned.

`None` is counted; it is a violation only for the blocks the elimination scheme is documented with
(`catalog["mzi phase last"]`, `BS(θ)//PS(φ)`), with unrestricted constraints.
"""
from __future__ import annotations

import copy
import glob
import json
import math
import multiprocessing as mp
import os
import time

# one BLAS/OpenMP thread per process: the matrices are at most 7x7 and the pool already uses every core
for _v in ("OMP_NUM_THREADS", "OPENBLAS_NUM_THREADS", "MKL_NUM_THREADS", "NUMEXPR_NUM_THREADS"):
    os.environ.setdefault(_v, "1")

import numpy as np  # noqa: E402

from . import core

UNIVERSAL = ("mzi_last", "bs_ps")
BLOCK_NAMES = ["mzi_last", "bs_ps", "bs", "bsphase_ps", "bsH_ps", "bsRy_ps", "bsphase2_ps", "mzi_first", "bsH_phibl"]


# ------------------------------------------------------------------------------------------------
# building things from a spec (used in the workers and for replay)
# ------------------------------------------------------------------------------------------------
def make_block(name):
    import perceval as pcvl
    from perceval.components import BS, PS
    P = pcvl.P
    if name == "mzi_last":
        return pcvl.catalog["mzi phase last"].build_circuit()
    if name == "mzi_first":
        return pcvl.catalog["mzi phase first"].build_circuit()
    if name == "bs_ps":
        return BS(theta=P("theta")) // PS(phi=P("phi"))
    if name == "bs":
        return BS(theta=P("theta"))
    if name == "bsphase_ps":          # a block carrying a BS phase (the C11 trigger under inverse_h / inverse_v)
        return BS(theta=P("theta"), phi_tr=0.37) // PS(phi=P("phi"))
    if name == "bsphase2_ps":
        return BS.H(theta=P("theta"), phi_tl=0.9, phi_br=-0.4) // (1, PS(phi=P("phi")))
    if name == "bsH_ps":
        return BS.H(theta=P("theta")) // PS(phi=P("phi"))
    if name == "bsRy_ps":
        return BS.Ry(theta=P("theta")) // (1, PS(phi=P("phi")))
    if name == "bsH_phibl":
        return BS.H(theta=P("theta"), phi_bl=P("phi"))
    raise ValueError(name)


def haar(rs, n):
    z = (rs.standard_normal((n, n)) + 1j * rs.standard_normal((n, n))) / math.sqrt(2)
    q, r = np.linalg.qr(z)
    d = np.diag(r)
    return q * (d / np.abs(d))


def unit_phase(rs):
    k = rs.randint(0, 6)
    return [1, -1, 1j, -1j][k] if k < 4 else np.exp(1j * rs.uniform(0, 2 * math.pi))


def make_matrix(kind, n, seed):
    """Deterministic numpy matrix for (kind, n, seed); exact zeros / ones where the kind says so."""
    rs = np.random.RandomState(seed % (2 ** 31))
    if kind == "haar":
        return haar(rs, n)
    if kind == "identity":
        return np.eye(n, dtype=complex)
    if kind == "perm":
        p = rs.permutation(n)
        u = np.zeros((n, n), dtype=complex)
        for i in range(n):
            u[p[i], i] = 1
        return u
    if kind == "permphase":
        u = make_matrix("perm", n, seed + 1)
        return u @ np.diag([unit_phase(rs) for _ in range(n)])
    if kind == "diag":
        return np.diag([unit_phase(rs) for _ in range(n)]).astype(complex)
    if kind == "blockdiag":
        u = np.zeros((n, n), dtype=complex)
        i = 0
        while i < n:
            k = min(n - i, int(rs.randint(1, 4)))
            u[i:i + k, i:i + k] = haar(rs, k) if k > 1 else unit_phase(rs)
            i += k
        return u
    if kind == "sparse":     # product of a few embedded 2x2 blocks: many exact zeros, some already-eliminated cells
        u = np.diag([unit_phase(rs) for _ in range(n)]).astype(complex)
        for _ in range(int(rs.randint(1, n + 1))):
            o = int(rs.randint(0, n - 1))
            e = np.eye(n, dtype=complex)
            e[o:o + 2, o:o + 2] = haar(rs, 2)
            u = e @ u
        return u
    if kind == "rowperm":    # rows of a block-diagonal matrix shuffled: zeros *below* non-zero entries of a column,
        u = make_matrix("blockdiag", n, seed + 7)        # the input of the wide PERM substitution ([d,1,…,d-1,0])
        return u[rs.permutation(n), :]
    if kind == "tiny":       # rotations by tiny angles: entries on both sides of the `precision` threshold
        u = np.diag([unit_phase(rs) for _ in range(n)]).astype(complex)
        for _ in range(int(rs.randint(1, n + 2))):
            o = int(rs.randint(0, n - 1))
            t = 10 ** rs.uniform(-8, -2)
            ph = np.exp(1j * rs.uniform(0, 2 * math.pi))
            e = np.eye(n, dtype=complex)
            e[o:o + 2, o:o + 2] = [[math.cos(t), -math.sin(t) * np.conj(ph)], [math.sin(t) * ph, math.cos(t)]]
            u = e @ u
        return u
    if kind == "lowerband":  # lower-Hessenberg-like: products of blocks in elimination order, zeros in the upper part
        u = np.eye(n, dtype=complex)
        for o in range(n - 2, -1, -1):
            if rs.rand() < 0.7:
                e = np.eye(n, dtype=complex)
                e[o:o + 2, o:o + 2] = haar(rs, 2)
                u = u @ e
        return u
    raise ValueError(kind)


def spec_matrix(spec):
    if "U" in spec:
        return np.array([[complex(a, b) for a, b in row] for row in spec["U"]], dtype=complex)
    return make_matrix(spec["kind"], spec["n"], spec["seed"])


def ncells(n):
    return n * (n - 1) // 2


# ------------------------------------------------------------------------------------------------
# worker: run the real code
# ------------------------------------------------------------------------------------------------
def _leaf_dict(r, c, with_u=True):
    from perceval.components import PERM
    d = {"off": int(r[0]), "w": len(r), "kind": type(c).__name__, "U": None}
    if with_u:
        u = np.array(c.compute_unitary(), dtype=complex)
        d["U"] = [[(float(z.real), float(z.imag)) for z in row] for row in u]
    if isinstance(c, PERM):
        d["perm"] = [int(x) for x in c.perm_vector]
    try:
        d["params"] = {p.name: (float(p) if p.defined else None) for p in c.get_parameters(all_params=True)}
    except Exception:
        d["params"] = {}
    return d


def observe(spec):
    """Run `Circuit.decomposition` on the spec. Everything returned is plain data."""
    import warnings
    warnings.filterwarnings("ignore")
    import perceval as pcvl
    from perceval.components import PS, PERM, Circuit
    t0 = time.time()
    out = {"spec": spec}
    try:
        block = make_block(spec["block"])
        if isinstance(block, Circuit):
            out["pattern"] = [_leaf_dict(r, c, False) for r, c in block]
        else:
            out["pattern"] = [_leaf_dict(tuple(range(block.m)), block, False)]
        u0 = spec_matrix(spec)
        if spec.get("malformed") == "nonunitary":
            u0 = u0.copy()
            u0[0, 0] += 0.25
        kw = {}
        if spec.get("phase"):
            kw["phase_shifter_fn"] = PS
        if spec.get("perm"):
            kw["permutation"] = PERM
        if spec.get("v"):
            kw["inverse_v"] = True
        if spec.get("h"):
            kw["inverse_h"] = True
        if spec.get("constraints") is not None:
            kw["constraints"] = [tuple(c) for c in spec["constraints"]]
        if spec.get("malformed") == "constraints":
            kw["constraints"] = [(None, None, None, None, None)]
        if spec.get("malformed") == "shape":
            kw["shape"] = "hexagon"
        if spec.get("malformed") == "rectangle":
            kw["shape"] = "rectangle"
        if "merge" in spec:
            kw["merge"] = spec["merge"]
        if "precision" in spec:
            kw["precision"] = spec["precision"]
        if "ignore" in spec:
            kw["ignore_identity_block"] = spec["ignore"]
        if "max_try" in spec:
            kw["max_try"] = spec["max_try"]
        pcvl.random_seed(spec["seed"])
        arg = pcvl.Matrix(u0.copy())
        c = Circuit.decomposition(arg, block, **kw)
        out["input_changed"] = bool(np.max(np.abs(np.array(arg, dtype=complex) - u0)) > 0)
        if c is None:
            out["none"] = True
        else:
            out["m"] = c.m
            out["flat"] = [_leaf_dict(r, cc) for r, cc in c]
            out["M_code"] = [[(float(z.real), float(z.imag)) for z in row]
                             for row in np.array(c.compute_unitary(), dtype=complex)]
            out["ntop"] = len(list(c._components)) if hasattr(c, "_components") else None
    except (AssertionError, ValueError, NotImplementedError, RuntimeError, TypeError) as e:
        out["exc"] = type(e).__name__
        out["msg"] = str(e)[:200]
    out["t"] = time.time() - t0
    return out


# ------------------------------------------------------------------------------------------------
# judging one observation
# ------------------------------------------------------------------------------------------------
def cm(rows):
    return np.array([[complex(a, b) for a, b in row] for row in rows], dtype=complex)


def numpy_product(flat, m):
    u = np.eye(m, dtype=complex)
    for lf in flat:
        e = np.eye(m, dtype=complex)
        o, w = lf["off"], lf["w"]
        e[o:o + w, o:o + w] = cm(lf["U"])
        u = e @ u
    return u


def tol_of(spec):
    """`precision · c`: every cell leaves a residue ≤ precision that is overwritten by 0; blocks are unitary, so
    the accumulated error is ≤ (#cells)·precision in operator norm, and the lower-triangular residue of the final
    u is of the same order.  c = 4·(#cells + 1)."""
    return spec.get("precision", 1e-6) * 4 * (ncells(spec["n"]) + 1)


def direct_oracle(spec, U, M):
    """The property evaluated on the implementation. -> (ok, signature, text)"""
    tol = tol_of(spec)
    inv = bool(spec.get("v") or spec.get("h"))
    if M.shape != U.shape:
        return False, "wrong-size", f"circuit has {M.shape[0]} modes, matrix {U.shape[0]}"
    if spec.get("phase"):
        err = float(np.max(np.abs(M - U)))
        if err > tol:
            return (False, "inverse-option-wrong-matrix" if inv else "matrix-mismatch",
                    f"max |M - U| = {err:.3g} > precision*c = {tol:.3g}")
        return True, None, err
    aerr = float(np.max(np.abs(np.abs(M) - np.abs(U))))
    if aerr > tol:
        return (False, "inverse-option-wrong-matrix" if inv else "modulus-mismatch",
                f"max ||M_ij| - |U_ij|| = {aerr:.3g} > {tol:.3g}")
    n = U.shape[0]
    worst = 0.0
    for k in range(n):
        a, b = (U[k, :], M[k, :]) if spec.get("h") else (U[:, k], M[:, k])
        c = np.vdot(a, b)          # conj(a)·b : b ≈ c·a
        worst = max(worst, abs(abs(c) - 1), float(np.max(np.abs(b - c * a))))
    if worst > tol:
        side = "diag·U" if spec.get("h") else "U·diag"
        return (False, "inverse-option-wrong-matrix" if inv else "not-up-to-diagonal",
                f"M is not {side} with a unit-modulus diagonal (residue {worst:.3g} > {tol:.3g})")
    return True, None, max(aerr, worst)


def uninvert_struct(flat, n, v, h):
    fl = list(reversed(flat)) if h else list(flat)
    if v:
        fl = [dict(lf, off=n - lf["off"] - lf["w"]) for lf in fl]
    return fl


def parse_items(fl, pattern, spec):
    """Parse the (structurally un-inverted) flat list from its end into blocks / PERMs; the rest is the phase layer.
    -> (phase_leaves, items) or raises ValueError(text)."""
    L = len(pattern)
    items = []
    i = len(fl)
    inv = bool(spec.get("v") or spec.get("h"))
    while i > 0:
        took = False
        if i >= L:
            seg = fl[i - L:i]
            n0 = seg[0]["off"] - pattern[0]["off"]
            if n0 >= 0 and all(s["kind"] == p["kind"] and s["w"] == p["w"] and s["off"] - p["off"] == n0
                               for s, p in zip(seg, pattern)):
                # a copy of the block: parameters fixed in the template keep their value
                if not inv:
                    for s, p in zip(seg, pattern):
                        for name, val in p["params"].items():
                            if val is not None and name in s["params"] and s["params"][name] is not None \
                                    and abs(s["params"][name] - val) > 1e-12:
                                raise ValueError(f"block copy at {n0} changed fixed parameter {name}: "
                                                 f"{val} -> {s['params'][name]}")
                items.append({"k": "block", "off": n0, "leaves": seg})
                i -= L
                took = True
        if not took and fl[i - 1]["kind"] == "PERM":
            if not spec.get("perm"):
                raise ValueError("PERM component although no permutation was requested")
            items.append({"k": "perm", "off": fl[i - 1]["off"], "leaf": fl[i - 1]})
            i -= 1
            took = True
        if not took:
            break
    phase = fl[:i]
    items.reverse()
    for lf in phase:
        if lf["kind"] != "PS" or lf["w"] != 1:
            raise ValueError(f"component {lf['kind']} at {lf['off']} is neither a copy of the block, a PERM nor a "
                             f"phase shifter of the phase layer")
    if phase and not spec.get("phase"):
        raise ValueError("phase shifters outside the blocks although no phase layer was requested")
    idx = [lf["off"] for lf in phase]
    if idx != sorted(set(idx), reverse=True):
        raise ValueError(f"phase layer indices {idx} are not strictly decreasing")
    return phase, items


def lean_fold_request(spec, obs, Upre, phase, items, prec_scale=1.0):
    n = spec["n"]
    prec = spec.get("precision", 1e-6) * prec_scale
    its = []
    for it in items:
        if it["k"] == "block":
            its.append({"k": "block", "off": it["off"],
                        "leaves": [{"off": lf["off"] - it["off"], "U": core.mat(cm(lf["U"]))} for lf in it["leaves"]]})
        else:
            its.append({"k": "perm", "off": it["off"], "p": it["leaf"]["perm"]})
    return {"op": "fold", "m": n, "U": core.mat(Upre), "prec": core.rat(prec), "ignore": bool(spec.get("ignore", True)),
            "perm": bool(spec.get("perm")), "v": bool(spec.get("v")), "h": bool(spec.get("h")), "items": its,
            "phase_idx": [lf["off"] for lf in phase],
            "pattern": [[p["off"], p["w"]] for p in obs["pattern"]]}


def unc(p):
    return complex(float(core.unrat(p[0])), float(core.unrat(p[1])))


def judge(chk, obs):
    """-> None or (kind, signature, text).  Also fills the histograms."""
    spec = obs["spec"]
    n = spec["n"]
    U = spec_matrix(spec)
    if spec.get("malformed"):
        chk.branch("rejected")
        want = {"nonunitary": "ValueError", "constraints": "AssertionError", "shape": "ValueError",
                "rectangle": "NotImplementedError"}[spec["malformed"]]
        got = obs.get("exc")
        chk.count("rejections", f"{spec['malformed']}->{got}")
        if got != want:
            return ("broken", "malformed-input-accepted",
                    f"malformed request ({spec['malformed']}) gave {got or 'a result'} instead of {want}")
        return None
    if "exc" in obs:
        return ("violation", "raises-" + obs["exc"], f"Circuit.decomposition raised {obs['exc']}: {obs.get('msg')}")
    chk.count("result", ("none" if obs.get("none") else "circuit") + ":" + spec["block"])
    if obs.get("input_changed"):
        chk.count("side_effects", "input matrix modified in place")
    if obs.get("none"):
        chk.branch("none")
        unrestricted = spec.get("constraints") is None or any(all(x is None for x in c) for c in spec["constraints"])
        if spec["block"] in UNIVERSAL and unrestricted and spec.get("max_try", 10) >= 10:
            return ("violation", "universal-block-none",
                    f"no circuit found within {spec.get('max_try', 10)} tries for the universal block {spec['block']}")
        return None
    chk.branch("circuit")
    flat = obs["flat"]
    M_np = numpy_product(flat, n)
    ok, sig, info = direct_oracle(spec, U, M_np)
    if not ok:
        return ("violation", sig, info)
    chk.extra["max_err_over_precision"] = max(chk.extra.get("max_err_over_precision", 0.0),
                                              float(info) / spec.get("precision", 1e-6))
    # --- structure: only copies of the block, PERMs, phase layer --------------------------------
    v, h = bool(spec.get("v")), bool(spec.get("h"))
    try:
        phase, items = parse_items(uninvert_struct(flat, n, v, h), obs["pattern"], spec)
    except ValueError as e:
        return ("violation", "foreign-component", str(e))
    for it in items:
        if it["k"] == "perm":
            lf = it["leaf"]
            pm = np.zeros((lf["w"], lf["w"]))
            for i, x in enumerate(lf["perm"]):
                pm[x, i] = 1
            if np.max(np.abs(cm(lf["U"]) - pm)) > 1e-12:
                return ("violation", "perm-matrix", f"PERM leaf at {lf['off']} does not have the matrix of {lf['perm']}")
    # --- Lean: exact product ---------------------------------------------------------------------
    rep = chk.lean.ask({"op": "prod", "m": n, "leaves": [{"off": lf["off"], "U": core.mat(cm(lf["U"]))} for lf in flat]})
    if "err" in rep:
        return ("broken", "lean-prod", f"model rejected the returned circuit: {rep['err']}")
    M_lean = np.array([[unc(z) for z in row] for row in rep["M"]], dtype=complex)
    if np.max(np.abs(M_lean - cm(obs["M_code"]))) > 1e-9:
        return ("violation", "compute-unitary-not-product",
                "compute_unitary() of the returned circuit differs from the exact product of its leaves")
    ok2, sig2, info2 = direct_oracle(spec, U, M_lean)
    if not ok2:
        return ("broken", "oracle-disagreement", f"numpy product passes, exact product fails: {info2}")
    # --- Lean: replay of the bookkeeping ------------------------------------------------------------
    Upre = U
    if h:
        Upre = np.linalg.inv(Upre)
    if v:
        Upre = np.flip(Upre)
    want_items = [["block", it["off"]] if it["k"] == "block" else ["perm", it["off"], it["leaf"]["perm"]] for it in items]
    want_flat = [[lf["off"], lf["w"]] for lf in flat]
    last = None
    for scale in (1.0, 1.0 + 1e-6, 1.0 - 1e-6):
        rep = chk.lean.ask(lean_fold_request(spec, obs, Upre, phase, items, scale))
        if "err" in rep:
            return ("broken", "lean-fold", f"model rejected the replay request: {rep['err']}")
        good = (not rep.get("none")) and rep["comps"] == want_items and rep["left"] == 0 and rep["flat"] == want_flat
        if good:
            if scale != 1.0:
                chk.count("threshold", "decided within 1e-6 of the precision")
            break
        last = rep
    else:
        rep = last
        if rep.get("none"):
            what = "the model's control flow needs more solved blocks than the circuit contains"
        elif rep["left"] != 0:
            what = f"{rep['left']} block(s) of the circuit are not used by the model's control flow"
        elif rep["comps"] != want_items:
            what = f"component list differs: model {rep['comps'][:8]} code {want_items[:8]}"
        else:
            what = f"flat structure after Circuit.inverse differs: model {rep['flat'][:8]} code {want_flat[:8]}"
        return ("broken", "bookkeeping-structure", what)
    if not rep.get("inv_holds"):
        return ("broken", "lean-invariant", "the model's own invariant circMat·u + err = U does not evaluate to true")
    tol = tol_of(spec)
    off = math.sqrt(float(core.unrat(rep["off2"])))
    err = math.sqrt(float(core.unrat(rep["err2"])))
    if off > tol or err > tol:
        return ("broken", "residue", f"final u off-diagonal {off:.3g} / overwritten-entry term {err:.3g} exceed {tol:.3g}")
    chk.count("nskip", rep["nskip"])
    if rep["nskip"]:
        chk.branch("identity-skip")
    if any(c[0] == "perm" for c in rep["comps"]):
        chk.branch("perm-substitution")
        if any(len(c[2]) > 2 for c in rep["comps"] if c[0] == "perm"):
            chk.branch("perm-wide")
    if any(c[0] == "block" for c in rep["comps"]):
        chk.branch("solved-block")
    # phase layer against the final diagonal
    D = [unc(z) for z in rep["D"]]
    if spec.get("phase"):
        got = {}
        for lf in phase:
            z = complex(*lf["U"][0][0])
            got[lf["off"]] = (1 / z) if h else z          # PS.inverse(h) negated the phase
        for i, d in enumerate(D):
            target = d / abs(d) if abs(d) > 0 else d
            if i in got:
                if abs(got[i] - target) > 1e-6 + tol:
                    return ("broken", "phase-layer", f"phase shifter on mode {i} realises {got[i]:.6g}, residual "
                                                     f"diagonal entry is {d:.6g}")
            elif abs(target - 1) > 1e-6 + tol:
                return ("broken", "phase-layer", f"no phase shifter on mode {i} although the residual diagonal "
                                                 f"entry is {d:.6g}")
        if phase:
            chk.branch("phase-layer")
    return None


# ------------------------------------------------------------------------------------------------
# generation
# ------------------------------------------------------------------------------------------------
KINDS = ["haar", "haar", "haar", "perm", "permphase", "blockdiag", "sparse", "sparse", "lowerband", "diag", "identity",
         "rowperm", "rowperm", "tiny"]


def gen_spec(rng, max_n, i):
    r = rng.random()
    n = rng.choice([2, 2, 3, 3, 3, 4, 4, 5] if max_n <= 5 else [2, 3, 3, 4, 4, 5, 5, 6])
    n = min(n, max_n)
    spec = {"n": n, "kind": rng.choice(KINDS), "seed": rng.randrange(1, 2 ** 30)}
    b = rng.random()
    if b < 0.30:
        spec["block"] = "mzi_last"
    elif b < 0.60:
        spec["block"] = "bs_ps"
    elif b < 0.72:
        spec["block"] = "bsphase_ps"
    elif b < 0.80:
        spec["block"] = "bsphase2_ps"
    elif b < 0.86:
        spec["block"] = "bsH_ps"
    elif b < 0.92:
        spec["block"] = "bsRy_ps"
    elif b < 0.97:
        spec["block"] = "bs"
    elif b < 0.985:
        spec["block"] = "mzi_first"
    else:
        spec["block"] = "bsH_phibl"
    if spec["block"] in ("bs", "mzi_first", "bsH_phibl"):
        # these mostly answer None after 10 full tries: keep them small, and give `bs` matrices it can do
        spec["n"] = min(spec["n"], 3)
        if spec["block"] == "bs":
            spec["kind"] = rng.choice(["perm", "identity", "haar", "sparse"])
    spec["phase"] = rng.random() < 0.6
    spec["perm"] = rng.random() < (0.7 if spec["kind"] in ("rowperm", "perm", "permphase") else 0.35)
    if rng.random() < 0.2:
        spec["ignore"] = False
    if rng.random() < 0.2:
        spec["v"] = True
    if rng.random() < 0.2:
        spec["h"] = True
    if rng.random() < 0.25:
        spec["merge"] = rng.choice([True, False])
    if rng.random() < 0.15:
        spec["precision"] = rng.choice([1e-7, 1e-5])
    if rng.random() < 0.15 and spec["block"] not in ("bs",):
        # restrictive first, unrestricted fallback (a constraint has one entry per free parameter: 2 here)
        spec["constraints"] = rng.choice([[[None, 0], [None, None]], [[math.pi, None], [None, None]],
                                          [[None, None]], [[None, 0.5]]])
    if r < 0.05:
        spec["malformed"] = rng.choice(["nonunitary", "constraints", "shape", "rectangle"])
        spec["n"] = min(spec["n"], 3)
    return spec


def expected_cost(spec):
    """rough relative cost, only used to start the long decompositions first"""
    c = ncells(spec["n"]) + 1
    if spec["block"] in ("bs", "mzi_first", "bsH_phibl"):
        c *= 10          # ten full tries before answering None
    if spec["block"] in ("bsphase_ps", "bsphase2_ps"):
        c *= 2
    if spec["kind"] in ("identity", "diag", "perm", "permphase") and spec.get("ignore", True):
        c *= 0.3
    return c


def signature(spec):
    return (spec["n"], spec["kind"], spec["block"], bool(spec.get("phase")), bool(spec.get("perm")),
            spec.get("ignore", True), bool(spec.get("v")), bool(spec.get("h")), spec.get("merge", True),
            json.dumps(spec.get("constraints")), spec.get("precision", 1e-6))


# ------------------------------------------------------------------------------------------------
def shrink(chk, spec, sig, pool_observe):
    """Greedy simplification of the options / size while the same failure signature persists."""
    cur = dict(spec)

    def fails(s):
        r = judge_quiet(chk, pool_observe(s))
        return r is not None and r[1] == sig

    budget = 6
    for key, val in (("merge", None), ("constraints", None), ("precision", None), ("ignore", None), ("perm", False),
                     ("v", False), ("h", False)):
        if budget <= 0:
            break
        if key in cur and cur[key] not in (None, False):
            cand = {k: x for k, x in cur.items() if k != key}
            if val is not None:
                cand[key] = val
            budget -= 1
            try:
                if fails(cand):
                    cur = cand
            except Exception:
                pass
    while cur["n"] > 2 and budget > 0:
        cand = dict(cur, n=cur["n"] - 1)
        budget -= 1
        try:
            if fails(cand):
                cur = cand
            else:
                break
        except Exception:
            break
    return cur


class _Quiet:
    """Check facade that swallows histogram updates during shrinking."""

    def __init__(self, chk):
        self.lean = chk.lean
        self.extra = {}

    def branch(self, *a, **k):
        pass

    def count(self, *a, **k):
        pass


def judge_quiet(chk, obs):
    return judge(_Quiet(chk), obs)


def handle(chk, obs, pool_observe=observe, do_shrink=True):
    spec = obs["spec"]
    chk.count("n", spec["n"])
    chk.count("kind", spec["kind"])
    chk.count("block", spec["block"])
    chk.count("options", "+".join(k for k in ("phase", "perm", "v", "h") if spec.get(k)) or "plain")
    if spec.get("ignore") is False:
        chk.branch("ignore-identity-off")
    if spec.get("merge") is False:
        chk.branch("merge-off")
    if spec.get("constraints") is not None:
        chk.branch("constraints")
    if spec.get("v"):
        chk.branch("inverse_v")
    if spec.get("h"):
        chk.branch("inverse_h")
    if not spec.get("phase"):
        chk.branch("no-phase-layer")
    res = judge(chk, obs)
    nontrivial = ("flat" in obs) and spec["n"] >= 3
    chk.case(signature(spec), nontrivial=nontrivial,
             sample={k: spec[k] for k in spec if k != "U"} | {"result": "None" if obs.get("none") else
                                                              obs.get("exc", f"{len(obs.get('flat', []))} leaves"),
                                                              "t": round(obs["t"], 2)})
    if res is not None:
        kind, sig, what = res
        chk.count("failures", f"{sig}|{spec['block']}|v={int(bool(spec.get('v')))} h={int(bool(spec.get('h')))}")
        first = not any(f[1] == sig for f in chk.failures)
        small = shrink(chk, spec, sig, pool_observe) if (do_shrink and first) else spec
        small = dict(small)
        small["U"] = [[(float(z.real), float(z.imag)) for z in row] for row in spec_matrix(small)]
        chk.fail(kind, sig, what + f" [block={small['block']} n={small['n']} kind={small['kind']} "
                                   f"options={ {k: small[k] for k in ('phase', 'perm', 'v', 'h', 'ignore', 'merge', 'constraints') if k in small} }]",
                 {"spec": small})


def load_corpus():
    out = []
    for p in sorted(glob.glob(os.path.join(core.VERIF, "corpus", "C12", "*.json"))):
        out.append(json.load(open(p))["spec"])
    return out


def _init_worker():
    import warnings
    warnings.filterwarnings("ignore")
    import perceval  # noqa: F401  (pay the import once per process)


def run(chk: core.Check):
    chk.rule = ("random configurations (matrix kind × size × block × phase layer × PERM substitution × "
                "ignore_identity_block × inverse_v/h × merge × constraints × precision); distinct = distinct option "
                "signatures; non-trivial = a circuit was returned for n ≥ 3")
    chk.assumptions = [
        "block matrices and the phase shifters' matrices are taken from each leaf's own compute_unitary() (C14)",
        "allow_error=True is not exercised (it voids the precision guarantee by design)",
        "existence (a circuit is found within max_try=10) is claimed only for catalog['mzi phase last'] and "
        "BS(theta)//PS(phi) with an unrestricted constraint; it is validated by sampling, not proved",
        "tolerance precision·4·(#cells+1): every cell leaves a residue ≤ precision (see tol_of)",
    ]
    chk.required_branches = ["circuit", "none", "solved-block", "identity-skip", "perm-substitution", "phase-layer",
                             "no-phase-layer", "inverse_v", "inverse_h", "ignore-identity-off", "merge-off",
                             "constraints", "rejected", "perm-wide"]
    chk.lean = core.LeanDriver("C12")
    rng = chk.rng
    n_cases = chk.pick(150, 1500)
    max_n = chk.pick(5, 6)
    specs = load_corpus()
    ncorpus = len(specs)
    for i in range(n_cases):
        specs.append(gen_spec(rng, max_n, i))
    # longest first inside the pool would be nicer, but order = determinism of the report; chunksize 1
    procs = min(14, os.cpu_count() or 4)
    t0 = time.time()
    with mp.get_context("fork").Pool(procs, initializer=_init_worker) as pool:
        def pool_observe(s):
            return pool.apply(observe, (s,))
        tsum = 0.0
        by_block = {}
        order = sorted(range(len(specs)), key=lambda i: -expected_cost(specs[i]))
        pending = {i: pool.apply_async(observe, (specs[i],)) for i in order}
        for i in range(len(specs)):
            obs = pending.pop(i).get()
            tsum += obs["t"]
            key = specs[i]["block"] + (":none" if obs.get("none") else "")
            by_block[key] = round(by_block.get(key, 0.0) + obs["t"], 1)
            handle(chk, obs, pool_observe)
        chk.extra["cpu_s_by_block"] = by_block
    chk.extra["decomposition_cpu_s"] = round(tsum, 1)
    chk.extra["pool_wall_s"] = round(time.time() - t0, 1)
    chk.extra["corpus_cases"] = ncorpus


def replay(chk, data):
    chk.lean = core.LeanDriver("C12")
    chk.rule = "replay of one stored configuration"
    spec = data["replay"]["spec"]
    handle(chk, observe(spec), do_shrink=False)
