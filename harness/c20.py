"""C20 — catalog gates and converted gate circuits implement their logical operation.

What is compared (all *validation per instance*, never a proof):

* every logic gate of the catalog (1-, 2-, 3-qubit gates, n-qubit controlled rotations; parametrised gates on a
  grid of angles plus random ones): the matrix `build_processor().linear_circuit()` reports is sent to Lean as exact
  dyadic rationals together with the processor's heralds, post-selection and port layout; Lean evaluates the
  logical table `gateTable` exactly (all logical basis inputs x outputs), fits the scalar `c` and returns
  `max|A - c.G|^2`, `|c|^2` and the leakage into selected non-logical outputs;
* processors converted from random Qiskit / myQLM / cQASM circuits (non-adjacent qubits, SWAPs, CZ, generic
  one-qubit gates, `use_postselection` both ways) against the source circuit's unitary (the framework's own
  unitary where it offers one, cross-checked with an independent numpy composition);
* the CNOT labelling, the SWAP permutation, the mode map and the gate dispatch, compared *exactly* with the Lean
  model (exhaustively on small sizes);
* sessions: one converter object converts several circuits one after the other (same gate names with other
  parameters, cQASM variables re-declared, other sizes): every result against its own source, earlier results
  observed again afterwards; the component plan of every conversion against the (stateless) Lean model;
* cQASM v3 programs with several declared qubit variables (arrays / single qubits, any order): port names and the
  qubit every operand is sent to, exactly against the Lean model (`cqdecl`) and against an independent sum of widths.

Direct oracle (independent of Lean): a numpy Ryser permanent on the same matrix decides `violation` vs `broken`.
"""
from __future__ import annotations

import glob
import itertools
import json
import math
import os
import re
import threading
import time

import numpy as np

from . import core

TOL = 1e-6            # property tolerance on |A - c.G| (optimiser-fitted gates: see GENERIC_TOL)
GENERIC_TOL = 2e-3    # unknown one-qubit gates are fitted by an optimiser to min_precision_gate = 1e-4 (documented);
                      # up to 10 fitted gates per circuit, factor 2 (measured: <= 3e-5)
FIXED_MODEL = os.environ.get("C20_MODEL_FIXED", "auto")   # auto: detect which labelling the tree implements

PP, HC = "postprocessed cnot", "heralded cnot"


# ------------------------------------------------------------------------------------------------
# source-circuit semantics (numpy, big endian: qubit 0 is the most significant bit)
# ------------------------------------------------------------------------------------------------
def m1(name, p=None):
    i = 1j
    s2 = 1 / math.sqrt(2)
    if name == "h":
        return np.array([[s2, s2], [s2, -s2]], dtype=complex)
    if name == "x":
        return np.array([[0, 1], [1, 0]], dtype=complex)
    if name == "y":
        return np.array([[0, -i], [i, 0]], dtype=complex)
    if name == "z":
        return np.diag([1, -1]).astype(complex)
    if name == "i":
        return np.eye(2, dtype=complex)
    if name == "s":
        return np.diag([1, i]).astype(complex)
    if name == "sdg":
        return np.diag([1, -i]).astype(complex)
    if name == "t":
        return np.diag([1, np.exp(i * math.pi / 4)]).astype(complex)
    if name == "tdg":
        return np.diag([1, np.exp(-i * math.pi / 4)]).astype(complex)
    if name == "p":
        return np.diag([1, np.exp(i * p)]).astype(complex)
    if name == "rx":
        c, s = math.cos(p / 2), math.sin(p / 2)
        return np.array([[c, -i * s], [-i * s, c]], dtype=complex)
    if name == "ry":
        c, s = math.cos(p / 2), math.sin(p / 2)
        return np.array([[c, -s], [s, c]], dtype=complex)
    if name == "rz":
        return np.diag([np.exp(-i * p / 2), np.exp(i * p / 2)]).astype(complex)
    if name == "sx":
        return 0.5 * np.array([[1 + i, 1 - i], [1 - i, 1 + i]], dtype=complex)
    if name == "u":
        th, ph, la = p
        c, s = math.cos(th / 2), math.sin(th / 2)
        return np.array([[c, -np.exp(i * la) * s], [np.exp(i * ph) * s, np.exp(i * (ph + la)) * c]], dtype=complex)
    if name == "ug":
        return m1("u", p)
    if name == "r":
        th, ph = p
        c, s = math.cos(th / 2), math.sin(th / 2)
        return np.array([[c, -i * np.exp(-i * ph) * s], [-i * np.exp(i * ph) * s, c]], dtype=complex)
    if name == "dg":
        return np.diag([np.exp(i * p[0]), np.exp(i * p[1])]).astype(complex)
    if name == "x90":
        return m1("rx", math.pi / 2)
    if name == "mx90":
        return m1("rx", -math.pi / 2)
    if name == "y90":
        return m1("ry", math.pi / 2)
    if name == "my90":
        return m1("ry", -math.pi / 2)
    raise KeyError(name)


M2 = {
    "cx": np.array([[1, 0, 0, 0], [0, 1, 0, 0], [0, 0, 0, 1], [0, 0, 1, 0]], dtype=complex),
    "cz": np.diag([1, 1, 1, -1]).astype(complex),
    "swap": np.array([[1, 0, 0, 0], [0, 0, 1, 0], [0, 1, 0, 0], [0, 0, 0, 1]], dtype=complex),
}


def embed_gate(n, g, qs):
    """2^n x 2^n matrix of `g` acting on the listed qubits (first listed = most significant bit of g's index)."""
    k = len(qs)
    dim = 2 ** n
    out = np.zeros((dim, dim), dtype=complex)
    for x in range(dim):
        bits = [(x >> (n - 1 - q)) & 1 for q in range(n)]
        sub = 0
        for q in qs:
            sub = (sub << 1) | bits[q]
        for y in range(2 ** k):
            a = g[y, sub]
            if a == 0:
                continue
            nb = list(bits)
            for pos, q in enumerate(qs):
                nb[q] = (y >> (k - 1 - pos)) & 1
            xo = 0
            for b in nb:
                xo = (xo << 1) | b
            out[xo, x] += a
    return out


def source_unitary(n, ops):
    u = np.eye(2 ** n, dtype=complex)
    for op in ops:
        g = M2[op["g"]] if len(op["q"]) == 2 else m1(op["g"], op.get("p"))
        u = embed_gate(n, g, op["q"]) @ u
    return u


# ------------------------------------------------------------------------------------------------
# independent numpy oracle: Ryser permanent on the implementation's own matrix
# ------------------------------------------------------------------------------------------------
def ryser(a):
    n = a.shape[0]
    if n == 0:
        return 1.0
    tot = 0
    rows = np.zeros(n, dtype=complex)
    old = 0
    for k in range(1, 2 ** n):
        g = k ^ (k >> 1)
        diff = g ^ old
        j = diff.bit_length() - 1
        rows = rows + a[:, j] if g & diff else rows - a[:, j]
        old = g
        tot += (-1) ** (bin(g).count("1")) * np.prod(rows)
    return (-1) ** n * tot


def np_amp(u, s, t):
    if sum(s) != sum(t):
        return 0
    rows = [i for i, c in enumerate(t) for _ in range(c)]
    cols = [i for i, c in enumerate(s) for _ in range(c)]
    return ryser(u[np.ix_(rows, cols)])


def encode(m, qubits, heralds, bits):
    s = [0] * m
    for p, b in zip(qubits, bits):
        s[p + b] = 1
    for h, v in heralds:
        s[h] = v
    return s


def np_table(u, m, qubits, heralds, ps_fn):
    import perceval as pcvl
    basis = list(itertools.product((0, 1), repeat=len(qubits)))
    a = np.zeros((len(basis), len(basis)), dtype=complex)
    for j, bi in enumerate(basis):
        s = encode(m, qubits, heralds, bi)
        for i, bo in enumerate(basis):
            t = encode(m, qubits, heralds, bo)
            if ps_fn is not None and not ps_fn(pcvl.BasicState(t)):
                continue
            a[i, j] = np_amp(u, s, t)
    return a


def np_leak(ob):
    """largest probability, over the logical inputs, of the outputs that are selected (heralds as declared,
    post-selection true) but not logical — numpy only"""
    import perceval as pcvl
    m, qubits, heralds, ps = ob["m"], ob["qubits"], ob["heralds"], ob["ps"]
    q = len(qubits)
    modes = [p for a in qubits for p in (a, a + 1)]
    outs = []
    for combo in itertools.combinations_with_replacement(range(2 * q), q):
        t = [0] * m
        for k in combo:
            t[modes[k]] += 1
        if all(t[a] + t[a + 1] == 1 for a in qubits):
            continue
        for h, v in heralds:
            t[h] = v
        if ps is not None and not ps(pcvl.BasicState(t)):
            continue
        outs.append(t)
    worst = 0.0
    for bi in itertools.product((0, 1), repeat=q):
        s_in = encode(m, qubits, heralds, bi)
        worst = max(worst, float(sum(abs(np_amp(ob["u"], s_in, t)) ** 2 for t in outs)))
    return worst


def np_fit(a, g):
    i, j = np.unravel_index(np.argmax(abs(g)), g.shape)
    c = a[i, j] / g[i, j]
    return c, float(np.max(abs(a - c * g)))


# ------------------------------------------------------------------------------------------------
# PostSelect -> JSON expression of the Lean specification
# ------------------------------------------------------------------------------------------------
_TOK = re.compile(r"\s*(\[[0-9,\s]*\]|==|<=|>=|<|>|&|\||\^|!|\(|\)|[0-9]+)")


def ps_json(ps):
    if ps is None:
        return True
    text = str(ps).strip()
    if text == "":
        return True
    toks = []
    pos = 0
    while pos < len(text):
        mt = _TOK.match(text, pos)
        if not mt:
            raise ValueError(f"cannot parse post-selection {text!r}")
        toks.append(mt.group(1))
        pos = mt.end()
    idx = [0]

    def peek():
        return toks[idx[0]] if idx[0] < len(toks) else None

    def take():
        tk = toks[idx[0]]
        idx[0] += 1
        return tk

    def term():
        tk = take()
        if tk == "!":
            return {"not": term()}
        if tk == "(":
            e = expr()
            assert take() == ")"
            return e
        assert tk.startswith("["), text
        modes = [int(x) for x in tk[1:-1].split(",") if x.strip()]
        op = take()
        k = int(take())
        return {"c": modes, "op": op, "k": k}

    def expr():
        e = term()
        while peek() in ("&", "|", "^"):
            op = take()
            r = term()
            e = {{"&": "and", "|": "or", "^": "xor"}[op]: [e, r]}
        return e

    e = expr()
    assert idx[0] == len(toks), text
    return e


def ps_modes(e):
    if e is True:
        return []
    if "c" in e:
        return list(e["c"])
    if "not" in e:
        return ps_modes(e["not"])
    return [m for k in ("and", "or", "xor") if k in e for sub in e[k] for m in ps_modes(sub)]


# ------------------------------------------------------------------------------------------------
# observation of a processor
# ------------------------------------------------------------------------------------------------
def observe(p):
    """matrix, layout, post-selection of a processor through its public interface"""
    from perceval.utils import Encoding
    m = p.circuit_size
    u = np.array(p.linear_circuit().compute_unitary(), dtype=complex)
    her = sorted((int(k), int(v)) for k, v in p.heralds.items())
    hm = {k for k, _ in her}
    free = [i for i in range(m) if i not in hm]
    if len(free) % 2:
        raise RuntimeError("odd number of non-herald modes")
    qubits, names = [], []
    for a, b in zip(free[0::2], free[1::2]):
        pa, pb = p.get_input_port(a), p.get_input_port(b)
        if b != a + 1 or pa is not pb or getattr(pa, "encoding", None) != Encoding.DUAL_RAIL:
            raise RuntimeError(f"modes {a},{b} are not one dual-rail port")
        qubits.append(a)
        names.append(pa.name)
    return {"m": m, "u": u, "heralds": her, "qubits": qubits, "ps": p.post_select_fn, "names": names}


def table_request(ob, g, want_leak, spec):
    return {"op": "table", "m": ob["m"], "U": core.mat(ob["u"].tolist()), "qubits": ob["qubits"],
            "heralds": [list(h) for h in ob["heralds"]], "ps": ps_json(ob["ps"]),
            "G": core.mat(np.asarray(g).tolist()), "leak": want_leak, "spec": spec}


def photons(ob):
    return len(ob["qubits"]) + sum(v for _, v in ob["heralds"])


# ------------------------------------------------------------------------------------------------
# catalog
# ------------------------------------------------------------------------------------------------
def ctrl_gate(n, g2):
    """g2 on the last qubit controlled by all the others"""
    d = 2 ** n
    out = np.eye(d, dtype=complex)
    out[d - 2:, d - 2:] = g2
    return out


def catalog_target(name, kw):
    if name in ("klm cnot", "heralded cnot", "postprocessed cnot"):
        return M2["cx"]
    if name in ("heralded cz", "postprocessed cz"):
        return M2["cz"]
    if name == "postprocessed ccz":
        return ctrl_gate(3, m1("z"))
    if name == "toffoli":
        return ctrl_gate(3, m1("x"))
    if name == "postprocessed controlled gate":
        return ctrl_gate(kw["n"], m1("p", kw.get("alpha", math.pi)))
    if name in ("x", "y", "z", "h", "s", "t"):
        return m1(name)
    if name == "sdag":
        return m1("sdg")
    if name == "tdag":
        return m1("tdg")
    if name in ("rx", "ry", "rz"):
        return m1(name, kw.get("theta", 0.0))
    if name == "ph":
        return m1("p", kw.get("phi", 0.0))
    raise KeyError(name)


NOT_GATES = {"generic 2 mode circuit", "mzi phase first", "mzi phase last", "symmetric mzi", "qloq ansatz"}
FIXED_GATES = ["klm cnot", "heralded cnot", "postprocessed cnot", "heralded cz", "postprocessed cz",
               "postprocessed ccz", "toffoli", "x", "y", "z", "h", "s", "sdag", "t", "tdag"]
PARAM_GATES = {"rx": "theta", "ry": "theta", "rz": "theta", "ph": "phi"}


def angle_grid(rng, n_grid, n_rand):
    grid = [(-2 * math.pi) + k * (4 * math.pi) / n_grid for k in range(n_grid + 1)]
    # a few interior special values and random ones
    grid += [math.pi / 2, -math.pi / 2, math.pi, math.pi / 4, 1e-9, -1e-9, 0.0]
    grid += [rng.uniform(-2 * math.pi, 2 * math.pi) for _ in range(n_rand)]
    return [float(x) for x in grid]


def catalog_cases(chk):
    rng = chk.rng
    n_grid, n_rand = chk.pick((24, 6), (96, 24))
    cases = [{"kind": "catalog", "name": nm, "kw": {}} for nm in FIXED_GATES]
    for nm, key in PARAM_GATES.items():
        for x in angle_grid(rng, n_grid, n_rand):
            cases.append({"kind": "catalog", "name": nm, "kw": {key: x}})
    for n in chk.pick((2, 3), (2, 3, 4)):
        alphas = angle_grid(rng, chk.pick(8, 24) if n < 4 else 4, chk.pick(3, 10) if n < 4 else 2)
        for a in alphas:
            cases.append({"kind": "catalog", "name": "postprocessed controlled gate", "kw": {"n": n, "alpha": a}})
    return cases


def run_catalog_case(case):
    from perceval import catalog
    p = catalog[case["name"]].build_processor(**case["kw"])
    ob = observe(p)
    g = catalog_target(case["name"], case["kw"])
    return ob, g



def check_catalog_matrices(chk, pool):
    """the model's explicit matrices of the exactly modelled catalog gates (the objects of `postprocessed_*_exact`,
    `heralded_cz_exact`, `heralded_cnot_exact`), evaluated by the driver at the rationalised beam-splitter entries of
    the code, against `build_circuit().compute_unitary()`; and the decomposition the heralded-CNOT theorem uses
    (BS.H on the data pair, the heralded CZ circuit, BS.H on the data pair) on the real matrices"""
    from perceval import catalog
    from perceval.components import BS
    from perceval.components.core_catalog.heralded_cz import HeraldedCzItem
    th1, th2 = HeraldedCzItem.theta1, HeraldedCzItem.theta2
    par = {"r": math.cos(th1 / 2), "h": math.cos(math.pi / 4), "c2": math.cos(th2 / 2), "s2": math.sin(th2 / 2)}
    names = ["heralded cz", "heralded cnot", "postprocessed cnot", "postprocessed cz"]
    reps = pool.ask_many([dict({"op": "catmat", "name": nm}, **{k: core.rat(float(v)) for k, v in par.items()}) for nm in names])
    for nm, rep in zip(names, reps):
        chk.branch("catmat")
        chk.case(("catmat", nm), nontrivial=True, sample={"gate": nm, "params": par})
        real = np.array(catalog[nm].build_circuit().compute_unitary(), dtype=complex)
        if "U" not in rep:
            chk.fail("broken", "catmat-driver", f"catmat {nm}: {rep}", {"kind": "catmat", "name": nm})
            continue
        model = np.array(core.unmat(rep["U"]), dtype=complex)
        dev = float(np.max(abs(model - real)))
        chk.count("catmat_dev", f"{dev:.1e}")
        if dev > 1e-9:
            # direct oracle: is the real gate still the gate it is named after?
            ob, g = run_catalog_case({"kind": "catalog", "name": nm, "kw": {}})
            fails = np_fails(ob, g, TOL)
            chk.fail("violation" if fails else "broken", "catalog-matrix-" + nm.replace(" ", "-"),
                     f"catalog[{nm!r}].build_circuit().compute_unitary() differs from the model's explicit matrix by "
                     f"{dev:.3g}" + (" and its logical table is not c.G" if fails else ""),
                     {"kind": "catalog", "name": nm, "kw": {}})
    hcz = np.array(catalog["heralded cz"].build_circuit().compute_unitary(), dtype=complex)
    hcn = np.array(catalog["heralded cnot"].build_circuit().compute_unitary(), dtype=complex)
    hd = placed(6, [2, 3], np.array(BS.H().compute_unitary(), dtype=complex))
    dev = float(np.max(abs(hd @ hcz @ hd - hcn)))
    if dev > 1e-12:
        chk.fail("broken", "heralded-cnot-structure", f"heralded cnot is not BS.H . heralded cz . BS.H on the data pair "
                 f"(deviation {dev:.3g}): the exact theorem no longer describes this circuit",
                 {"kind": "catalog", "name": "heralded cnot", "kw": {}})


# ------------------------------------------------------------------------------------------------
# converters
# ------------------------------------------------------------------------------------------------
ONE_Q = {
    "qiskit": ["h", "x", "y", "z", "s", "sdg", "t", "tdg", "rx", "ry", "rz", "p", "sx", "u", "r", "i", "dg"],
    # myQLM: daggered gates (`S.dag()` -> "D-S") are outside the converter's supported set (cleanly rejected)
    "myqlm": ["h", "x", "y", "z", "s", "t", "rx", "ry", "rz", "p", "i", "dg", "ug"],
    # cQASM: `I` is parsed but rejected ("Unsupported 1-qubit gate I"): outside the supported set
    "cqasm": ["h", "x", "y", "z", "s", "sdg", "t", "tdg", "rx", "ry", "rz", "x90", "mx90", "y90", "my90"],
}
TWO_Q = {"qiskit": ["cx", "cz", "swap"], "myqlm": ["cx", "cz", "swap"], "cqasm": ["cx", "cz"]}
GENERIC = {"qiskit": {"sx", "u", "r", "i", "dg"}, "myqlm": {"i", "dg", "ug"}, "cqasm": set()}
PARAM1 = {"rx", "ry", "rz", "p"}
MULTI_PARAM = {"u": 3, "ug": 3, "r": 2, "dg": 2}     # generic gates with several parameters


def rand_params(rng, g):
    if g in PARAM1:
        return float(rng.choice([rng.uniform(-6, 6), rng.choice([0.3, -1.1, math.pi / 3, 2.5])]))
    if g in ("u", "ug"):
        return [float(rng.uniform(0.2, 3.0)), float(rng.uniform(-3, 3)), float(rng.uniform(-3, 3))]
    if g == "r":
        return [float(rng.uniform(0.2, 3.0)), float(rng.uniform(-3, 3))]
    if g == "dg":   # diagonal unknown gate: the three phase-only branches of _create_generic_1_qubit_gate
        a, b = float(rng.uniform(-3, 3)), float(rng.uniform(-3, 3))
        return rng.choice([[a, b], [0.0, b], [a, 0.0]])
    return None


def twin_of(rng, op, n, keep_first=None):
    """a gate with the same name as `op` that agrees with it on part of its parameters only (the same first
    parameter and other remaining ones, or the converse), on a random qubit: what a lookup keyed by an incomplete
    description of the gate would confuse with `op`"""
    g, p = op["g"], op.get("p")
    tw = {"g": g, "q": [rng.randrange(n)]}
    if isinstance(p, list):
        q = list(p)
        if keep_first is None:
            keep_first = rng.random() < 0.7
        idxs = list(range(1, len(q))) if keep_first else [0]
        for k in (idxs if rng.random() < 0.5 else [rng.choice(idxs)]):
            q[k] = float(q[k] + rng.choice([-1, 1]) * rng.uniform(0.5, 1.5))
        tw["p"] = q
    elif p is not None:
        tw["p"] = float(p + rng.choice([-1, 1]) * rng.uniform(0.5, 1.5))
    return tw


def is_twin(a, b):
    """same gate name, same first parameter, different gate"""
    pa, pb = a.get("p"), b.get("p")
    return (a["g"] == b["g"] and isinstance(pa, list) and isinstance(pb, list) and pa[0] == pb[0] and pa != pb
            and not (a["g"] == "dg" and 0.0 in pa + pb))


def has_twins(ops):
    return any(is_twin(a, b) for a, b in itertools.combinations(ops, 2))


def has_param_twins(ops):
    return any(a["g"] == b["g"] and a["g"] in PARAM1 and a["p"] != b["p"] for a, b in itertools.combinations(ops, 2))


def gen_ops(rng, fw, n, n_gates, max_heralded, twins=None):
    """random gate sequence; at most `max_heralded` two-qubit gates that may end up heralded (bounds the photons).
    twins: insert a gate that shares its name and part of its parameters with an earlier one (None: sometimes)"""
    ops = []
    two = 0
    for _ in range(n_gates):
        if n >= 2 and rng.random() < 0.5:
            g = rng.choice(TWO_Q[fw])
            if g != "swap" and two >= max_heralded:
                g = "swap" if "swap" in TWO_Q[fw] else None
            if g is not None:
                a, b = rng.sample(range(n), 2)
                if n >= 3 and rng.random() < 0.4:      # favour non-adjacent qubits
                    a, b = rng.choice([(0, n - 1), (n - 1, 0)])
                ops.append({"g": g, "q": [a, b]})
                two += g != "swap"
                continue
        g = rng.choice(ONE_Q[fw])
        op = {"g": g, "q": [rng.randrange(n)]}
        p = rand_params(rng, g)
        if p is not None:
            op["p"] = p
        ops.append(op)
    if twins is None:
        twins = rng.random() < 0.35
    if twins:
        multi = [g for g in ONE_Q[fw] if g in MULTI_PARAM and g != "dg"] or [g for g in ONE_Q[fw] if g in PARAM1]
        cand = [op for op in ops if op["g"] in multi]
        if cand and rng.random() < 0.5:
            base = rng.choice(cand)
        else:
            g = rng.choice(multi)
            base = {"g": g, "q": [rng.randrange(n)], "p": rand_params(rng, g)}
            ops.insert(rng.randint(0, len(ops)), base)
        pos = next(i for i, o in enumerate(ops) if o is base)
        ops.insert(rng.randint(pos + 1, len(ops)), twin_of(rng, base, n))
    return ops


def has_generic(fw, ops):
    return any(op["g"] in GENERIC[fw] for op in ops)


def build_qiskit(n, ops, reg=None):
    import qiskit
    qc = qiskit.QuantumCircuit(n) if reg is None else qiskit.QuantumCircuit(qiskit.QuantumRegister(n, reg))
    for op in ops:
        g, q, p = op["g"], op["q"], op.get("p")
        if g == "i":
            qc.id(q[0])
        elif g == "u":
            qc.u(p[0], p[1], p[2], q[0])
        elif g == "r":
            qc.r(p[0], p[1], q[0])
        elif g == "dg":
            qc.unitary(m1("dg", p), [q[0]])
        elif p is not None:
            getattr(qc, g)(p, *q)
        elif g == "measure":
            qc.measure_all()
        else:
            getattr(qc, g)(*q)
    return qc


def qiskit_unitary(qc):
    from qiskit.quantum_info import Operator
    return np.array(Operator(qc.reverse_bits()).data, dtype=complex)


def build_myqlm(n, ops):
    from qat.lang.AQASM import Program, H, X, Y, Z, I, S, T, PH, RX, RY, RZ, SWAP, CNOT, CSIGN, ISWAP, CCNOT
    fixed = {"h": H, "x": X, "y": Y, "z": Z, "i": I, "s": S, "t": T, "swap": SWAP, "cx": CNOT, "cz": CSIGN,
             "iswap": ISWAP, "ccx": CCNOT}
    par = {"p": PH, "rx": RX, "ry": RY, "rz": RZ}
    prog = Program()
    qb = prog.qalloc(n)
    for op in ops:
        g, q, p = op["g"], op["q"], op.get("p")
        if g == "dg":
            from qat.lang.AQASM import AbstractGate
            ag = AbstractGate("DG", [float, float], arity=1)
            ag.set_matrix_generator(lambda a, b: np.diag([np.exp(1j * a), np.exp(1j * b)]))
            gate = ag(p[0], p[1])
        elif g == "ug":
            from qat.lang.AQASM import AbstractGate
            ag = AbstractGate("UG", [float, float, float], arity=1)
            ag.set_matrix_generator(lambda a, b, c: m1("u", [a, b, c]))
            gate = ag(p[0], p[1], p[2])
        elif g == "sdg":
            gate = S.dag()
        elif g == "tdg":
            gate = T.dag()
        elif g in par:
            gate = par[g](p)
        else:
            gate = fixed[g]
        prog.apply(gate, *[qb[k] for k in q])
    return prog.to_circ()


def myqlm_unitary(circ, n):
    """composition of the circuit's own gate matrices (myQLM: first listed qubit = most significant)"""
    from qat.core.circuit_builder.matrix_util import circ_to_np
    u = np.eye(2 ** n, dtype=complex)
    for i, ins in enumerate(circ.iterate_simple()):
        g = np.array(circ_to_np(circ.gateDic[circ.ops[i].gate].matrix), dtype=complex)
        u = embed_gate(n, g, list(ins[2])) @ u
    return u


CQ_NAMES = {"h": "H", "x": "X", "y": "Y", "z": "Z", "s": "S", "sdg": "Sdag", "t": "T", "tdg": "Tdag", "i": "I",
            "rx": "Rx", "ry": "Ry", "rz": "Rz", "x90": "X90", "mx90": "mX90", "y90": "Y90", "my90": "mY90",
            "cx": "CNOT", "cz": "CZ", "swap": "SWAP", "cr": "CR"}


def fl(x):
    s = repr(float(x))
    return s if ("." in s or "e" in s or "n" in s) else s + ".0"


def decl_refs(decl):
    """[(name, index | -1)] per qubit, declaration order — computed here from the widths, independently of the code"""
    out = []
    for name, size in decl:
        out += [(name, -1)] if size < 0 else [(name, i) for i in range(size)]
    return out


def decl_names(decl):
    return [nm if i < 0 else f"{nm}[{i}]" for nm, i in decl_refs(decl)]


def gen_decl(rng, n, want_array_first=False):
    """random cQASM v3 declarations of n qubits: arrays (also of size 1) and single qubits in any order, names in
    no particular order"""
    names = ["q", "a", "b", "anc", "r", "psi", "x0", "zz", "c1", "m"]
    rng.shuffle(names)
    parts = []
    left = n
    if want_array_first and n >= 3:
        k = rng.randint(2, n - 1)
        parts.append(k)
        left -= k
    while left:
        k = rng.randint(1, left)
        parts.append(k)
        left -= k
    if not want_array_first:
        rng.shuffle(parts)
    return [[names[i], (k if (k > 1 or rng.random() < 0.3) else -1)] for i, k in enumerate(parts)]


def build_cqasm(n, ops, style, decl=None):
    """style: 'v3' | 'v3multi' (merge equal neighbouring 1-qubit gates into a multi-target statement) | 'v1'
    decl: [[name, size | -1], ...] declared qubit variables (v3; default one array q)"""
    if style == "v1":
        lines = ["version 1.0", "", f"qubits {n}", ""]
        for op in ops:
            nm = CQ_NAMES[op["g"]]
            tgt = ", ".join(f"q[{k}]" for k in op["q"])
            lines.append(f"{nm} {tgt}" + (f", {fl(op['p'])}" if op.get("p") is not None else ""))
        return "\n".join(lines) + "\n"
    decl = decl or [["q", n]]
    refs = decl_refs(decl)
    assert len(refs) == n

    def ref(k):
        nm, i = refs[k]
        return nm if i < 0 else f"{nm}[{i}]"
    lines = ["version 3"] + [f"qubit {nm}" if size < 0 else f"qubit[{size}] {nm}" for nm, size in decl]
    i = 0
    while i < len(ops):
        op = ops[i]
        nm = CQ_NAMES[op["g"]]
        if op.get("p") is not None:
            nm += f"({fl(op['p'])})"
        if len(op["q"]) == 1:
            tg = [op["q"][0]]
            var, idx = refs[tg[0]]
            if style == "v3multi" and idx >= 0:    # several targets of the same array in one statement
                while i + 1 < len(ops) and ops[i + 1]["g"] == op["g"] and ops[i + 1].get("p") == op.get("p") \
                        and len(ops[i + 1]["q"]) == 1 and ops[i + 1]["q"][0] not in tg \
                        and refs[ops[i + 1]["q"][0]][0] == var:
                    i += 1
                    tg.append(ops[i]["q"][0])
            if len(tg) > 1:
                lines.append(f"{nm} {var}[{', '.join(str(refs[k][1]) for k in tg)}]")
            else:
                lines.append(f"{nm} {ref(tg[0])}")
        else:
            lines.append(f"{nm} " + ", ".join(ref(k) for k in op["q"]))
        i += 1
    return "\n".join(lines) + "\n"


def make_converter(fw):
    from perceval.converters import QiskitConverter, MyQLMConverter, CQASMConverter
    return {"qiskit": QiskitConverter, "myqlm": MyQLMConverter, "cqasm": CQASMConverter}[fw]()


def convert(fw, n, ops, ups, style="v3", decl=None, reg=None, conv=None):
    """-> (processor, framework's own unitary or None); conv: a converter object to (re)use"""
    conv = conv if conv is not None else make_converter(fw)
    if fw == "qiskit":
        qc = build_qiskit(n, ops, reg)
        own = None
        try:
            own = qiskit_unitary(qc)
        except Exception:
            own = None
        return conv.convert(qc, use_postselection=ups), own
    if fw == "myqlm":
        circ = build_myqlm(n, ops)
        own = None
        try:
            own = myqlm_unitary(circ, n)
        except Exception:
            own = None
        return conv.convert(circ, use_postselection=ups), own
    src = build_cqasm(n, ops, style, decl)
    return conv.convert(src, use_postselection=ups), None


def expected_port_names(case):
    fw, n = case["fw"], case["n"]
    if fw == "qiskit":
        return [f"{case.get('reg') or 'q'}{i}" for i in range(n)]
    if fw == "myqlm":
        return [f"Q{i}" for i in range(n)]
    if case.get("style") == "v1" or not case.get("decl"):
        return [f"q[{i}]" for i in range(n)]
    return decl_names(case["decl"])


def gate_seq_for_model(fw, ops):
    """the [name, qubits] sequence as the front-end hands it to the abstract converter"""
    names = {"qiskit": {"cx": "cx", "cz": "cz", "swap": "swap", "ch": "ch", "ccx": "ccx", "crz": "crz", "iswap": "iswap"},
             "myqlm": {"cx": "cnot", "cz": "csign", "swap": "swap", "iswap": "iswap", "ccx": "ccnot"},
             "cqasm": {"cx": "cnot", "cz": "cz"}}[fw]
    return [[names.get(op["g"], op["g"]), list(op["q"])] for op in ops]


TWOQ_COMPONENTS = {"Heralded CNOT", "PostProcessed CNOT", "Heralded CZ"}


def real_plan(p, n):
    """names of the two-qubit gate components, herald values in mode order"""
    kinds = [c.name for _, c in p.components if c.name in TWOQ_COMPONENTS]
    her = [int(v) for k, v in sorted(p.heralds.items())]
    return kinds, her


# ------------------------------------------------------------------------------------------------
# Lean pool: several driver processes, requests sharded over threads
# ------------------------------------------------------------------------------------------------
class Pool:
    def __init__(self, chk, k):
        self.drivers = [core.LeanDriver("C20") for _ in range(k)]
        chk.lean = self.drivers[0]
        self.chk = chk

    def ask_many(self, reqs, costs=None):
        k = len(self.drivers)
        out = [None] * len(reqs)
        errs = []
        if costs is None:
            shards = [list(range(len(reqs)))[i::k] for i in range(k)]
        else:   # longest-processing-time-first assignment
            shards = [[] for _ in range(k)]
            load = [0.0] * k
            for i in sorted(range(len(reqs)), key=lambda i: -costs[i]):
                j = load.index(min(load))
                shards[j].append(i)
                load[j] += costs[i]

        def work(d, idxs):
            try:
                rep = d.ask_many([reqs[i] for i in idxs])
                for i, r in zip(idxs, rep):
                    out[i] = r
            except Exception as e:  # LeanError
                errs.append(e)

        ths = [threading.Thread(target=work, args=(d, s)) for d, s in zip(self.drivers, shards) if s]
        for t in ths:
            t.start()
        for t in ths:
            t.join()
        if errs:
            raise errs[0]
        return out

    def ask(self, req):
        return self.drivers[0].ask(req)

    def close(self):
        tot = sum(d.n for d in self.drivers)
        for d in self.drivers[1:]:
            d.close()
        self.drivers[0].n = tot


# ------------------------------------------------------------------------------------------------
# evaluation of one table against its target
# ------------------------------------------------------------------------------------------------
def judge(chk, label, ob, g, rep, tol, replay, sig_prefix):
    """compare Lean's exact table with the target; classify with the numpy oracle"""
    if "err" in rep:
        chk.fail("broken", f"{sig_prefix}-lean-err", f"{label}: model rejected the processor: {rep['err']}", replay)
        return
    if not rep.get("specOk", True):
        chk.fail("broken", "model-internal", f"{label}: permSkip differs from Matrix.permanent", replay)
        return
    dev = math.sqrt(float(core.unrat(rep["dev2"])))
    succ = float(core.unrat(rep["succ"]))
    leak = max([float(core.unrat(x)) for x in rep["leak"]] or [0.0])
    a = np.array([[core.uncx(z) for z in r] for r in rep["A"]], dtype=complex)
    # success probability per input (squared column norm of the table): must not depend on the input
    col = [float(np.sum(abs(a[:, j]) ** 2)) for j in range(a.shape[1])]
    bad = []
    if succ <= 1e-12:
        bad.append(("zero-success", f"the selected logical table vanishes (success probability {succ:.3g})"))
    else:
        rel = dev / math.sqrt(succ)
        chk.extra["max_dev_rel"] = max(chk.extra.get("max_dev_rel", 0.0), rel)
        if rel > tol:
            bad.append(("table", f"logical table differs from c.G by {rel:.3g} relative to |c| (|c|^2 = {succ:.6g})"))
        elif (max(col) - min(col)) / succ > 10 * tol:
            bad.append(("non-uniform-success",
                        f"success probability depends on the input: {min(col):.6g}..{max(col):.6g}"))
        elif leak > 10 * tol * succ:
            bad.append(("leak", f"selected non-logical outputs carry probability {leak:.3g} (success {succ:.3g})"))
    if not bad:
        return succ
    # direct oracle, independent of Lean
    an = np_table(ob["u"], ob["m"], ob["qubits"], ob["heralds"], ob["ps"])
    cn, devn = np_fit(an, np.asarray(g))
    agree = np.max(abs(an - a)) < 1e-9 * max(1.0, np.max(abs(an)))
    for sig, what in bad[:1]:
        if sig == "leak" and photons(ob) <= 7:      # the leak clause evaluated independently of Lean
            lkn = np_leak(ob)
            if lkn > 10 * tol * abs(cn) ** 2:
                chk.fail("violation", f"{sig_prefix}-{sig}", f"{label}: {what}", replay)
            else:
                chk.fail("broken", f"{sig_prefix}-{sig}-unconfirmed", f"{label}: {what} (numpy oracle: leak {lkn:.3g})",
                         replay)
        elif agree or (abs(cn) > 1e-9 and devn / abs(cn) > tol):
            chk.fail("violation", f"{sig_prefix}-{sig}", f"{label}: {what}", replay)
        else:
            chk.fail("broken", f"{sig_prefix}-{sig}-unconfirmed",
                     f"{label}: {what} (numpy oracle: dev {devn:.3g}, tables agree: {agree})", replay)
    return succ


# ------------------------------------------------------------------------------------------------
# the run
# ------------------------------------------------------------------------------------------------
def detect_fixed(pool):
    """which labelling does the tree implement?  (pinned code: CNOTs only; repaired: all two-qubit gates)"""
    if FIXED_MODEL in ("0", "1"):
        return FIXED_MODEL == "1"
    from perceval.converters.converter_utils import label_cnots_in_gate_sequence
    lab = label_cnots_in_gate_sequence([["cx", [0, 1], None, None], ["cz", [0, 1], None, None]])
    return lab[0] == HC


def labelling_real(gates):
    from perceval.converters.converter_utils import label_cnots_in_gate_sequence
    try:
        return label_cnots_in_gate_sequence([[g[0], list(g[1]), None, None] for g in gates])
    except Exception as e:
        return core.exc_class(e)


def union_find_forest(edges):
    par = {}

    def find(x):
        par.setdefault(x, x)
        while par[x] != x:
            par[x] = par[par[x]]
            x = par[x]
        return x

    for a, b in edges:
        ra, rb = find(a), find(b)
        if ra == rb:
            return False
        par[ra] = rb
    return True


def is_cyclic_real(edges):
    """the code's private cycle test; None when a tree no longer has it under that name (then it is not compared:
    the labelling built on it is still compared through `label_cnots_in_gate_sequence`)"""
    try:
        from perceval.converters.converter_utils import _is_cyclic
    except ImportError:
        return None
    nodes = sorted({x for e in edges for x in e})
    idx = {v: i for i, v in enumerate(nodes)}
    adj = [[] for _ in nodes]
    for a, b in edges:
        adj[idx[a]].append(idx[b])
        adj[idx[b]].append(idx[a])
    return bool(_is_cyclic(adj, len(nodes)))



def cut_ok_py(two_q, leaky):
    """direct oracle of the cut condition on a labelled circuit (independent of the Lean check): two_q = qubit pairs of
    the two-qubit gates in circuit order, leaky[i] = gate i is a post-processed CNOT.  For every leaky gate, its two
    qubits must NOT be connected by the two-qubit gates that come later.  -> index of the first offending gate or None"""
    for i, (e, lk) in enumerate(zip(two_q, leaky)):
        if not lk:
            continue
        par = {}

        def find(x):
            par.setdefault(x, x)
            while par[x] != x:
                par[x] = par[par[x]]
                x = par[x]
            return x
        for a, b in two_q[i + 1:]:
            par[find(a)] = find(b)
        if find(e[0]) == find(e[1]):
            return i
    return None


def heralded_after_pp(two_q, leaky):
    """is there a non-leaky two-qubit gate after a post-processed CNOT that shares a qubit with it?"""
    for i, lk in enumerate(leaky):
        if lk and any(not leaky[j] and set(two_q[j]) & set(two_q[i]) for j in range(i + 1, len(two_q))):
            return True
    return False


def placed(m, modes, u):
    """the matrix `u` acting on the listed modes of an m-mode circuit, identity elsewhere"""
    out = np.eye(m, dtype=complex)
    for i, mi in enumerate(modes):
        out[mi, mi] = 0
    for i, mi in enumerate(modes):
        for j, mj in enumerate(modes):
            out[mi, mj] = u[i, j]
    return out


def py_gate_modes(n, two_idx, a, b):
    return [2 * a, 2 * a + 1, 2 * b, 2 * b + 1, 2 * n + 2 * two_idx, 2 * n + 2 * two_idx + 1]


def placement_unitary(p, n, ops, modes):
    """the unitary of the converted circuit rebuilt from the REAL components' own matrices placed on `modes` (one list
    per source gate; SWAP: exchange of the two pairs).  -> matrix or None when the component list cannot be aligned"""
    import perceval.components.unitary_components as comp
    m = p.circuit_size
    real = [(r, c) for r, c in p.components if not isinstance(c, comp.PERM)]
    gates = [o for o in ops if o["g"] != "swap"]
    if len(real) != len(gates) or len(modes) != len(ops):
        return None
    u = np.eye(m, dtype=complex)
    it = iter(real)
    for o, md in zip(ops, modes):
        if o["g"] == "swap":
            sw = np.zeros((4, 4))
            for i, j in ((0, 2), (1, 3), (2, 0), (3, 1)):
                sw[i, j] = 1
            u = placed(m, md, sw) @ u
            continue
        r, c = next(it)
        cu = np.array(c.compute_unitary(), dtype=complex)
        if cu.shape[0] != len(md):
            return None
        u = placed(m, md, cu) @ u
    return u


def _real_flags_shard(args):
    """worker: (nq, k, first) -> (flag strings of all sequences starting with `first`, first non-forest witness)"""
    nq, k, first = args
    from perceval.converters.converter_utils import label_cnots_in_gate_sequence
    pairs = [(a, b) for a in range(nq) for b in range(nq) if a != b]
    out = []
    bad = None
    badcut = None
    hist = {}
    for combo in itertools.product(pairs, repeat=k - 1):
        seq = [first] + list(combo)
        try:
            lab = label_cnots_in_gate_sequence([["cx", list(e), None, None] for e in seq])
        except Exception as e:
            out.append(core.exc_class(e))
            continue
        out.append("".join("1" if x == PP else "0" for x in lab))
        npp = out[-1].count("1")
        hist[npp] = hist.get(npp, 0) + 1
        if bad is None and not union_find_forest([e for e, x in zip(seq, lab) if x == PP]):
            bad = seq
        if badcut is None and cut_ok_py(seq, [x == PP for x in lab]) is not None:
            badcut = seq
        if heralded_after_pp(seq, [x == PP for x in lab]):
            hist["hap"] = hist.get("hap", 0) + 1
    return out, bad, hist, badcut


def check_cut_real(chk, gates, labels, ups, crep, fixed, replay, table_fails=None):
    """the cut condition on the labels the REAL code produced: python oracle (direct, on the real labelling) and the
    model's `cutCheck` of the same labels must agree; a violated condition is a violation of the property's
    precondition "what a post-processed CNOT leaks never returns" (for a converted circuit `table_fails` says whether
    the logical table itself is wrong)"""
    two = [(tuple(g[1]), lab) for g, lab in zip(gates, labels) if len(g[1]) == 2]
    two_q = [e for e, _ in two]
    leaky = [ups and lab == PP for _, lab in two]
    off = cut_ok_py(two_q, leaky)
    if any(leaky):
        chk.branch("cut:pp")
    if heralded_after_pp(two_q, leaky):
        chk.branch("cut:heralded-after-pp")
    if off is not None:
        table_fails = table_fails() if callable(table_fails) else table_fails
    if off is not None and (fixed or table_fails):
        kind = "violation" if (table_fails is None or table_fails) else "broken"
        chk.fail(kind, "label-pp-leak-returns",
                 f"{gates} labelled {labels}: the qubits {two_q[off]} of a post-processed CNOT are connected again by the "
                 f"two-qubit gates that follow it" + ("" if table_fails is None else f" (logical table wrong: {table_fails})"),
                 replay)
    if "ok" not in crep or crep["ok"] != (off is None):
        chk.fail("broken", "cutcheck-model-mismatch",
                 f"{gates} labelled {labels}: python cut oracle {off is None}, model cutCheck {crep}", replay)


def check_labelling(chk, pool, fixed):
    import multiprocessing as mp
    rng = chk.rng
    # --- exhaustive: every sequence of k CNOTs on nq qubits (ordered pairs, both orientations)
    plan = chk.pick([(3, k) for k in range(1, 6)] + [(4, k) for k in range(1, 4)],
                    [(3, k) for k in range(1, 6)] + [(4, k) for k in range(1, 6)])
    shards = []
    for nq, k in plan:
        for a in range(nq):
            for b in range(nq):
                if a != b:
                    shards.append((nq, k, (a, b)))
    with mp.get_context("fork").Pool(chk.pick(8, 12)) as mpool:
        real_async = mpool.map_async(_real_flags_shard, shards)
        reps = pool.ask_many([{"op": "labelenum", "fixed": fixed, "nq": nq, "k": k, "first": list(f)}
                              for nq, k, f in shards], costs=[float((nq * (nq - 1)) ** k) for nq, k, _ in shards])
        # the model's cut check (`cutCheck`, sound for `CutOk` by `cut_check_sound`) on the model's own labelling of
        # every enumerated sequence: the statement "the labelling always passes the check" is NOT proved, this is
        # its exhaustive validation up to the stated sizes
        creps = pool.ask_many([{"op": "cutenum", "fixed": fixed, "nq": nq, "k": k, "first": list(f)}
                               for nq, k, f in shards], costs=[float((nq * (nq - 1)) ** k) for nq, k, _ in shards])
        reals = real_async.get()
    n_exh = 0
    seqs = []
    for (nq, k, first), rep, crep, (real, badseq, hist, badcut) in zip(shards, reps, creps, reals):
        model = rep.get("flags", "").split(",") if "flags" in rep else None
        chk.branch("cut:exhaustive")
        if hist.pop("hap", 0):
            chk.branch("cut:heralded-after-pp")
        if badcut is not None:
            chk.fail("violation", "label-pp-leak-returns",
                     f"CNOT sequence {badcut}: a post-processed CNOT's two qubits are connected again by the two-qubit "
                     f"gates that follow it (what it leaks can return to the logical space)",
                     {"kind": "label", "gates": [["cx", list(e)] for e in badcut]})
        if fixed and set(crep.get("ok", "0")) != {"1"} and badcut is None:
            pairs = [(a, b) for a in range(nq) for b in range(nq) if a != b]
            i = crep.get("ok", "0").find("0")
            combo = next(itertools.islice(itertools.product(pairs, repeat=k - 1), max(i, 0), None), ())
            sq = [["cx", list(e)] for e in [first] + list(combo)]
            chk.fail("broken", "cutcheck-model-rejects-model-labelling",
                     f"model: cutCheck rejects the model's labelling of {sq} ({crep.get('err', '')})",
                     {"kind": "label", "gates": sq})
        n_exh += len(real)
        chk.evaluations += len(real)
        chk.sigs.add(("labelenum", nq, k, first))
        chk.count("labelling_cnots", k, len(real))
        for npp, c in hist.items():
            chk.count("labelling_pp", npp, c)
            if 0 < npp < k:
                chk.branch("label-mixed", c)
        if badseq is not None:
            chk.fail("violation", "label-pp-cycle", f"post-processed CNOTs of the CNOT sequence {badseq} contain a cycle",
                     {"kind": "label", "gates": [["cx", list(e)] for e in badseq]})
        if model != real:
            pairs = [(a, b) for a in range(nq) for b in range(nq) if a != b]
            for i, combo in enumerate(itertools.product(pairs, repeat=k - 1)):
                if model is None or i >= len(model) or model[i] != real[i]:
                    seqs.append([["cx", list(e)] for e in [first] + list(combo)])   # re-examined (and shrunk) below
                    break
    # mixed sequences: CNOT / CX names, CZ, CSIGN, SWAP and one-qubit gates in between, up to 5 qubits
    for _ in range(chk.pick(1500, 6000)):
        nq = rng.randint(2, 5)
        s = []
        for _ in range(rng.randint(1, 7)):
            r = rng.random()
            a, b = rng.sample(range(nq), 2)
            if r < 0.55:
                s.append([rng.choice(["cx", "CNOT", "cnot", "CX"]), [a, b]])
            elif r < 0.8:
                s.append([rng.choice(["cz", "csign", "swap", "SWAP", "CZ"]), [a, b]])
            else:
                s.append([rng.choice(["h", "rz", "x"]), [a]])
        seqs.append(s)
    reqs = [{"op": "label", "fixed": fixed, "gates": s} for s in seqs]
    reps = pool.ask_many(reqs)
    reals_mixed = [labelling_real(s) for s in seqs]
    creps = pool.ask_many([{"op": "cutcheck", "fixed": fixed, "ups": True, "gates": s,
                            "labels": rl if isinstance(rl, list) else None} for s, rl in zip(seqs, reals_mixed)])
    bad = None
    for s, r, real, crep in zip(seqs, reps, reals_mixed, creps):
        model = r.get("labels", "rejected:" + r.get("err", "?"))
        ncx = sum(1 for g in s if g[0].upper() in ("CX", "CNOT"))
        others = sum(1 for g in s if len(g[1]) == 2 and g[0].upper() not in ("CX", "CNOT"))
        chk.count("labelling_cnots", ncx)
        chk.case(("label", json.dumps(s)), nontrivial=ncx >= 2, sample=None)
        if isinstance(real, list):
            check_cut_real(chk, s, real, True, crep, fixed, {"kind": "label", "gates": s})
            npp = sum(1 for x in real if x == PP)
            chk.count("labelling_pp", npp)
            if 0 < npp < ncx:
                chk.branch("label-mixed")
            if others and ncx:
                chk.branch("label-with-other-2q")
            # direct oracle on the real labelling: the post-processed CNOTs (plus, for the repaired rule, the other
            # two-qubit gates) must form a forest — an independent union-find
            pp_edges = [tuple(g[1]) for g, lab in zip(s, real) if lab == PP]
            oth = [tuple(g[1]) for g in s if len(g[1]) == 2 and g[0].upper() not in ("CX", "CNOT")]
            if not union_find_forest(pp_edges):
                chk.fail("violation", "label-pp-cycle", f"post-processed CNOTs {pp_edges} of {s} contain a cycle",
                         {"kind": "label", "gates": s})
            elif not union_find_forest(pp_edges + oth) and union_find_forest(oth):
                chk.branch("label-pp-closes-cycle-with-other-2q")
                if fixed:
                    chk.fail("violation", "label-ignores-2q", f"post-processed CNOTs {pp_edges} close a cycle with the "
                             f"other two-qubit gates {oth} of {s}", {"kind": "label", "gates": s})
        if real != model and bad is None:
            bad = (s, real, model)
    if bad:
        s, real, model = bad

        def fails(c):
            rr = pool.ask({"op": "label", "fixed": fixed, "gates": c})
            return labelling_real(c) != rr.get("labels", "rejected:" + rr.get("err", "?"))
        from . import gens
        small = gens.shrink_list(s, fails, max_rounds=60)
        rr = pool.ask({"op": "label", "fixed": fixed, "gates": small})
        chk.fail("broken", "label-model-mismatch",
                 f"label_cnots_in_gate_sequence({small}) = {labelling_real(small)}, model: {rr.get('labels')}",
                 {"kind": "label", "gates": small})
    chk.extra["labelling_exhaustive_sequences"] = n_exh
    # _is_cyclic (DFS) against the leaf criterion of the model and an independent union-find, all multigraphs
    edges_all = [(a, b) for a in range(4) for b in range(4)]
    graphs = []
    for k in range(0, chk.pick(4, 5)):
        for combo in itertools.combinations_with_replacement(edges_all, k):
            graphs.append([list(e) for e in combo])
    reps = pool.ask_many([{"op": "cyclic", "edges": g} for g in graphs])
    for g, r in zip(graphs, reps):
        real = is_cyclic_real([tuple(e) for e in g])
        chk.case(None, nontrivial=False)
        if real is None:
            chk.count("private_members_missing", "_is_cyclic")
            if r.get("cyclic") != (not union_find_forest([tuple(e) for e in g])):
                chk.fail("broken", "cyclic-model-mismatch", f"model cyclic({g}) = {r}", {"kind": "cyclic", "edges": g})
                break
            chk.branch("cyclic:" + str(r.get("cyclic")))
            continue
        if r.get("cyclic") != real or real != (not union_find_forest([tuple(e) for e in g])):
            chk.fail("broken", "cyclic-model-mismatch", f"_is_cyclic({g}) = {real}, model {r}", {"kind": "cyclic", "edges": g})
            break
        chk.branch("cyclic:" + str(real))
    chk.extra["cyclic_graphs"] = len(graphs)


def ps_after_swap_real(nq, a, b, conds):
    """modes of the post-selection conditions of a processor after the converter appended SWAP(a, b)"""
    from perceval.converters import MyQLMConverter
    from perceval.components import Processor
    from perceval.utils import PostSelect
    conv = MyQLMConverter.__new__(MyQLMConverter)
    conv._converted_processor = Processor("SLOS", 2 * nq)
    conv._converted_processor.set_postselection(PostSelect(" & ".join(f"{c} == 1" for c in conds)))
    try:
        conv._create_2_qubit_gates_from_catalog("swap", 2 * a, 2 * b, True)
        e = ps_json(conv._converted_processor.post_select_fn)
    except Exception as ex:
        return "raised:" + type(ex).__name__

    def leaves(x):
        if x is True:
            return []
        if "c" in x:
            return [sorted(x["c"])]
        if "not" in x:
            return leaves(x["not"])
        return [l for k in ("and", "or", "xor") if k in x for sub in x[k] for l in leaves(sub)]
    return sorted(leaves(e))


def detect_swap_fixed():
    """does the tree move the saved post-selection conditions with a SWAP (repaired) or leave them (pinned)?"""
    return ps_after_swap_real(3, 0, 1, [[0, 1]]) == [[2, 3]]


def check_swap_modemap(chk, pool):
    swap_fixed = detect_swap_fixed()
    chk.extra["swap_postselection_rule_of_tree"] = "conditions follow the photons (repaired)" if swap_fixed else \
        "conditions stay on the old modes (pinned)"
    from perceval.converters.abstract_converter import _create_mode_map
    from perceval.converters import MyQLMConverter
    from perceval.components import Processor
    import perceval.components.unitary_components as comp
    nq = chk.pick(6, 9)
    for a in range(nq):
        for b in range(nq):
            if a == b:
                continue
            rm = pool.ask({"op": "modemap", "cIdx": 2 * a, "cData": 2 * b})
            real = sorted(_create_mode_map(2 * a, 2 * b).items())
            if sorted(map(tuple, rm["map"])) != real:
                chk.fail("broken", "modemap-mismatch", f"_create_mode_map({2 * a},{2 * b}) = {real}, model {rm}",
                         {"kind": "modemap", "a": a, "b": b})
            rs = pool.ask({"op": "swap", "cIdx": 2 * a, "cData": 2 * b})
            conv = MyQLMConverter.__new__(MyQLMConverter)
            conv._converted_processor = Processor("SLOS", 2 * nq)
            try:
                conv._create_2_qubit_gates_from_catalog("swap", 2 * a, 2 * b, True)
                r, c = conv._converted_processor.components[-1]
                real = {"first": int(r[0]), "perm": [int(x) for x in c.perm_vector]}
                assert isinstance(c, comp.PERM)
            except Exception as e:
                real = {"err": type(e).__name__}
            chk.case(("swap", a, b), nontrivial=abs(a - b) >= 2)
            if abs(a - b) >= 2:
                chk.branch("swap-non-adjacent")
            if real != rs:
                chk.fail("broken", "swap-model-mismatch", f"SWAP({a},{b}): code {real}, model {rs}",
                         {"kind": "swap", "a": a, "b": b})
                continue
            # post-selection conditions saved before the SWAP and re-applied after it (a condition on qubit a, one on a
            # qubit the SWAP does not touch, one on a qubit in between when there is one)
            others = [q for q in range(nq) if q not in (a, b)]
            cq = [a] + others[:1] + [q for q in others if min(a, b) < q < max(a, b)][:1]
            conds = [[2 * q, 2 * q + 1] for q in dict.fromkeys(cq)]
            rps = ps_after_swap_real(nq, a, b, conds)
            mps = pool.ask({"op": "psswap", "fixed": swap_fixed, "a": a, "b": b, "conds": conds})
            chk.branch("swap-with-postselection")
            if sorted(map(sorted, mps.get("conds", []))) != rps:
                chk.fail("broken", "swap-postselect-model-mismatch",
                         f"SWAP({a},{b}) with conditions on {conds}: code re-applies {rps}, model {mps}",
                         {"kind": "psswap", "a": a, "b": b, "conds": conds})
            # direct oracle: the permutation exchanges the two pairs and fixes everything else
            if "perm" in real:
                f, perm = real["first"], real["perm"]
                tgt = list(range(2 * nq))
                for i, v in enumerate(perm):
                    tgt[f + i] = f + v
                want = list(range(2 * nq))
                want[2 * a], want[2 * a + 1], want[2 * b], want[2 * b + 1] = 2 * b, 2 * b + 1, 2 * a, 2 * a + 1
                if tgt != want:
                    chk.fail("violation", "swap-perm-wrong", f"SWAP({a},{b}) sends modes {tgt}, expected {want}",
                             {"kind": "swap", "a": a, "b": b})


def conv_cases(chk):
    rng = chk.rng
    cases = []
    per_fw = chk.pick(14, 45)
    cap = chk.pick(7, 8)     # photons in the converted processor when every two-qubit gate is heralded
    for fw in ("qiskit", "myqlm", "cqasm"):
        for i in range(per_fw):
            n = rng.choice(chk.pick((2, 3, 3), (2, 3, 3, 4)))
            ng = rng.randint(2, chk.pick(6, 10))
            ops = gen_ops(rng, fw, n, ng, (min(cap, 6 if n >= 4 else cap) - n) // 2)
            if i % 5 == 4:
                ops = [op for op in ops if op["g"] not in GENERIC[fw]] or ops
            style = "v3"
            if fw == "cqasm":
                style = ("v3", "v3multi", "v1")[i % 3]
                if style == "v1":   # the v1 reader knows fewer gates and no parameter in parentheses
                    ops = [op for op in ops if op["g"] in ("h", "x", "y", "z", "s", "sdg", "t", "tdg", "rx", "ry", "rz",
                                                            "x90", "mx90", "y90", "my90", "cx", "cz")] or \
                          [{"g": "h", "q": [0]}]
            extra = {}
            if fw == "cqasm" and style != "v1" and i % 4 != 3:
                extra["decl"] = gen_decl(rng, n, want_array_first=(i % 2 == 0))
            if fw == "qiskit" and i % 3 == 0:
                extra["reg"] = rng.choice(["qr", "a", "q"])
            for ups in (True, False):
                cases.append({"kind": "conv", "fw": fw, "n": n, "ops": ops, "ups": ups, "style": style, **extra})
    # hand-written regression shapes: reuse of a post-processed CNOT's qubits by CZ / SWAP / CNOT chains
    shapes = [
        (2, [("h", [0]), ("cx", [0, 1]), ("cz", [0, 1])]),
        (2, [("h", [0]), ("cx", [0, 1]), ("h", [1]), ("cz", [1, 0])]),
        (3, [("h", [0]), ("cx", [0, 1]), ("swap", [1, 2]), ("cx", [0, 2])]),
        (3, [("h", [0]), ("cx", [0, 2]), ("swap", [0, 1]), ("cx", [1, 2])]),
        (3, [("h", [0]), ("cx", [0, 1]), ("h", [1]), ("cx", [1, 2])]),
        (3, [("h", [0]), ("cx", [0, 2]), ("h", [2]), ("cx", [1, 2]), ("ry", [1], 0.3), ("cx", [0, 1])]),
        (3, [("h", [2]), ("cx", [2, 0]), ("cx", [2, 0])]),
        (3, [("h", [0]), ("cz", [0, 2]), ("cx", [0, 2])]),
        (3, [("h", [1]), ("swap", [0, 2]), ("cx", [1, 0]), ("swap", [2, 1])]),
        (3, [("h", [2]), ("cx", [2, 1])]),
        (4, [("h", [3]), ("cx", [3, 1]), ("x", [0])]),
        (2, [("dg", [0], [0.7, -1.2]), ("h", [1]), ("dg", [1], [0.0, 1.1]), ("dg", [0], [0.4, 0.0])]),
        # generic gates that share their name and first parameter, catalog gates that share name or angle
        (2, [("u", [0], [math.pi / 2, 0.3, 0.7]), ("u", [1], [math.pi / 2, 1.1, -0.4])]),
        (2, [("r", [0], [1.0, 0.0]), ("r", [1], [1.0, math.pi / 2]), ("r", [0], [2.0, math.pi / 2])]),
        (2, [("ug", [1], [0.8, 0.3, 0.7]), ("ug", [1], [0.8, -1.0, 0.7]), ("ug", [0], [0.8, 0.3, 2.0])]),
        (2, [("dg", [0], [0.7, -1.2]), ("dg", [1], [0.7, 0.9]), ("dg", [0], [-2.0, 0.9])]),
        (2, [("rx", [0], 0.4), ("rx", [1], 1.7), ("ry", [0], 0.4), ("rz", [1], 0.4), ("rz", [0], -2.2)]),
    ]
    if chk.thorough:
        shapes.append((4, [("h", [1]), ("cx", [1, 3]), ("cx", [2, 0])]))
    # a post-processed CNOT whose two qubits are both moved elsewhere by later SWAPs (its post-selection conditions
    # must follow the photons): needs >= 4 qubits
    shapes.append((4, [("h", [1]), ("cx", [1, 2]), ("swap", [2, 3]), ("swap", [0, 1])]))
    for _ in range(chk.pick(3, 10)):
        a, b, c, d = rng.sample(range(4), 4)
        sh = [(rng.choice(["h", "x", "s"]), [rng.randrange(4)]) for _ in range(rng.randint(0, 2))]
        sh += [("h", [a]), ("cx", [a, b])]
        sw = [("swap", rng.sample([a, c], 2)), ("swap", rng.sample([b, d], 2))]
        rng.shuffle(sw)
        sh += sw if rng.random() < 0.7 else [("swap", rng.sample([a, b], 2))] + sw
        sh += [(rng.choice(["h", "y", "t"]), [rng.randrange(4)]) for _ in range(rng.randint(0, 2))]
        shapes.append((4, sh))
    for n, sh in shapes:
        ops = [{"g": g[0], "q": list(g[1]), **({"p": g[2]} if len(g) > 2 else {})} for g in sh]
        for fw in ("qiskit", "myqlm", "cqasm"):
            if any(op["g"] not in ONE_Q[fw] + TWO_Q[fw] for op in ops):
                continue
            for ups in (True, False):
                if n >= 4 and not ups and not chk.thorough:
                    continue      # 4 qubits all-heralded: leakage enumeration too slow for the quick tier
                cases.append({"kind": "conv", "fw": fw, "n": n, "ops": ops, "ups": ups, "style": "v3", "shape": True})
    return cases


MALFORMED = [
    ("qiskit", 2, [{"g": "h", "q": [0]}, {"g": "ch", "q": [0, 1]}], "rejected:UnknownGateError"),
    ("qiskit", 2, [{"g": "iswap", "q": [0, 1]}], "rejected:UnknownGateError"),
    ("qiskit", 3, [{"g": "ccx", "q": [0, 1, 2]}], "rejected:NotImplementedError"),
    ("qiskit", 2, [{"g": "h", "q": [0]}, {"g": "measure", "q": []}], "rejected:AssertionError"),
    ("myqlm", 2, [{"g": "iswap", "q": [0, 1]}], "rejected:UnknownGateError"),
    ("myqlm", 3, [{"g": "h", "q": [1]}, {"g": "ccx", "q": [0, 1, 2]}], "rejected:NotImplementedError"),
    ("cqasm", 2, [{"g": "cr", "q": [0, 1], "p": 0.5}], "rejected:ConversionUnsupportedFeatureError"),
    ("cqasm", 2, [{"g": "swap", "q": [0, 1]}], "rejected:ConversionSyntaxError"),
    ("cqasm", 2, [{"g": "i", "q": [0]}], "rejected:ConversionUnsupportedFeatureError"),
    ("myqlm", 2, [{"g": "sdg", "q": [0]}], "rejected:AssertionError"),
    ("myqlm", 2, [{"g": "h", "q": [1]}, {"g": "tdg", "q": [0]}], "rejected:AssertionError"),
]


def run_conv_case(case, conv=None):
    """-> dict(ob, g, own_dev, plan, p); conv: converter object to reuse (default: a fresh one)"""
    fw, n, ops, ups = case["fw"], case["n"], case["ops"], case["ups"]
    g = source_unitary(n, ops)
    p, own = convert(fw, n, ops, ups, case.get("style", "v3"), case.get("decl"), case.get("reg"), conv)
    own_dev = None
    if own is not None:
        own_dev = float(np.max(abs(own - g)))
    ob = observe(p)
    return {"ob": ob, "g": g, "own_dev": own_dev, "plan": real_plan(p, n), "p": p}


def shrink_conv(chk, pool, case, sig, tol):
    """drop gates while the same failure persists (numpy oracle only: fast)"""
    def fails(ops):
        c = dict(case, ops=ops)
        try:
            r = run_conv_case(c)
        except Exception:
            return False
        return np_fails(r["ob"], r["g"], tol, zero_counts=sig.endswith("zero-success"), leak=sig.endswith("leak"))
    from . import gens
    try:
        return gens.shrink_list(case["ops"], fails, max_rounds=40)
    except Exception:
        return case["ops"]


def handle_tables(chk, pool, items, fixed):
    """items: list of (label, case, ob, g, tol, sig_prefix) -> asks Lean in parallel and judges"""
    reqs, costs = [], []
    for label, case, ob, g, tol, sigp in items:
        n_ph = photons(ob)
        want_leak = chk.thorough or n_ph <= 6      # quick tier: no leakage enumeration above 6 photons (cost)
        reqs.append(table_request(ob, g, want_leak=want_leak, spec=n_ph <= 5))
        q = len(ob["qubits"])
        chk.count("leakage_enumerated", want_leak)
        costs.append((2.0 ** n_ph if n_ph > 6 else math.factorial(n_ph) / 8) * 4 ** q *
                     (1 + (math.comb(3 * q - 1, q) / 2 ** q if want_leak else 0)))
        chk.count("evaluation", "ryser(validated)" if n_ph > 6 else "laplace(proved)")
    reps = pool.ask_many(reqs, costs)
    for (label, case, ob, g, tol, sigp), rep in zip(items, reps):
        before = len(chk.failures)
        succ = judge(chk, label, ob, g, rep, tol, case, sigp)
        if succ is not None:
            chk.count("success_probability", f"{succ:.4g}")
        if len(chk.failures) > before and case.get("kind") == "conv":
            kind, sig, what, replay = chk.failures[-1]
            if kind == "violation" and len(case["ops"]) > 1:
                small = shrink_conv(chk, pool, case, sig, tol)
                chk.failures[-1] = (kind, sig, what + f" [shrunk to {[(o['g'], o['q']) for o in small]}]",
                                    dict(case, ops=small))
        elif len(chk.failures) > before and case.get("kind") == "convseq":
            refine_session_failure(chk, len(chk.failures) - 1, tol)


def conv_signature(case, ob, kinds=None):
    """stable name of a converter failure: which structural situation is it?"""
    ops = case["ops"]
    hm = {h for h, _ in ob["heralds"]}
    if set(ps_modes(ps_json(ob["ps"]))) & hm:
        return "conv-postselect-on-herald-modes"
    if case["ups"] and kinds is not None and pp_swapped_away(ops, kinds):
        return "conv-ppcnot-qubits-swapped-away"
    two = [(o["g"], tuple(sorted(o["q"]))) for o in ops if len(o["q"]) == 2]
    kinds = {g for g, _ in two}
    if case["ups"] and "cx" in kinds and ({"cz", "swap"} & kinds):
        return "conv-ppcnot-with-other-2q"
    if case["ups"] and "cx" in kinds:
        return "conv-ppcnot"
    return "conv-" + case["fw"]


def run(chk: core.Check):
    chk.rule = ("catalog: every logic gate x every logical basis input/output (exhaustive per gate), parametrised gates "
                "on an angle grid plus random angles; converters: random Qiskit/myQLM/cQASM circuits on 2-3 (thorough 4) "
                "qubits with CZ, SWAP, non-adjacent qubits, generic one-qubit gates (also several with the same name that "
                "agree on part of their parameters only), use_postselection both ways, cQASM v3 programs with several "
                "declared qubit variables (arrays and single qubits in any order); sessions: 2-3 circuits converted one "
                "after the other by the SAME converter object (parameters changed, re-declared variables, other size), "
                "each result against its own source and earlier results observed again; cQASM declarations: probe "
                "programs of one-qubit gates, operand -> qubit exactly; "
                "labelling: all CNOT sequences up to the stated length, exactly. distinct = distinct (gate, parameters) "
                "or (front-end, gate sequence, use_postselection); non-trivial = a gate with heralds or post-selection, "
                "or a circuit with at least two two-qubit gates")
    chk.assumptions = [
        "the processor's matrix is the one linear_circuit().compute_unitary() reports (C01/C14), its wiring is C10's",
        "Fock amplitudes are permanents (C02); heralds / post-selection condition as in C04",
        "numerically defined gates (heralded CZ/CNOT, KLM, CCZ, Toffoli, controlled rotations, optimiser-fitted one-qubit "
        "gates) are validated per instance on the floats the code produced, not proved for all angles",
        "unknown one-qubit gates are fitted to the documented precision min_precision_gate=1e-4: tolerance 2e-3 there, "
        "1e-6 everywhere else",
    ]
    chk.required_branches = ["catalog:heralded", "catalog:postselected", "catalog:param", "catalog:ctrl-rotation",
                             "conv:qiskit", "conv:myqlm", "conv:cqasm", "conv:pp", "conv:heralded-cnot", "conv:cz",
                             "conv:swap", "conv:non-adjacent", "conv:generic-1q", "conv:generic-diag-2phase", "conv:generic-diag-upper", "conv:generic-diag-lower",
                             "conv:ups-false", "conv:generic-twin", "conv:param-twin", "conv:cqasm-multi-decl",
                             "conv:cqasm-single-var", "conv:cqasm-array-before-used-var", "conv:cqasm-names-unsorted",
                             "conv:converter-reused", "conv:reused-generic-twin", "conv:reused-redeclared",
                             "conv:reused-other-size", "conv:pp-qubits-swapped-away", "cqprobe", "cqprobe:array-before-used-var",
                             "cqprobe:converter-reused", "label-mixed",
                             "label-with-other-2q", "catmat", "cut:exhaustive", "cut:pp", "cut:heralded-after-pp", "place:checked",
                             "place:two-qubit", "place:non-adjacent", "place:control-below-data", "swap-non-adjacent", "swap-with-postselection", "conv-postselection-is-pair-conjunction", "psplan:checked", "psplan:nonempty", "psplan:moved-by-swap", "psplan:shared-qubit", "input:checked", "cyclic:True", "cyclic:False", "malformed"]
    import perceval as pcvl
    pcvl.random_seed(chk.seed)
    pool = Pool(chk, chk.pick(8, 12))
    try:
        phase = chk.extra.setdefault("phase_s", {})
        t_ph = [time.time()]

        def lap(name):
            phase[name] = round(time.time() - t_ph[0], 1)
            t_ph[0] = time.time()
        fixed = detect_fixed(pool)
        chk.extra["labelling_rule_of_tree"] = "all two-qubit gates (repaired)" if fixed else "CNOTs only (pinned)"
        # --- corpus first
        for path in sorted(glob.glob(os.path.join(core.VERIF, "corpus", "C20", "*.json"))):
            replay_case(chk, pool, json.load(open(path)), fixed)
        # --- catalog census: every item is either validated as a gate or a declared building block
        from perceval import catalog
        unknown = [nm for nm in catalog.list() if nm not in NOT_GATES and nm not in FIXED_GATES
                   and nm not in PARAM_GATES and nm != "postprocessed controlled gate"]
        if unknown:
            chk.fail("broken", "catalog-census", f"catalog items without a declared logical target: {unknown}",
                     {"kind": "census", "items": unknown})
        # --- catalog gates
        items = []
        for case in catalog_cases(chk):
            try:
                ob, g = run_catalog_case(case)
            except Exception as e:
                chk.fail("violation", f"catalog-raises-{type(e).__name__}",
                         f"catalog[{case['name']!r}].build_processor({case['kw']}) raised {type(e).__name__}: {e}", case)
                continue
            nm = case["name"]
            chk.count("catalog_gate", nm)
            if any(v for _, v in ob["heralds"]):
                chk.branch("catalog:heralded")
            if ob["ps"] is not None and str(ob["ps"]):
                chk.branch("catalog:postselected")
            if case["kw"]:
                chk.branch("catalog:param")
            if nm == "postprocessed controlled gate":
                chk.branch("catalog:ctrl-rotation")
            chk.case(("catalog", nm, json.dumps(case["kw"], sort_keys=True)),
                     nontrivial=bool(ob["heralds"]) or bool(case["kw"]),
                     sample={"gate": nm, "kw": case["kw"], "modes": ob["m"], "heralds": ob["heralds"]})
            items.append((f"catalog[{nm!r}]({case['kw']})", case, ob, g, TOL, "catalog-" + nm.replace(" ", "-")))
        lap("catalog-python")
        handle_tables(chk, pool, items, fixed)
        check_catalog_matrices(chk, pool)
        lap("catalog-lean")
        # --- converter bookkeeping, exactly
        check_labelling(chk, pool, fixed)
        lap("labelling")
        check_swap_modemap(chk, pool)
        lap("swap-modemap")
        check_cqasm_decl(chk, pool)
        lap("cqasm-declarations")
        # --- converted circuits
        items = []
        plan_reqs, plan_meta = [], []
        for case in conv_cases(chk):
            handle_conv_case(chk, case, items, plan_reqs, plan_meta, fixed)
        lap("convert-python")
        # --- long-lived converter objects: every conversion of a session against its own source
        for sess in session_cases(chk):
            handle_session(chk, sess, items, plan_reqs, plan_meta, fixed)
        lap("sessions-python")
        settle_plans(chk, pool, plan_reqs, plan_meta, fixed)
        handle_tables(chk, pool, items, fixed)
        lap("convert-lean")
        # --- malformed stream: unsupported gates are rejected with the class the dispatch model predicts
        for fw, n, ops, want in MALFORMED:
            chk.branch("malformed")
            got = "accepted"
            try:
                convert(fw, n, ops, True)
            except Exception as e:
                got = core.exc_class(e)
            chk.case(("malformed", fw, json.dumps(ops)), nontrivial=False)
            if fw != "cqasm" and want in ("rejected:UnknownGateError", "rejected:NotImplementedError"):
                rep = pool.ask({"op": "plan", "fixed": fixed, "ups": True, "gates": gate_seq_for_model(fw, ops)})
                mk = (rep.get("kinds") or ["?"])[-1]
                if mk != want:
                    chk.fail("broken", "malformed-model", f"model dispatch of {ops}: {mk}, expected {want}",
                             {"kind": "malformed", "fw": fw, "ops": ops})
            if got != want:
                chk.fail("broken", "malformed-mismatch", f"{fw} {ops}: {got}, expected {want}",
                         {"kind": "malformed", "fw": fw, "ops": ops})
        for bad in ({"op": "table", "m": 2, "U": [[["1", "0"]]], "qubits": [0], "heralds": [], "ps": True, "G": None,
                     "leak": False, "spec": False},
                    {"op": "table", "m": 2, "U": core.mat([[1, 0], [0, 1]]), "qubits": [1], "heralds": [], "ps": True,
                     "G": None, "leak": False, "spec": False},
                    {"op": "label", "fixed": False, "gates": [["cx", [0]]]},
                    {"op": "nope"}):
            if "err" not in pool.ask(bad):
                chk.fail("broken", "driver-accepts-malformed", f"driver accepted {bad}", {"kind": "driver", "req": bad})
    finally:
        pool.close()



def settle_plans(chk, pool, plan_reqs, plan_meta, fixed):
    """answers of the driver to the queued plan / cutcheck / modes questions, compared with the real code"""
    for (case, label, real), rep in zip(plan_meta, pool.ask_many(plan_reqs)):
        if real and real[0] == "cut":
            _, seq, labels, ups, ob, g, tol = real
            check_cut_real(chk, seq, labels, ups, rep, fixed, case,
                           table_fails=lambda: (np_fails(ob, g, tol) if photons(ob) <= 8 else None))
            continue
        if real and real[0] == "modes":
            _, n, ops, ob, p, g, tol = real
            check_placement(chk, label, case, n, ops, ob, p, g, tol, rep)
            continue
        model = (rep.get("kinds"), rep.get("heralds"))
        kinds = [k for k in (model[0] or []) if k in TWOQ_COMPONENTS]
        if (kinds, model[1]) != (real[0], real[1]):
            chk.fail("broken", "plan-model-mismatch",
                     f"{label}: components/heralds {real}, model {(kinds, model[1])}", case)


def check_placement(chk, label, case, n, ops, ob, p, g, tol, rep):
    """target 3: the layout and the wiring of the converted processor against the model's `convLayout` / `gateModes`
    (proved to be a `Placement`): same mode count, qubit modes and herald modes/values, and the processor's unitary
    equals the product of its own components' matrices placed on the model's modes (identity elsewhere)"""
    if "modes" not in rep:
        chk.fail("broken", "modes-model-rejects", f"{label}: model {rep}", case)
        return
    lay_real = (ob["m"], ob["qubits"], [list(h) for h in ob["heralds"]])
    lay_model = (rep["m"], rep["qubits"], [list(h) for h in rep["heralds"]])
    two = [o for o in ops if len(o["q"]) == 2 and o["g"] != "swap"]
    # independent python expectation of the modes
    want, j = [], 0
    for o in ops:
        if len(o["q"]) == 1:
            want.append([2 * o["q"][0], 2 * o["q"][0] + 1])
        elif o["g"] == "swap":
            a, b = o["q"]
            want.append([2 * a, 2 * a + 1, 2 * b, 2 * b + 1])
        else:
            want.append(py_gate_modes(n, j, *o["q"]))
            j += 1
    if rep["modes"] != want or not rep.get("layoutOk"):
        chk.fail("broken", "modes-model-mismatch", f"{label}: model modes {rep['modes']}, expected {want}", case)
        return
    # the post-selection the converted processor carries is `pairPS` of the model (Lemmas/C20Whole.lean): a conjunction
    # of conditions `[p, p+1] == 1` on qubit pairs - which is why it accepts every logical state
    # (converter_postselection_accepts_logical)
    def pair_conj(e):
        if e is True:
            return True
        if "and" in e:
            return all(pair_conj(x) for x in e["and"])
        return ("c" in e and e.get("op") == "==" and e.get("k") == 1 and len(e["c"]) == 2
                and sorted(e["c"])[1] == sorted(e["c"])[0] + 1 and sorted(e["c"])[0] in ob["qubits"])
    try:
        ps_ok = pair_conj(ps_json(ob["ps"]))
    except Exception:
        ps_ok = False
    chk.branch("conv-postselection-is-pair-conjunction" if ps_ok else "conv-postselection-other-shape")
    bad = None
    if not ps_ok:
        bad = f"the post-selection {ob['ps']} is not a conjunction of conditions [p,p+1]==1 on the qubit pairs {ob['qubits']}"
    elif lay_real != lay_model:
        bad = f"layout (modes, qubit modes, heralds) {lay_real}, model {lay_model}"
    else:
        u = placement_unitary(p, n, ops, rep["modes"])
        if u is None:
            chk.count("placement", "components-not-aligned")
            return
        dev = float(np.max(abs(u - ob["u"])))
        chk.count("placement", "checked")
        chk.branch("place:checked")
        if two:
            chk.branch("place:two-qubit")
        if any(abs(o["q"][0] - o["q"][1]) > 1 for o in two):
            chk.branch("place:non-adjacent")
        if any(o["q"][0] > o["q"][1] for o in two):
            chk.branch("place:control-below-data")
        if dev > 1e-9:
            bad = f"the processor's unitary differs by {dev:.3g} from its own components placed on the model's modes {rep['modes']}"
    if bad:
        fails = np_fails(ob, g, tol) if photons(ob) <= 7 else None
        chk.fail("violation" if fails else "broken", "conv-wiring", f"{label}: {bad}" +
                 (f"; logical table wrong: {fails}" if fails else ""), case)
    if ps_ok:
        check_postselection_plan(chk, label, case, n, ops, ob, p, g, tol, rep)


def ps_leaves(e):
    """the conditions of a conjunction, each as its sorted list of modes"""
    if e is True:
        return []
    if "and" in e:
        return [l for x in e["and"] for l in ps_leaves(x)]
    return [sorted(e["c"])]


def py_tracked_conditions(ops, kinds):
    """independent expectation of the post-selection of a converted processor: for every post-processed CNOT, the
    two rails of the two qubit positions its qubits occupy at the END of the circuit (later SWAPs move them).
    -> (sorted list of conditions, some condition was moved by a SWAP, two CNOTs share a condition)"""
    two = [o for o in ops if len(o["q"]) == 2]
    it = iter([k for k in kinds if k in ("PostProcessed CNOT", "Heralded CNOT", "Heralded CZ")])
    out, moved, total = set(), False, 0
    for i, o in enumerate(two):
        if o["g"] == "swap" or next(it, None) != "PostProcessed CNOT":
            continue
        pos = list(o["q"])
        for later in two[i + 1:]:
            if later["g"] == "swap":
                x, y = later["q"]
                pos = [y if v == x else x if v == y else v for v in pos]
        moved = moved or pos != list(o["q"])
        total += 2
        out |= {(2 * v, 2 * v + 1) for v in pos}
    return sorted(list(c) for c in out), moved, total > len(out)


def check_postselection_plan(chk, label, case, n, ops, ob, p, g, tol, rep):
    """round 8: the post-selection conditions the converted processor carries against the model's `planPS` (proved:
    exactly the conditions of the post-processed CNOTs moved by the SWAPs that follow them, each on the two rails
    of one qubit) and against an independent python tracking of the qubits; the default input state and the
    photon-number filter against `inputState` / the qubit count"""
    if "ps" not in rep:
        chk.fail("broken", "psplan-model-missing", f"{label}: model {rep}", case)
        return
    real_list = ps_leaves(ps_json(ob["ps"]))
    real = sorted(set(map(tuple, real_list)))
    model = sorted(set(tuple(sorted(c)) for c in rep["ps"]))
    tracked = sorted(set(tuple(sorted(c)) for c in rep["tracked"]))
    want, moved, shared = py_tracked_conditions(ops, rep["kinds"])
    want = sorted(map(tuple, want))
    chk.branch("psplan:checked")
    chk.count("psplan", f"{len(real)} conditions")
    if real:
        chk.branch("psplan:nonempty")
    if moved:
        chk.branch("psplan:moved-by-swap")
    if shared:
        chk.branch("psplan:shared-qubit")
    chk.count("psplan-order", "same order as the model" if real_list == [sorted(c) for c in rep["ps"]] else
              "other order")
    if model != tracked or model != want:
        chk.fail("broken", "psplan-model-inconsistent",
                 f"{label}: planPS {model}, ppTracked {tracked}, python tracking {want}", case)
        return
    if len(real_list) != len(real):
        chk.count("psplan", "repeated condition in the real post-selection")
    if real != model:
        fails = (np_fails(ob, g, tol) or np_fails(ob, g, tol, leak=True)) if photons(ob) <= 7 else None
        chk.fail("violation" if fails else "broken", "conv-postselection-plan",
                 f"{label}: the processor's post-selection conditions {real}, the post-processed CNOTs' qubits end "
                 f"on {model}" + (f"; logical table / leakage wrong: {fails}" if fails else ""), case)
        return
    # default input state and photon-number filter
    try:
        inp = [int(x) for x in p.input_state]
        flt = p.experiment.min_photons_filter if hasattr(p, "experiment") else p._min_detected_photons_filter
    except Exception as e:
        chk.fail("broken", "conv-input-state-unreadable", f"{label}: {type(e).__name__}: {e}", case)
        return
    chk.branch("input:checked")
    zero = encode(ob["m"], ob["qubits"], ob["heralds"], [0] * len(ob["qubits"]))
    if inp != rep["input"]:
        direct = inp != [int(x) for x in zero]
        chk.fail("violation" if direct else "broken", "conv-default-input",
                 f"{label}: default input state {inp}, model {rep['input']}" +
                 ("; it is not the encoding of the logical state |0...0> with the heralds" if direct else ""), case)
    elif flt != rep["minPhotons"]:
        chk.fail("violation" if (flt or 0) > len(ob["qubits"]) else "broken", "conv-min-photons-filter",
                 f"{label}: min_detected_photons_filter {flt}, model {rep['minPhotons']} (one photon per qubit)", case)


def pp_swapped_away(ops, kinds):
    """is there a post-processed CNOT such that, at the end of the circuit, neither of the two qubit positions it acted
    on still holds one of its two qubits (later SWAPs moved both elsewhere)?"""
    two = [o for o in ops if len(o["q"]) == 2]
    if len([o for o in two if o["g"] != "swap"]) != len(kinds):
        return False
    it = iter(kinds)
    for i, o in enumerate(two):
        if o["g"] == "swap" or next(it) != "PostProcessed CNOT":
            continue
        pos = list(o["q"])
        for later in two[i + 1:]:
            if later["g"] == "swap":
                x, y = later["q"]
                pos = [y if v == x else x if v == y else v for v in pos]
        if not set(pos) & set(o["q"]):
            return True
    return False


def conv_shape_branches(chk, case, generated):
    """counters of the input shapes the generator must produce (counted on generated cases only, so that the
    stored corpus cannot hide a blind generator)"""
    if not generated:
        return
    ops, fw = case["ops"], case["fw"]
    if has_twins(ops):
        chk.branch("conv:generic-twin")
    if has_param_twins(ops):
        chk.branch("conv:param-twin")
    decl = case.get("decl")
    if fw == "cqasm" and decl and case.get("style") != "v1":
        if len(decl) >= 2:
            chk.branch("conv:cqasm-multi-decl")
        if any(size < 0 for _, size in decl):
            chk.branch("conv:cqasm-single-var")
        refs = decl_refs(decl)
        used = {refs[k][0] for o in ops for k in o["q"]}
        names = [nm for nm, _ in decl]
        if any(size >= 2 and (set(names[i + 1:]) & used) for i, (nm, size) in enumerate(decl)):
            chk.branch("conv:cqasm-array-before-used-var")
        if names != sorted(names):
            chk.branch("conv:cqasm-names-unsorted")


def handle_conv_case(chk, case, items, plan_reqs, plan_meta, fixed, generated=True, conv=None, replay=None,
                     label=None, sigp=None):
    """converts one circuit (with `conv` when given: a converter object with a history) and queues the table / plan
    questions; replay: what reproduces the case (default: the case itself).  -> result dict or None"""
    fw, n, ops, ups = case["fw"], case["n"], case["ops"], case["ups"]
    label = label or f"{fw} {[(o['g'], o['q']) for o in ops]} use_postselection={ups}" + \
        (f" decl={case['decl']}" if case.get("decl") else "")
    replay = replay if replay is not None else case
    try:
        r = run_conv_case(case, conv)
    except Exception as e:
        chk.fail("violation", f"conv-raises-{type(e).__name__}",
                 f"{label}: conversion raised {type(e).__name__}: {str(e)[:200]}", replay)
        return None
    if r["own_dev"] is not None and r["own_dev"] > 1e-9:
        raise RuntimeError(f"harness: source unitary of {label} differs from the framework's own by {r['own_dev']}")
    ob = r["ob"]
    chk.branch("conv:" + fw)
    two = [o for o in ops if len(o["q"]) == 2]
    kinds, her = r["plan"]
    if "PostProcessed CNOT" in kinds:
        chk.branch("conv:pp")
    if "Heralded CNOT" in kinds:
        chk.branch("conv:heralded-cnot")
    if any(o["g"] == "cz" for o in two):
        chk.branch("conv:cz")
    if any(o["g"] == "swap" for o in two):
        chk.branch("conv:swap")
    if any(abs(o["q"][0] - o["q"][1]) > 1 for o in two):
        chk.branch("conv:non-adjacent")
    if has_generic(fw, ops):
        chk.branch("conv:generic-1q")
    for o in ops:
        if o["g"] == "dg":
            chk.branch("conv:generic-diag-" + ("2phase" if 0.0 not in o["p"] else "upper" if o["p"][0] == 0.0 else "lower"))
    if not ups:
        chk.branch("conv:ups-false")
    conv_shape_branches(chk, case, generated)
    if generated and ups and pp_swapped_away(ops, kinds):
        chk.branch("conv:pp-qubits-swapped-away")
    chk.count("conv_qubits", n)
    chk.count("conv_gates", len(ops))
    chk.count("conv_photons", photons(ob))
    if fw == "cqasm":
        chk.count("cqasm_declared_variables", len(case.get("decl") or [0]))
    for o in ops:
        chk.count("conv_gate_kind", o["g"])
    chk.case(("conv", fw, json.dumps(ops, sort_keys=True), ups, case.get("style"), json.dumps(case.get("decl")),
              json.dumps(replay, sort_keys=True) if replay is not case else None), nontrivial=len(two) >= 2,
             sample={"fw": fw, "n": n, "ups": ups, "ops": [(o["g"], o["q"]) for o in ops], "components": kinds})
    # the ports carry the names of the source qubits, in the order of the source's declarations
    want = expected_port_names(case)
    if ob["names"] != want:
        chk.fail("broken", "conv-port-names", f"{label}: ports are named {ob['names']}, the source's qubits {want}",
                 replay)
    plan_reqs.append({"op": "plan", "fixed": fixed, "ups": ups, "gates": gate_seq_for_model(fw, ops)})
    plan_meta.append((replay, label, (kinds, her)))
    # the cut condition on the labels the real labelling gives for this gate sequence, and the wiring
    seq = gate_seq_for_model(fw, ops)
    real_labels = labelling_real(seq)
    if isinstance(real_labels, list):
        plan_reqs.append({"op": "cutcheck", "fixed": fixed, "ups": ups, "gates": seq, "labels": real_labels})
        plan_meta.append((replay, label, ("cut", seq, real_labels, ups, ob, r["g"],
                                         GENERIC_TOL if has_generic(fw, ops) else TOL)))
    plan_reqs.append({"op": "modes", "n": n, "fixed": fixed, "ups": ups, "gates": seq})
    plan_meta.append((replay, label, ("modes", n, ops, ob, r["p"], r["g"],
                                     GENERIC_TOL if has_generic(fw, ops) else TOL)))
    tol = GENERIC_TOL if has_generic(fw, ops) else TOL
    items.append((label, replay, ob, r["g"], tol, sigp or conv_signature(case, ob, kinds)))
    return r


# ------------------------------------------------------------------------------------------------
# one converter object, several conversions: the result must not depend on what was converted before
# ------------------------------------------------------------------------------------------------
def session_circuit(rng, fw, n, want_param=True):
    ops = gen_ops(rng, fw, n, rng.randint(1, 4), 1, twins=False)
    multi = [g for g in ONE_Q[fw] if g in MULTI_PARAM and g != "dg"] or [g for g in ONE_Q[fw] if g in PARAM1]
    if want_param and not any(o["g"] in multi for o in ops):
        g = rng.choice(multi)
        ops.insert(rng.randint(0, len(ops)), {"g": g, "q": [rng.randrange(n)], "p": rand_params(rng, g)})
    c = {"n": n, "ops": ops, "ups": rng.random() < 0.7, "style": "v3"}
    if fw == "cqasm":
        c["decl"] = gen_decl(rng, n, want_array_first=rng.random() < 0.5)
    return c


def mutate_circuit(rng, fw, c, mode):
    c = json.loads(json.dumps(c))
    n = c["n"]
    if mode == "twin":        # same gates, same names, same first parameters — other remaining parameters
        for i, o in enumerate(c["ops"]):
            if o.get("p") is not None and o["g"] != "dg":
                tw = twin_of(rng, o, n, keep_first=True if isinstance(o["p"], list) else None)
                tw["q"] = o["q"]
                c["ops"][i] = tw
    elif mode == "flip":
        c["ups"] = not c["ups"]
    elif mode == "resize":
        c = session_circuit(rng, fw, 5 - n)
    elif mode == "redeclare" and fw == "cqasm":     # the same variable names with other widths, in another order
        old = [nm for nm, _ in c["decl"]]
        d = gen_decl(rng, n, want_array_first=rng.random() < 0.5)
        rng.shuffle(old)
        names = old + [nm for nm, _ in d if nm not in old]      # the old names first, all distinct
        c["decl"] = [[names[i], size] for i, (_, size) in enumerate(d)]
    elif mode == "fresh":
        c = session_circuit(rng, fw, n)
    return c          # "repeat": unchanged


def session_cases(chk):
    rng = chk.rng
    out = []
    for fw in ("qiskit", "myqlm", "cqasm"):
        sched = (["redeclare", "twin", "resize", "redeclare", "flip", "redeclare"] if fw == "cqasm" else
                 ["twin", "resize", "twin", "flip", "twin", "fresh"])
        for i in range(chk.pick(6, 16)):
            circuits = [session_circuit(rng, fw, rng.choice((2, 3)))]
            for k in range(rng.randint(1, 2)):
                mode = sched[i % len(sched)] if k == 0 else rng.choice(sched + ["repeat"])
                circuits.append(mutate_circuit(rng, fw, circuits[-1], mode))
            out.append({"kind": "convseq", "fw": fw, "circuits": circuits})
    return out


def same_ob(a, b):
    return (a["m"] == b["m"] and a["heralds"] == b["heralds"] and a["qubits"] == b["qubits"] and a["names"] == b["names"]
            and str(a["ps"]) == str(b["ps"]) and a["u"].shape == b["u"].shape and np.array_equal(a["u"], b["u"]))


def handle_session(chk, sess, items, plan_reqs, plan_meta, fixed, generated=True):
    fw, circuits = sess["fw"], sess["circuits"]
    conv = make_converter(fw)
    chk.count("session_length", len(circuits))
    done = []
    for k, c in enumerate(circuits):
        case = dict(c, kind="conv", fw=fw)
        replay = {"kind": "convseq", "fw": fw, "circuits": circuits[:k + 1]}
        label = (f"{fw} conversion #{k + 1} by one converter object {[(o['g'], o['q']) for o in c['ops']]} "
                 f"use_postselection={c['ups']}" + (f" decl={c['decl']}" if c.get("decl") else ""))
        r = handle_conv_case(chk, case, items, plan_reqs, plan_meta, fixed, generated, conv,
                             replay if k else case, label if k else None, "conv-session" if k else None)
        if generated and k:
            chk.branch("conv:converter-reused")
            prev = circuits[k - 1]
            if any(is_twin(a, b) for a in prev["ops"] for b in c["ops"]):
                chk.branch("conv:reused-generic-twin")
            if c.get("decl") and prev.get("decl") and c["decl"] != prev["decl"]:
                chk.branch("conv:reused-redeclared")
            if c["n"] != prev["n"]:
                chk.branch("conv:reused-other-size")
        done.append((case, r, label))
    # a later conversion must not alter a processor returned earlier
    for k, (case, r, label) in enumerate(done[:-1]):
        if r is None:
            continue
        try:
            late = observe(r["p"])
        except Exception as e:
            chk.fail("violation", "conv-session-earlier-result-altered",
                     f"{label}: the processor cannot be observed any more after later conversions: "
                     f"{type(e).__name__}: {str(e)[:120]}", {"kind": "convseq", "fw": fw, "circuits": circuits, "late": k})
            continue
        if not same_ob(r["ob"], late):
            tol = GENERIC_TOL if has_generic(fw, case["ops"]) else TOL
            items.append((label + " (observed again after the later conversions)",
                          {"kind": "convseq", "fw": fw, "circuits": circuits, "late": k}, late, r["g"], tol,
                          "conv-session-earlier-result-altered"))


def np_fails(ob, g, tol, zero_counts=True, leak=False):
    if photons(ob) > 10:
        return False
    an = np_table(ob["u"], ob["m"], ob["qubits"], ob["heralds"], ob["ps"])
    cn, devn = np_fit(an, g)
    if abs(cn) < 1e-9:
        return zero_counts
    if leak:
        return photons(ob) <= 7 and np_leak(ob) > 10 * tol * abs(cn) ** 2
    return devn / abs(cn) > tol


def session_last_fails(sess, tol, leak=False):
    conv = make_converter(sess["fw"])
    r = None
    for c in sess["circuits"]:
        r = run_conv_case(dict(c, kind="conv", fw=sess["fw"]), conv)
    return np_fails(r["ob"], r["g"], tol, leak=leak)


def shrink_session(sess, tol, leak=False):
    """fewer earlier conversions, then fewer gates in each circuit, while the last conversion still fails"""
    from . import gens

    def safe(s2):
        try:
            return session_last_fails(s2, tol, leak)
        except Exception:
            return False
    cur = json.loads(json.dumps(sess))
    k = 0
    while k < len(cur["circuits"]) - 1:
        cand = dict(cur, circuits=cur["circuits"][:k] + cur["circuits"][k + 1:])
        if safe(cand):
            cur = cand
        else:
            k += 1
    for k in range(len(cur["circuits"])):
        def fails(ops, k=k):
            cs = list(cur["circuits"])
            cs[k] = dict(cs[k], ops=ops)
            return safe(dict(cur, circuits=cs))
        ops = gens.shrink_list(cur["circuits"][k]["ops"], fails, max_rounds=25)
        cur["circuits"][k] = dict(cur["circuits"][k], ops=ops)
    return cur


def refine_session_failure(chk, idx, tol):
    """a failing conversion of a session: does the circuit fail on its own (then it is an ordinary converter failure)
    or only after the earlier conversions (history dependence)?"""
    kind, sig, what, replay = chk.failures[idx]
    if kind != "violation" or replay.get("kind") != "convseq" or "late" in replay:
        return
    last = dict(replay["circuits"][-1], kind="conv", fw=replay["fw"])
    try:
        r = run_conv_case(last)
        alone = np_fails(r["ob"], r["g"], tol, leak=sig.endswith("leak"))
    except Exception:
        alone = False
    if alone:
        sig2 = conv_signature(last, r["ob"], r["plan"][0]) + sig[len("conv-session"):]
        small = shrink_conv(chk, None, last, sig2, tol) if len(last["ops"]) > 1 else last["ops"]
        chk.failures[idx] = (kind, sig2, what + f" — also with a fresh converter [shrunk to "
                             f"{[(o['g'], o['q']) for o in small]}]", dict(last, ops=small))
        return
    small = shrink_session(replay, tol, leak=sig.endswith("leak"))
    desc = "; then ".join(str([(o["g"], o["q"], o.get("p")) for o in c["ops"]]) +
                          (f" decl={c['decl']}" if c.get("decl") else "") for c in small["circuits"])
    chk.failures[idx] = (kind, "conv-history-dependent" + sig[len("conv-session"):],
                         what + f" — the same circuit converted by a fresh converter is correct: the result depends on "
                         f"what the converter object converted before [shrunk to: {desc}]", small)


# ------------------------------------------------------------------------------------------------
# cQASM: declared variables -> qubits, exactly (probe programs of one-qubit gates only: no fit, no permanent)
# ------------------------------------------------------------------------------------------------
def probe_source(decl, order):
    refs = decl_refs(decl)
    lines = ["version 3"] + [f"qubit {nm}" if size < 0 else f"qubit[{size}] {nm}" for nm, size in decl]
    for k in order:
        nm, i = refs[k]
        lines.append(f"Rx({fl(0.1 + 0.2 * k)}) " + (nm if i < 0 else f"{nm}[{i}]"))
    return "\n".join(lines) + "\n"


def run_probe(chk, pool, probe, conv=None, generated=True):
    """probe: {"kind":"cqprobe","decl":[[name,size|-1],…],"order":[qubit,…]} — gate k is Rx(0.1+0.2k) on qubit k"""
    decl, order = probe["decl"], probe["order"]
    refs = decl_refs(decl)
    n = len(refs)
    names = [nm for nm, _ in decl]
    if generated:
        chk.branch("cqprobe")
        if any(size >= 2 and any(refs[k][0] in names[i + 1:] for k in order) for i, (nm, size) in enumerate(decl)):
            chk.branch("cqprobe:array-before-used-var")
        if conv is not None:
            chk.branch("cqprobe:converter-reused")
    chk.case(("cqprobe", json.dumps(decl), tuple(order)), nontrivial=len(decl) >= 2)
    chk.count("cqasm_declared_variables", len(decl))
    rep = pool.ask({"op": "cqdecl", "decls": decl, "refs": [list(refs[k]) for k in order]})
    try:
        p = (conv or make_converter("cqasm")).convert(probe_source(decl, order))
        u = np.array(p.linear_circuit().compute_unitary(), dtype=complex)
        real_names = [p.get_input_port(2 * k).name for k in range(p.circuit_size // 2)]
        real_pos = [int(r[0]) // 2 for r, _ in p.components]
    except Exception as e:
        chk.fail("violation", f"cqasm-probe-raises-{type(e).__name__}",
                 f"cQASM declarations {decl}, one-qubit gates on qubits {order}: {type(e).__name__}: {str(e)[:160]}", probe)
        return
    # direct oracle: the source program's unitary, qubits in declaration order (offsets = sums of widths)
    want = np.eye(2 * n, dtype=complex)
    for k in order:
        want[2 * k:2 * k + 2, 2 * k:2 * k + 2] = m1("rx", 0.1 + 0.2 * k) @ want[2 * k:2 * k + 2, 2 * k:2 * k + 2]
    if u.shape != want.shape or np.max(abs(u - want)) > 1e-9:
        chk.fail("violation", "cqasm-operand-wrong-qubit",
                 f"cQASM declarations {decl}: the gates written on qubits {[decl_names(decl)[k] for k in order]} (qubits "
                 f"{order} in declaration order) are applied to qubits {real_pos}", probe)
        return
    if "err" in rep or rep.get("idx") != real_pos or rep.get("names") != real_names or rep.get("n") != n:
        chk.fail("broken", "cqasm-decl-model-mismatch",
                 f"cQASM declarations {decl}: code puts the gates on {real_pos} and names the ports {real_names}; model {rep}",
                 probe)


def check_cqasm_decl(chk, pool):
    rng = chk.rng
    conv = make_converter("cqasm")
    for i in range(chk.pick(60, 250)):
        n = rng.randint(2, chk.pick(6, 8))
        decl = gen_decl(rng, n, want_array_first=(i % 2 == 0))
        order = [k for k in range(n) if rng.random() < 0.8] or [n - 1]
        rng.shuffle(order)
        run_probe(chk, pool, {"kind": "cqprobe", "decl": decl, "order": order}, conv if i % 2 else None)
    # references that name no declared qubit: the model says `list.index` fails, the code must reject them
    for decl, ref, text in (([["a", 2], ["b", -1]], ["a", -1], "a"), ([["a", 2], ["b", -1]], ["b", 0], "b[0]"),
                            ([["b", -1], ["a", 2]], ["a", -1], "a")):
        chk.branch("malformed")
        rep = pool.ask({"op": "cqdecl", "decls": decl, "refs": [ref]})
        src = probe_source(decl, []) + f"H {text}\n"
        got = "accepted"
        try:
            make_converter("cqasm").convert(src)
        except Exception as e:
            got = core.exc_class(e)
        chk.case(("cqdecl-malformed", json.dumps(decl), text), nontrivial=False)
        if rep.get("idx") != [None] or got == "accepted":
            chk.fail("broken", "cqasm-decl-malformed-mismatch",
                     f"cQASM {decl} with operand {text}: code {got}, model {rep}", {"kind": "cqmalformed", "src": src})


def replay_case(chk, pool, data, fixed):
    case = data.get("replay", data)
    kind = case.get("kind")
    if kind == "catalog":
        ob, g = run_catalog_case(case)
        handle_tables(chk, pool, [(f"catalog[{case['name']!r}]({case['kw']})", case, ob, g, TOL,
                                   "catalog-" + case["name"].replace(" ", "-"))], fixed)
    elif kind == "conv":
        items, pr, pm = [], [], []
        handle_conv_case(chk, case, items, pr, pm, fixed, generated=False)
        settle_plans(chk, pool, pr, pm, fixed)
        handle_tables(chk, pool, items, fixed)
    elif kind == "convseq":
        items, pr, pm = [], [], []
        handle_session(chk, case, items, pr, pm, fixed, generated=False)
        settle_plans(chk, pool, pr, pm, fixed)
        handle_tables(chk, pool, items, fixed)
    elif kind == "psswap":
        nq = max(case["a"], case["b"], *[m // 2 for c in case["conds"] for m in c]) + 1
        rps = ps_after_swap_real(nq, case["a"], case["b"], case["conds"])
        mps = pool.ask({"op": "psswap", "fixed": detect_swap_fixed(), "a": case["a"], "b": case["b"],
                        "conds": case["conds"]})
        chk.case(("psswap", json.dumps(case)), nontrivial=True)
        if sorted(map(sorted, mps.get("conds", []))) != rps:
            chk.fail("broken", "swap-postselect-model-mismatch", f"{case}: code {rps}, model {mps}", case)
    elif kind == "cqprobe":
        run_probe(chk, pool, case, generated=False)
        if case.get("reuse"):      # the same converter object converts the probes one after the other
            conv = make_converter("cqasm")
            for pr in case["reuse"] + [case]:
                run_probe(chk, pool, dict(pr, kind="cqprobe"), conv, generated=False)
    elif kind == "label":
        rr = pool.ask({"op": "label", "fixed": fixed, "gates": case["gates"]})
        real = labelling_real(case["gates"])
        chk.case(("label", json.dumps(case["gates"])), nontrivial=True)
        if isinstance(real, list) and fixed:     # direct oracle: post-processed CNOTs + other two-qubit gates = forest
            pp_edges = [tuple(g[1]) for g, lab in zip(case["gates"], real) if lab == PP]
            oth = [tuple(g[1]) for g in case["gates"] if len(g[1]) == 2 and g[0].upper() not in ("CX", "CNOT")]
            if not union_find_forest(pp_edges) or (union_find_forest(oth) and not union_find_forest(pp_edges + oth)):
                chk.fail("violation", "label-ignores-2q", f"post-processed CNOTs {pp_edges} close a cycle with the other "
                         f"two-qubit gates {oth} of {case['gates']}", case)
        if isinstance(real, list):
            crep = pool.ask({"op": "cutcheck", "fixed": fixed, "ups": True, "gates": case["gates"], "labels": real})
            check_cut_real(chk, case["gates"], real, True, crep, fixed, case)
        if real != rr.get("labels"):
            chk.fail("broken", "label-model-mismatch", f"{case['gates']}: code {real}, model {rr}", case)
    else:
        chk.case(None, nontrivial=False)


def replay(chk, data):
    chk.rule = "replay of one stored case"
    pool = Pool(chk, 1)
    try:
        replay_case(chk, pool, data, detect_fixed(pool))
    finally:
        pool.close()
