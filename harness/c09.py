"""C09 — sampling draws from the computed distribution and honours its limits.

Five parts (each counted separately in the evidence):

 A. CORRESPONDENCE of the sampling bookkeeping with the Lean model (`Model/C09.lean`):
    `NoisySamplingSimulator.samples` is driven through its public entry point with a *scripted*
    sampling backend (every shot's outcome — physically rejected / logically rejected / selected — is
    dictated by the script) and a *scripted* source (size of every batch of inputs handed back, first
    batch included) and a scripted progress callback (cancel answers).  Compared with the model, exactly:
    exception class, number of samples, every `nb_gen` asked from the generator, `len(output)` seen by
    the callback at every iteration; with tolerance 1e-9 against the model's exact rational: the two
    performances.  Exhaustive over short outcome sequences x (max_samples, max_shots) in {0..4,None}^2,
    random longer ones.  The perfect fast path is compared on its request sizes.
 B. CORRESPONDENCE of `probs_to_sample_count` (np.random.normal, random.choice and the fall-back sampler
    replaced by scripted streams), `_deduce_count` (through the keyword interface),
    `samples_to_sample_count`, `sample_count_to_probs`.  One case in five is a *crowded* table (tens to hundreds of
    states with expected counts around 0.5..2.5) whose rounded total is off by several units while no state holds
    more than 1-3 counts: the repair must spread over several states.
 B2. DIRECT ORACLE with the REAL generators (seeded per case): `probs_to_sample_count`, `probs_to_samples`,
    `sample_count_to_samples`, `samples_to_sample_count`, `sample_count_to_probs` on crowded / small / large /
    skewed tables with the request given positionally or by max_samples / max_shots: totals equal the request
    exactly, no negative or foreign entry.
 C. DIRECT ORACLE on real processors: all (max_samples, max_shots) in {0,1,2,5,17,None}^2 through
    `Processor.samples` and `Sampler.samples / sample_count`: returned <= min(...), every sample legal.
 C2. DIRECT ORACLE: `Sampler(strong-simulation processor).samples / sample_count(n)` (results CONVERTED from
    probabilities) on 5..32-mode Haar and balanced interferometers with n of the order of the number of outcomes:
    the total is exactly min(n, max_shots_per_call), every state legal.
 D. VALIDATION (not proof): seed reproducibility — every Python-layer random path run under `pcvl.random_seed(s)`,
    disturbed under another seed, run again under `s` and compared bit for bit (distinguishability tags renamed by
    order of appearance); once on objects built anew for every run and once on LONG-LIVED objects (one Source /
    Processor / Sampler / detector list / table used for all three runs: state that outlives `random_seed`).
    `Processor.samples` / `Sampler.samples` are included on a mode-re-routing circuit, where the native bulk sampler
    has no random decision to take.  The seeds 0, 1 and 2**32-1 are part of every run.
 E. VALIDATION (not proof), a *statistical test*: goodness of fit of samples against the distribution
    strong simulation of the same processor computes, and of the reported performances.  Thresholds are
    finite-sample bounds (Chernoff/KL bound on every binomial cell, Bretagnolle-Huber-Carol bound on the
    L1 distance, Hoeffding for the performances), Bonferroni-corrected so that the whole run false-alarms
    with probability <= 1e-9 on a correct implementation.  The performances are compared on a number of shots fixed
    before the loop starts (counted by the progress callback), also for an effective photon filter of 2 or more and
    on processors built so that a sizeable part of the shots fails BOTH the photon filter and the selection (lossy
    detectors + filter >= 2 + herald / post-selection; the exact probability of such a shot is computed by strong
    simulation of the open experiment and is a coverage counter).
 E3. the same test on the detector stage alone: `simulate_detectors_sample` against `simulate_detectors`, a SERIES of
    detector lists on one Fock state in one process, successive lists keeping the detectors' names and changing their
    parameters (wires, max detections, reflectivity) or building the same description again.
 E4. the same test on SERIES of processors run one after the other in one worker process: new processors whose
    detectors keep their names, new processors differing in noise / filter / post-selection / input, and ONE
    processor re-configured through its setters between two requests (reference: a fresh strong-simulation
    processor of the new configuration).
 B3. CORRESPONDENCE of the conversions that draw samples (`BSDistribution.sample`, `probs_to_samples`,
    `sample_count_to_samples`, `samples_to_probs`; `Model/C09Conv.lean`) with the picks of `random.choices` scripted,
    plus the round trip counts -> probabilities -> counts with `np.random.normal` switched off on the real code.
 F. EXACT REPLAY (`Model/C09Run.lean`): the real draws of one `Processor.samples` / `NoisySamplingSimulator.samples`
    request are recorded at the three random sites (input generator, sampling backend, `simulate_detectors_sample`) by
    wrapping module / class attributes, fed to the Lean model of the whole call, and compared exactly (sample
    sequence, detected state of every shot, size of every generator and backend request, exceptions, performances);
    the model's lazy provider answers the same request on the re-ordered streams; a direct oracle independent of the
    model evaluates the property on the recorded run.
 A also holds a DIRECT ORACLE on the two performances: when nothing but the limits can stop the scripted loop, the
    reported physical / logical performances must be the observed frequencies (shots with at least `filter` photons
    outside the heralded modes among the shots taken, times the source's pre-performance; selected among those).
"""
from __future__ import annotations

import contextlib
import itertools
import json
import math
import os
import random as pyrandom
from fractions import Fraction
from unittest import mock

from . import core

F = Fraction

# ------------------------------------------------------------------------------------------------
# statistical budget (part E): the whole run may false-alarm with probability <= ALPHA_RUN
# ------------------------------------------------------------------------------------------------
ALPHA_RUN = 1e-9
MAX_TESTS = 4000            # Bonferroni denominator: an upper bound on the number of tests of one run
ALPHA_TEST = ALPHA_RUN / MAX_TESTS
# slack allowed on every reference probability: strong simulation is run at precision 0 (only
# probabilities below 1e-16 are trimmed) in double precision; 1e-9 is 6 orders above its rounding error
ETA = 1e-9


class DidNotReturn(Exception):
    pass


class watchdog:
    """`with watchdog(seconds):` raises DidNotReturn inside a Python-level loop of the code under test that
    does not come back (main thread only; a no-op elsewhere)."""

    def __init__(self, seconds):
        self.seconds = seconds
        self.armed = False

    def _fire(self, *_):
        raise DidNotReturn()

    def __enter__(self):
        import signal
        import threading
        if threading.current_thread() is threading.main_thread():
            self.old = signal.signal(signal.SIGALRM, self._fire)
            signal.alarm(self.seconds)
            self.armed = True
        return self

    def __exit__(self, *exc):
        import signal
        if self.armed:
            signal.alarm(0)
            signal.signal(signal.SIGALRM, self.old)
        return False


CALL_TIMEOUT = 120   # seconds for one in-process call of the code under test (normally milliseconds)


# ================================================================================================
# A. scripted NoisySamplingSimulator.samples
# ================================================================================================
def heralds_of(case):
    return {int(m): int(v) for m, v in case["heralds"]}


def py_postselect(case, st):
    if not case["ps"]:
        return True
    from perceval.utils import BasicState, PostSelect
    return bool(PostSelect(case["ps"])(BasicState(list(st))))


def py_class(case, st):
    """The documented meaning, evaluated directly: the photon filter does not count heralded modes."""
    her = heralds_of(case)
    if sum(st) - sum(her.values()) < case["filter"]:
        return "p"
    if all(st[m] == v for m, v in her.items()) and py_postselect(case, st):
        return "s"
    return "l"


def py_emit(case, st):
    her = heralds_of(case)
    if her and not case["keep"]:
        return tuple(x for i, x in enumerate(st) if i not in her)
    return tuple(st)


def canonical_pool(m, heralds, filt):
    """[SEL, LOGIC, PHYS?]: one state per outcome (PHYS only when some state can fall below the filter)."""
    her = {int(a): int(v) for a, v in heralds}
    free = [i for i in range(m) if i not in her]
    a = free[0]
    sel = [her.get(i, 0) for i in range(m)]
    sel[a] = max(filt, 1)
    logic = list(sel)
    if her:
        h0 = sorted(her)[0]
        logic[h0] += 1
    pool = [sel, logic]
    if filt + sum(her.values()) >= 1:
        phys = list(sel)
        phys[a] = filt - 1 if filt >= 1 else 0
        if filt == 0:
            h1 = [h for h in her if her[h] > 0][0]
            phys[h1] -= 1
        pool.append(phys)
    return pool


def _mk_fakes():
    import perceval as pcvl
    from perceval.backends import ASamplingBackend
    from perceval.utils import BSSamples, BasicState

    class FakeBackend(ASamplingBackend):
        """Hands out the scripted outcomes.  SamplesProvider pops from the END of a pool and refills a
        pool only when it is empty, so each chunk is returned reversed: shot k gets script[k]."""

        def __init__(self, script, pool):
            super().__init__()
            self.script = list(script)
            self.pool = [BasicState(list(st)) for st in pool]
            self.pos = 0
            self.requests = []

        @property
        def name(self):
            return "Scripted"

        def sample(self):
            return self.samples(1)[0]

        def samples(self, count):
            self.requests.append(count)
            chunk = []
            for _ in range(count):
                k = self.script[self.pos] if self.pos < len(self.script) else 0   # pool[0] is selected
                self.pos += 1
                chunk.append(self.pool[k])
            return BSSamples(list(reversed(chunk)))

    class FakeSource:
        def __init__(self, first, batches, pre, zpp):
            self.first, self.batches = first, list(batches)
            self.pre, self.zpp = pre, zpp
            self.asked = []
            self.table_filter = None

        def is_perfect(self):
            return False

        def cache_prob_table(self, n, f):
            self.table_filter = f
            return self.pre, self.zpp

        def generate_samples(self, k, bs_input, f):
            self.asked.append(k)
            if len(self.asked) == 1:
                n = self.first
            else:
                r = len(self.asked) - 2
                n = self.batches[r] if r < len(self.batches) else None
            if n is None:
                n = k
            return BSSamples([bs_input] * n)

    return FakeBackend, FakeSource


_FAKES = None


def fakes():
    global _FAKES
    if _FAKES is None:
        _FAKES = _mk_fakes()
    return _FAKES


def pad_len(case):
    return (case["ms"] or 0) + 1


def run_scripted(case):
    """Run the REAL NoisySamplingSimulator.samples on a scripted case -> observation dict."""
    import perceval as pcvl
    from perceval.utils import BasicState, PostSelect, SVDistribution
    from perceval.simulators import NoisySamplingSimulator
    FakeBackend, FakeSource = fakes()
    f, m = case["filter"], case["m"]
    be = FakeBackend(case["script"], case["pool"])
    sim = NoisySamplingSimulator(be)
    sim.sleep_between_batches = 0
    sim.set_circuit(pcvl.Circuit(m))
    sim.set_selection(min_detected_photons_filter=f, heralds=heralds_of(case),
                      postselect=PostSelect(case["ps"]) if case["ps"] else None)
    sim.keep_heralds(case["keep"])
    bs_in = BasicState([1] + [0] * (m - 1))
    src = None
    if case["source"]:
        src = FakeSource(case["first"], case["batches"], float(F(case["pre"])), float(F(case["zpp"])))
        svd = (src, bs_in)
    else:
        svd = SVDistribution(bs_in)
    cb_log = []
    cancels = case["cancels"]

    def cb(progress, msg):
        if msg != "sampling":
            return None
        i = len(cb_log)
        cb_log.append(progress)
        if i < len(cancels) and cancels[i]:
            return {"cancel_requested": True}
        return None

    obs = {}
    try:
        with watchdog(CALL_TIMEOUT):
            res = sim.samples(svd, case["ms"], case["sh"], cb if case["cb"] else None)
        out = [tuple(s) for s in res["results"]]
        obs["n"] = len(out)
        obs["states"] = sorted(set(out))
        obs["phys"] = res["physical_perf"]
        obs["logical"] = res["logical_perf"]
    except Exception as e:  # noqa: BLE001 - mapped to its class name
        obs["raise"] = type(e).__name__
    obs["asked"] = list(src.asked) if src is not None else None
    obs["table_filter"] = src.table_filter if src is not None else None
    obs["progress"] = cb_log
    obs["backend_requests"] = list(be.requests)
    obs["handed"] = be.pos
    return obs


def letters_of(case):
    """Outcome letter of every scripted shot, by the documented semantics (checked against the model in
    `prepare_scripted`)."""
    cls = [py_class(case, st) for st in case["pool"]]
    return [cls[k] for k in case["script"]]


def eff_filter(case):
    return case["filter"] + sum(heralds_of(case).values())


def prepare_scripted(chk, cases):
    """Ask the model to classify every pool state; a disagreement with the direct evaluation of the documented
    semantics is a harness/model problem.  Fills case['outcomes']."""
    reqs, where = [], []
    for ci, c in enumerate(cases):
        for k, st in enumerate(c["pool"]):
            reqs.append({"op": "classify", "fixed": True, "filter": c["filter"], "heralds": c["heralds"],
                         "ps": py_postselect(c, st), "keep": c["keep"], "state": list(st)})
            where.append((ci, k))
    reps = chk.lean.ask_many(reqs)
    for (ci, k), rep in zip(where, reps):
        c = cases[ci]
        st = c["pool"][k]
        if rep.get("outcome") != py_class(c, st) or tuple(rep.get("emitted", ())) != py_emit(c, st):
            chk.fail("broken", "scripted:classification-model", f"model classifies {st} as {rep}, the documented "
                     f"semantics gives {py_class(c, st)} / {py_emit(c, st)}", {"part": "scripted", "case": c})
    for c in cases:
        c["outcomes"] = letters_of(c)
        if py_class(c, c["pool"][0]) != "s":
            raise AssertionError(f"pool[0] must be a selected state: {c}")


def lean_req_scripted(case):
    outs = letters_of(case) + ["s"] * pad_len(case)
    return {"op": "pipeline", "ms": case["ms"], "sh": case["sh"], "filter": eff_filter(case),
            "pre": case["pre"], "zpp": case["zpp"], "source": case["source"],
            "first": case["first"] if case["source"] else None, "cb": case["cb"],
            "outcomes": outs, "cancels": list(case["cancels"]),
            "batches": list(case["batches"]) if case["source"] else []}


def direct_oracle_scripted(case, obs):
    """The property evaluated on the real run, without the model.  -> None or (signature, what)."""
    ms, sh = case["ms"], case["sh"]
    if obs.get("raise") == "DidNotReturn":
        return ("does-not-return", f"samples(max_samples={ms}, max_shots={sh}) did not return within {CALL_TIMEOUT} s "
                                   f"although the scripted outcomes end in an endless run of selected states")
    if "raise" in obs:
        return None
    lim = [x for x in (ms, sh) if x is not None]
    if lim and obs["n"] > min(lim):
        return ("returns-more-than-min",
                f"{obs['n']} samples returned for max_samples={ms}, max_shots={sh}")
    legal = {py_emit(case, st) for st in case["pool"] if py_class(case, st) == "s"}
    for st in obs["states"]:
        if st not in legal:
            src = [tuple(x) for x in case["pool"] if py_emit(case, x) == st or tuple(x) == st]
            return ("illegal-sample",
                    f"returned sample {st} is not a legal outcome (filter {case['filter']} not counting heralded "
                    f"modes, heralds {case['heralds']}, post-selection {case['ps']}, keep_heralds={case['keep']}); "
                    f"sampled full states {src} are classified {[py_class(case, list(x)) for x in src]}")
    for k in ("phys", "logical"):
        if not (-1e-12 <= obs[k] <= 1 + 1e-12):
            return ("perf-out-of-range", f"{k} performance {obs[k]} outside [0, 1]")
    if obs["asked"] is not None and ms is not None:
        for a in obs["asked"][1:]:
            if a < 1 or a > ms or (sh is not None and eff_filter(case) < 2 and a > sh):
                return ("generator-request-out-of-range", f"generator asked for {a} inputs (max_samples={ms}, "
                                                          f"max_shots={sh})")
    if case["cb"] and sh is not None and eff_filter(case) < 2 and len(obs["progress"]) > sh:
        return ("more-shots-than-max-shots", f"{len(obs['progress'])} loop iterations for max_shots={sh}")
    # the script dictates the shots: replay it naively (the property, not the model) when nothing but the
    # limits can stop the loop (the shot limit is rescaled only for an effective filter >= 2)
    nv = naive_replay(case)
    if nv is not None:
        n_sel, n_log, n_phys = nv
        if obs["n"] != n_sel:
            return ("wrong-sample-count", f"{obs['n']} samples returned, the scripted outcomes select {n_sel} "
                                          f"within max_samples={ms}, max_shots={sh}")
        if n_sel > 0:
            # the two performances are the observed frequencies of the shots taken: physical = shots holding at
            # least `filter` photons outside the heralded modes (times what the source already discarded),
            # logical = selected among those -- whatever the order the two tests are made in
            shots = n_sel + n_log + n_phys
            pre = F(case["pre"]) if case["source"] else F(1)
            want_phys, want_log = pre * F(shots - n_phys, shots), F(n_sel, n_sel + n_log)
            if not core.close(obs["phys"], float(want_phys)) or not core.close(obs["logical"], float(want_log)):
                return ("performance-not-the-observed-frequency",
                        f"{shots} shots taken: {n_phys} hold fewer than {case['filter']} photons outside the heralded "
                        f"modes, {n_log} of the others fail heralds {case['heralds']} / post-selection {case['ps']}, "
                        f"{n_sel} selected; source pre-performance {pre}: physical_perf should be {want_phys} = "
                        f"{float(want_phys):.6f}, logical_perf {want_log} = {float(want_log):.6f}; reported "
                        f"{obs['phys']!r} / {obs['logical']!r}")
    return None


def naive_replay(case):
    """(selected, logically rejected, physically rejected) among the shots the limits allow, by the documented
    semantics of every scripted state -- None when something else than the limits can stop the loop (cancel,
    scripted batch sizes) or when the shot limit is rescaled (effective filter >= 2 with a shot limit)."""
    ms, sh = case["ms"], case["sh"]
    if case["cb"] and any(case["cancels"]):
        return None
    if ms is None or not (eff_filter(case) < 2 or sh is None):
        return None
    if case["source"] and not (case["first"] is None and all(b is None for b in case["batches"])):
        return None
    cnt = {"s": 0, "l": 0, "p": 0}
    if ms == 0 or (sh is not None and sh == 0):
        return 0, 0, 0
    shots = 0
    for o in letters_of(case) + ["s"] * pad_len(case):
        if cnt["s"] >= ms or (sh is not None and shots >= sh):
            break
        shots += 1
        cnt[o] += 1
    return cnt["s"], cnt["l"], cnt["p"]


def fails_both(case, st):
    """Too few photons AND rejected by the heralds / the post-selection."""
    her = heralds_of(case)
    return py_class(case, st) == "p" and not (all(st[m] == v for m, v in her.items()) and py_postselect(case, st))


def compare_scripted(case, obs, rep):
    """-> list of textual differences between the real run and the model (empty = agree)."""
    diffs = []
    if "err" in rep:
        return [f"driver rejected the request: {rep['err']}"]
    if "raise" in rep or "raise" in obs:
        if rep.get("raise") != obs.get("raise"):
            diffs.append(f"exception: code {obs.get('raise')} / model {rep.get('raise')}")
    else:
        if obs["n"] != rep["n"]:
            diffs.append(f"sample count: code {obs['n']} / model {rep['n']}")
        for k in ("phys", "logical"):
            if not core.close(obs[k], float(F(rep[k]))):
                diffs.append(f"{k}: code {obs[k]!r} / model {rep[k]}")
    tr = rep.get("trace") or {}
    iters = tr.get("iters", [])
    # (the photon filter handed to the source only pre-conditions the emission; it is recorded in the
    #  evidence histogram `source_table_filter`, not compared: any value <= the effective filter is sound)
    if obs["asked"] is not None:
        model_asked = ([tr["prepare"]] if tr.get("prepare") is not None else []) + \
                      [a for _, a in iters if a is not None]
        if obs["asked"] != model_asked:
            diffs.append(f"generator requests: code {obs['asked']} / model {model_asked}")
    else:
        # distribution route: the generator is the native sampler; only the count of iterations is seen
        pass
    if case["cb"] and case["ms"]:
        model_prog = [F(o, case["ms"]) for o, _ in iters]
        if len(model_prog) != len(obs["progress"]) or any(
                not core.close(x, float(y)) for x, y in zip(obs["progress"], model_prog)):
            diffs.append(f"progress seen by the callback: code {obs['progress'][:12]} / model "
                         f"{[str(x) for x in model_prog[:12]]}")
    return diffs


def judge_scripted(chk, case, rep=None):
    obs = run_scripted(case)
    if rep is None:
        rep = chk.lean.ask(lean_req_scripted(case))
    d = direct_oracle_scripted(case, obs)
    if d is not None:
        return ("violation", "scripted:" + d[0], d[1], {"part": "scripted", "case": case}), obs, rep
    diffs = compare_scripted(case, obs, rep)
    if diffs:
        return ("broken", "scripted:model-vs-code", "; ".join(diffs)[:600],
                {"part": "scripted", "case": case, "code": obs, "model": rep}), obs, rep
    return None, obs, rep


def shrink_scripted(chk, case, sig):
    def fails(c):
        r, _, _ = judge_scripted(chk, c)
        return r is not None and r[1] == sig

    cur = dict(case)
    budget = 120
    changed = True
    while changed and budget > 0:
        changed = False
        for key in ("script", "cancels", "batches"):
            seq = list(cur[key])
            i = 0
            while i < len(seq) and budget > 0:
                cand = dict(cur)
                cand[key] = seq[:i] + seq[i + 1:]
                budget -= 1
                if fails(cand):
                    cur, seq, changed = cand, cand[key], True
                else:
                    i += 1
        for key, simpler in (("cb", False), ("keep", True), ("first", None), ("pre", "1"), ("zpp", "0"),
                             ("ps", None)):
            if cur[key] != simpler and budget > 0:
                cand = dict(cur)
                cand[key] = simpler
                if key == "ps" and py_class(cand, cand["pool"][0]) != "s":
                    continue
                budget -= 1
                if fails(cand):
                    cur, changed = cand, True
    cur["outcomes"] = letters_of(cur)
    return cur


def handle_scripted(chk, case, rep=None, label="random"):
    case["outcomes"] = letters_of(case)
    res, obs, rep = judge_scripted(chk, case, rep)
    # branch bookkeeping from the model's answer
    if "raise" in rep:
        chk.branch("raise:" + rep["raise"])
    elif "err" not in rep:
        lp = rep.get("loop")
        if lp is None:
            chk.branch("no-loop (zero request)")
        else:
            if lp["halt"] == "cancel":
                chk.branch("cancelled")
            if rep["n"] == case["ms"]:
                chk.branch("stopped-by-max_samples")
            elif lp["halt"] is None and lp["stopped"]:
                chk.branch("stopped-by-max_shots")
            if lp["notSelPhys"]:
                chk.branch("physically-rejected-shot")
                if sum(heralds_of(case).values()):
                    chk.branch("physically-rejected-shot-with-photon-heralds")
            if lp["notSel"]:
                chk.branch("logically-rejected-shot")
            if any(a is not None for _, a in rep["trace"]["iters"]):
                chk.branch("generator-asked-again")
        if eff_filter(case) >= 2 and case["sh"] is not None and case["source"]:
            chk.branch("shots-rescaled (filter>=2)")
    if not case["source"]:
        chk.branch("distribution-route")
    if case["ps"]:
        chk.branch("scripted-post-selection")
    nv = naive_replay(case)
    if nv is not None and nv[0] > 0 and "raise" not in obs:
        chk.branch("scripted-performance-oracle")
        if any(fails_both(case, case["pool"][k]) for k in case["script"][:sum(nv)]):
            chk.branch("scripted-shot-failing-both-tests")
    chk.count("scripted_" + label + "_ms", case["ms"])
    chk.count("scripted_" + label + "_sh", case["sh"])
    chk.count("scripted_len", min(len(case["script"]), 40) // 5 * 5)
    chk.count("scripted_heralded_photons", sum(heralds_of(case).values()))
    if obs.get("table_filter") is not None:
        chk.count("source_table_filter", "effective" if obs["table_filter"] == eff_filter(case) else
                  ("bare" if obs["table_filter"] == case["filter"] else "other"))
    nontrivial = ("raise" not in rep and "err" not in rep and rep.get("loop") is not None
                  and rep["loop"]["shots"] >= 2)
    chk.case(("S", case["ms"], case["sh"], case["filter"], json.dumps(case["heralds"]), case["ps"],
              json.dumps(case["pool"]), tuple(case["script"][:60]), case["cb"],
              tuple(case["cancels"]), tuple(case["batches"]), case["first"], case["source"]),
             nontrivial=nontrivial,
             sample={"part": "scripted", "ms": case["ms"], "sh": case["sh"], "filter": case["filter"],
                     "heralds": case["heralds"], "outcomes": "".join(case["outcomes"])[:20],
                     "n": obs.get("n"), "raise": obs.get("raise")})
    if res is not None:
        kind, sig, what, replay = res
        if first_of(chk, kind, sig):
            small = shrink_scripted(chk, case, sig)
            r2, o2, m2 = judge_scripted(chk, small)
            if r2 is not None:
                kind, sig, what, replay = r2
            chk.fail(kind, sig, what, replay)


def first_of(chk, kind, sig):
    """Only the first failure of a signature is shrunk and reported (the verdict lists a signature once); later
    ones are counted in the evidence."""
    seen = chk.extra.setdefault("failures_by_signature", {})
    key = f"{kind}:{sig}"
    seen[key] = seen.get(key, 0) + 1
    return seen[key] == 1


def base_case(**kw):
    c = {"ms": 2, "sh": None, "filter": 1, "pre": "1", "zpp": "0", "source": True, "first": None, "cb": False,
         "keep": False, "m": 2, "heralds": [[1, 0]], "ps": None, "pool": None, "script": [], "cancels": [],
         "batches": []}
    c.update(kw)
    if c["pool"] is None:
        c["pool"] = canonical_pool(c["m"], c["heralds"], c["filter"])
    return c


def exhaustive_scripted(chk, max_len):
    lims = [0, 1, 2, 3, 4, None]
    cases = []
    # (heralds, longest sequence): the herald expecting a photon is the configuration of the repaired defect
    for heralds, top in (([[1, 0]], max_len), ([[1, 1]], max_len - 2)):
        for L in range(top + 1):
            for seq in itertools.product((2, 1, 0), repeat=L):     # pool = [sel, logic, phys]
                # a sequence that ends with 'sel' behaves as its prefix (the script is padded with sel)
                if L and seq[-1] == 0:
                    continue
                for ms in lims:
                    for sh in lims:
                        cases.append(base_case(ms=ms, sh=sh, heralds=heralds, script=list(seq), cb=True))
    # a third alphabet: {state failing BOTH the photon filter and the selection, logic, sel} (3 modes, herald
    # expecting 0 photon on mode 1, post-selection on mode 0, filter 1; the empty state fails both)
    both_pool = [[1, 0, 0], [1, 1, 0], [0, 0, 0]]
    n_before = len(cases)
    for L in range(1, max_len - 1):
        for seq in itertools.product((2, 1, 0), repeat=L):
            if seq[-1] == 0:
                continue
            for ms in lims:
                for sh in lims:
                    cases.append(base_case(ms=ms, sh=sh, m=3, heralds=[[1, 0]], ps="[0] > 0", pool=both_pool,
                                           script=list(seq), cb=True))
    prepare_scripted(chk, cases[:1] + cases[n_before - 1:n_before + 1])
    reps = chk.lean.ask_many([lean_req_scripted(c) for c in cases])
    for c, r in zip(cases, reps):
        handle_scripted(chk, c, r, label="exh")
    chk.extra["scripted_exhaustive_cases"] = len(cases)
    chk.extra["scripted_exhaustive_rule"] = (
        f"all outcome sequences over {{phys,logic,sel}} of length <= {max_len} (herald expecting 0 photon) resp. "
        f"<= {max_len - 2} (herald expecting 1 photon), canonical: not ending in sel, the script being padded "
        f"with sel, x (max_samples, max_shots) in {{0,1,2,3,4,None}}^2, filter 1, callback on; plus the sequences of "
        f"length <= {max_len - 2} over {{fails both the filter and the selection, logic, sel}}")


def gen_scripted(rng, big):
    lim_pool = [0, 1, 2, 3, 4, 5, 7, 17, None] + ([40, 120] if big else [])
    ms = rng.choice(lim_pool)
    sh = rng.choice(lim_pool)
    r = rng.random()
    filt = 1 if r < 0.5 else (0 if r < 0.65 else rng.choice([2, 3]))
    m = rng.choice([2, 3, 3, 4])
    n_her = rng.choice([0, 1, 1, 2]) if m >= 3 else rng.choice([0, 1])
    modes = list(range(m))
    rng.shuffle(modes)
    heralds = sorted([mode, rng.choice([0, 0, 1, 1, 2])] for mode in modes[:n_her])
    free = [i for i in range(m) if i not in {h[0] for h in heralds}]
    ps = None
    if rng.random() < 0.35 or not heralds:
        ps = f"[{free[0]}] > 0"            # satisfied by pool[0]
    source = rng.random() < 0.8
    if not source and filt + sum(v for _, v in heralds) > 1:
        # distribution route: one-photon input; keep the input above the photon filter (pre-performance 1)
        filt, heralds = min(filt, 1), [[a, 0] for a, _ in heralds]
    pool = canonical_pool(m, heralds, filt)
    for _ in range(rng.randint(0, 5)):
        st = [rng.choice([0, 0, 1, 1, 2, 3]) for _ in range(m)]
        if rng.random() < 0.6:
            for a, v in heralds:
                st[a] = v
        pool.append(st)
    L = rng.randint(0, 60 if big else 25)
    w = [rng.choice([1, 1, 3]) for _ in pool]
    if rng.random() < 0.3:
        w[0] = 0.2
    script = rng.choices(range(len(pool)), weights=w, k=L)
    cb = rng.random() < 0.6
    cancels = []
    if cb and rng.random() < 0.3:
        k = rng.randint(0, max(1, L))
        cancels = [False] * k + [True]
    batches, first = [], None
    if source:
        if rng.random() < 0.5:
            batches = [rng.choice([None, None, 1, 2, 3, 5, 0 if rng.random() < 0.25 else 1, 30])
                       for _ in range(rng.randint(1, 6))]
        if rng.random() < 0.35:
            first = rng.choice([0, 1, 2, 5, 50])
    pre, zpp = "1", "0"
    if source and rng.random() < 0.6:
        # 1 - zpp a power of two keeps  pre / (1 - zpp)  exact in floating point
        zpp_f = rng.choice([F(0), F(1, 2), F(3, 4), F(1, 2)])
        room = 1 - zpp_f
        pre_f = room * rng.choice([F(1), F(1, 2), F(3, 4), F(1, 8), F(5, 8), F(0)])
        pre, zpp = str(pre_f), str(zpp_f)
        if rng.random() < 0.05:
            pre, zpp = "0", "1"   # transmission 0: 1 - zpp = 0
    return base_case(ms=ms, sh=sh, filter=filt, pre=pre, zpp=zpp, source=source, first=first, cb=cb,
                     keep=rng.random() < 0.3, m=m, heralds=heralds, ps=ps, pool=pool, script=script,
                     cancels=cancels, batches=batches)


def perfect_path(chk, ns):
    """`_perfect_sampling_no_selection` through `samples`: request sizes and total, against the model."""
    import perceval as pcvl
    from perceval.utils import BasicState, SVDistribution
    from perceval.simulators import NoisySamplingSimulator
    FakeBackend, _ = fakes()
    st = [[1, 0]]
    reqs = [{"op": "perfect", "n": n} for n in ns]
    reps = chk.lean.ask_many(reqs)
    for n, rep in zip(ns, reps):
        be = FakeBackend([], st)
        sim = NoisySamplingSimulator(be)
        sim.sleep_between_batches = 0
        sim.set_circuit(pcvl.Circuit(2))
        ms, sh = (n, None) if n % 2 else (n + 3, n)
        res = sim.samples(SVDistribution(BasicState([1, 0])), ms, sh)
        got = {"acquired": len(res["results"]), "requests": be.requests}
        chk.branch("perfect-fast-path")
        chk.case(("P", n), nontrivial=n > 1000, sample=None)
        if got["acquired"] > n:
            chk.fail("violation", "perfect:returns-more-than-min",
                     f"perfect fast path returned {got['acquired']} samples for max_samples={ms}, max_shots={sh}",
                     {"part": "perfect", "n": n})
        elif got != {"acquired": rep["acquired"], "requests": rep["requests"]}:
            chk.fail("broken", "perfect:model-vs-code", f"perfect path n={n}: code {got} / model {rep}",
                     {"part": "perfect", "n": n})


# ================================================================================================
# B. conversions
# ================================================================================================
class NeedPicks(Exception):
    pass


def key_states(k):
    from perceval.utils import BasicState
    m = max(2, k)
    out = []
    for i in range(k):
        v = [0] * m
        v[i] = 1
        out.append(BasicState(v))
    return out


def run_p2sc(case):
    """Real `probs_to_sample_count` with scripted np.random.normal / random.choice / fall-back sampler."""
    import numpy as np
    from perceval.utils import BSDistribution, BSSamples
    from perceval.utils import conversion
    keys = key_states(len(case["ps"]))
    index = {k: i for i, k in enumerate(keys)}
    bsd = BSDistribution()
    for k, p in zip(keys, case["ps"]):
        bsd[k] = float(F(p))
    ns = [float(F(x)) for x in case["ns"]]
    normal_calls = []
    picks = list(case["picks"])
    used = {"picks": 0, "fallback": False}

    def fake_normal(*a, **kw):
        i = len(normal_calls)
        normal_calls.append(kw.get("scale", a[1] if len(a) > 1 else None))
        if i >= len(ns):
            raise AssertionError("np.random.normal called more often than there are states")
        return ns[i]

    def fake_choice(seq):
        seq = sorted(seq, key=lambda s: index[s])
        if used["picks"] >= len(picks):
            raise NeedPicks()
        p = picks[used["picks"]]
        used["picks"] += 1
        return seq[p % len(seq)]

    real_p2s = conversion.probs_to_samples

    def fake_p2s(probs, count=None, **kw):
        used["fallback"] = True
        c = conversion._deduce_count(count, **kw) if hasattr(conversion, "_deduce_count") else count
        fb = case["fb"][:c] + [case["fb"][-1] if case["fb"] else 0] * max(0, c - len(case["fb"]))
        return BSSamples([keys[i] for i in fb])

    obs = {}
    kwargs = {}
    count = case["count"]
    if case.get("kw") is not None:
        count = None
        kwargs = {k: v for k, v in case["kw"].items() if v is not ...}
    try:
        with mock.patch.object(np.random, "normal", fake_normal), \
                mock.patch.object(conversion.random, "choice", fake_choice), \
                mock.patch.object(conversion, "probs_to_samples", fake_p2s):
            res = conversion.probs_to_sample_count(bsd, count, **kwargs)
        obs["counts"] = [int(res[k]) if k in res else 0 for k in keys]
        obs["extra_keys"] = [str(k) for k in res.keys() if k not in index]
        obs["total"] = int(sum(res.values()))
    except NeedPicks:
        obs["needPicks"] = True
    except Exception as e:  # noqa: BLE001
        obs["raise"] = type(e).__name__
    obs["fallback_called"] = used["fallback"]
    obs["scales"] = normal_calls
    return obs


def p2sc_exactness(case, count):
    """Is the float computation of the code guaranteed to round like the exact one?  -> (ok, why)"""
    ps = [F(p) for p in case["ps"]]
    ns = [F(x) for x in case["ns"]]
    pert = [max(p + n, F(0)) for p, n in zip(ps, ns)]
    s = sum(pert)
    if s == 0:
        return True, "zero-sum"
    q = [x / s for x in pert]
    mx = max(q) * count
    pow2 = s.numerator == 1 and (s.denominator & (s.denominator - 1)) == 0 or \
        (s.denominator == 1 and (s.numerator & (s.numerator - 1)) == 0)
    if pow2 and count < 2 ** 20 and all(x.denominator < 2 ** 30 for x in pert):
        return True, "exact"
    if abs(mx - 1) < F(1, 10 ** 6):
        return False, "max*count near 1"
    for x in q:
        v = x * count
        frac = v - math.floor(v)
        if abs(frac - F(1, 2)) < F(1, 10 ** 6):
            return False, "near tie"
    return True, "generic"


def judge_p2sc(chk, case):
    kw = case.get("kw")
    if kw is not None:
        dreq = {"op": "deduce", "count": None, "max_shots": kw.get("max_shots"), "max_samples": kw.get("max_samples")}
        drep = chk.lean.ask(dreq)
        if "raise" in drep:
            obs = run_p2sc(case)
            if obs.get("raise") != drep["raise"]:
                return ("broken", "p2sc:deduce-count", f"_deduce_count({kw}): code {obs} / model {drep}",
                        {"part": "p2sc", "case": case})
            chk.branch("deduce-count-raises")
            return None
        count = drep["ok"]
        chk.branch("count-from-keywords")
    else:
        count = case["count"]
    ok, why = p2sc_exactness(case, count) if count >= 1 else (True, "empty")
    obs = run_p2sc(case)
    # direct oracle: total and sign
    if "counts" in obs:
        if obs["total"] != (count if count >= 1 else 0) or min(obs["counts"], default=0) < 0 or obs["extra_keys"]:
            return ("violation", "p2sc:total-not-count",
                    f"probs_to_sample_count(count={count}) returned a table with total {obs['total']}, counts "
                    f"{obs['counts']}, foreign keys {obs['extra_keys']}", {"part": "p2sc", "case": case})
    if not ok:
        chk.branch("p2sc-skipped-" + why.replace(" ", "-"))
        return None
    rep = chk.lean.ask({"op": "p2sc", "ps": case["ps"], "ns": case["ns"], "count": count,
                        "picks": case["picks"], "fb": (case["fb"] + [case["fb"][-1] if case["fb"] else 0] * count)[:count]})
    if "err" in rep:
        return ("broken", "p2sc:driver", f"driver: {rep['err']}", {"part": "p2sc", "case": case})
    kind = rep["kind"]
    chk.branch("p2sc-" + kind + ("-fallback" if rep.get("fallback") else ""))
    if kind == "empty":
        good = obs.get("counts") is not None and obs["total"] == 0
    elif kind == "needPicks":
        good = obs.get("needPicks", False)
    else:
        if rep["fallback"] and not obs["fallback_called"] and "counts" in obs:
            # the fall-back sampler was reached another way (refactoring): only the totals are comparable
            chk.branch("p2sc-fallback-unscripted")
            good = obs["total"] == count
        else:
            good = obs.get("counts") == rep["counts"] and obs["fallback_called"] == rep["fallback"]
        if good and not rep["fallback"]:
            diff = count - sum(rep["counts"])  # always 0 (theorem); classify the repair from the rounding
            ps = [F(p) for p in case["ps"]]
            scales_ok = all(core.close(sc, math.sqrt(float(p * (1 - p) / count))) for sc, p in zip(obs["scales"], ps)
                            if sc is not None)
            if not scales_ok:
                return ("broken", "p2sc:noise-scale", f"np.random.normal scales {obs['scales']} are not "
                                                      f"sqrt(p(1-p)/count)", {"part": "p2sc", "case": case})
    if not good:
        return ("broken", "p2sc:model-vs-code", f"count={count} ({why}): code {obs} / model {rep}",
                {"part": "p2sc", "case": case, "code": obs, "model": rep})
    if kind == "done" and not rep["fallback"] and "counts" in obs:
        shape = p2sc_shape(case, count)
        if shape is not None:
            diff, largest, cs = shape
            if len(cs) >= 16:
                chk.branch("p2sc-many-states")
            if diff < 0 and -diff > largest:
                chk.branch("p2sc-excess-exceeds-largest-count")
            if diff < 0 and sum(1 for a, b in zip(cs, obs["counts"]) if a != b) >= 2:
                chk.branch("p2sc-excess-spread-over-several-states")
            if diff >= 2:
                chk.branch("p2sc-deficit-of-several-units")
    return None


def dyadic(rng, bits, lo=0, hi=None):
    d = 2 ** bits
    hi = d if hi is None else hi
    return F(rng.randint(lo, hi), d)


def gen_p2sc(rng):
    k = rng.choice([1, 2, 2, 3, 3, 4, 5, 6])
    bits = rng.choice([1, 2, 3, 4, 6])
    d = 2 ** bits
    # k non-negative dyadics summing to 1 (zeros allowed)
    cuts = sorted(rng.randint(0, d) for _ in range(k - 1))
    ps = [F(b - a, d) for a, b in zip([0] + cuts, cuts + [d])]
    if rng.random() < 0.1:
        ps = [p / 2 for p in ps]      # an un-normalised table
    mode = rng.random()
    if mode < 0.30:
        ns = [F(0)] * k
    elif mode < 0.55:
        # balanced pairs that do not clip: the sum stays 1, everything exact
        ns = [F(0)] * k
        idx = [i for i in range(k) if ps[i] > 0]
        rng.shuffle(idx)
        for a, b in zip(idx[::2], idx[1::2]):
            dlt = min(ps[a], ps[b]) * rng.choice([F(1, 2), F(1, 4), F(1, 8)])
            ns[a] += dlt
            ns[b] -= dlt
    elif mode < 0.65:
        ns = [F(-1)] * k               # everything clipped: zero sum -> fall-back
    else:
        ns = [rng.choice([F(0), dyadic(rng, 5, -12, 12), F(-1), dyadic(rng, 8, -40, 40)]) for _ in range(k)]
    count = rng.choice([0, 1, 1, 2, 3, 5, 7, 10, 17, 100, 1000, rng.randint(1, 60), rng.randint(1, 4000)])
    n_picks = rng.choice([0, 1, 3, 40, 40])
    picks = [rng.randint(0, 5 * k) for _ in range(n_picks)]
    fb = [rng.randrange(k) for _ in range(min(count, 64))]
    case = {"ps": [str(p) for p in ps], "ns": [str(x) for x in ns], "count": count, "picks": picks, "fb": fb}
    if rng.random() < 0.15:
        case["kw"] = {}
        for name in ("max_shots", "max_samples"):
            r = rng.random()
            if r < 0.6:
                case["kw"][name] = rng.choice([0, 1, 2, 5, 17, 100])
            elif r < 0.8:
                case["kw"][name] = None
    return case


def gen_p2sc_crowded(rng):
    """Many outcomes of comparable weight and a request of the same order as their number: the expected counts lie
    around 0.5 .. 2.5, so the rounded table is off by SEVERAL units while no state holds more than 1-3 counts.  The
    repair then has to be spread over several states (excess larger than the largest single count) or has to add
    several units at once (deficit).  All numbers are dyadic with a perturbed sum of exactly 1, so the float
    computation of the code is exact and the model comparison is on every count."""
    count = rng.choice([4, 5, 8, 10, 16, 20, 40, 70, rng.randint(4, 120)])
    D = 2 ** 16
    up = rng.random() < 0.7
    ws = [rng.uniform(1.0, 2.49)]          # one state reaches a whole count: no fall-back to direct sampling
    while sum(ws) < count:
        r = rng.random()
        if up:      # mostly rounded up
            w = rng.uniform(0.5, 0.99) if r < 0.75 else (rng.uniform(1.5, 1.99) if r < 0.85 else
                                                         (0.0 if r < 0.9 else rng.uniform(0.0, 2.5)))
        else:       # mostly rounded down
            w = rng.uniform(1.0, 1.49) if r < 0.6 else (rng.uniform(2.0, 2.49) if r < 0.8 else
                                                        (rng.uniform(0.0, 0.49) if r < 0.9 else rng.uniform(0.0, 2.5)))
        ws.append(w)
    a = [int(round(w * D / count)) for w in ws]
    over = sum(a) - D
    i = len(a) - 1
    while over > 0:                        # trim from the end so that the perturbed table sums to exactly 1
        t = min(a[i], over)
        a[i] -= t
        over -= t
        i -= 1
    if over < 0:
        a[-1] -= over
    order = list(range(len(a)))
    rng.shuffle(order)
    a = [a[j] for j in order]
    k = len(a)
    target = [F(x, D) for x in a]
    if rng.random() < 0.4:
        ps = list(target)                  # the table itself is crowded, no noise
    else:
        base = D // k                      # a flat table, the noise makes it crowded
        ps = [F(base, D)] * k
        ps[rng.randrange(k)] += F(D - base * k, D)
    ns = [t - p for t, p in zip(target, ps)]
    picks = [rng.randint(0, 5 * k) for _ in range(rng.choice([0, 2, 8 * k, 8 * k, 8 * k]))]
    fb = [rng.randrange(k) for _ in range(min(count, 64))]
    return {"ps": [str(p) for p in ps], "ns": [str(x) for x in ns], "count": count, "picks": picks, "fb": fb}


def p2sc_shape(case, count):
    """(deficit, largest rounded count, number of states) of the table before the repair, computed exactly
    (`round(Fraction)` is round-half-to-even); None when the fall-back route is taken."""
    ps = [F(p) for p in case["ps"]]
    ns = [F(x) for x in case["ns"]]
    pert = [max(p + n, F(0)) for p, n in zip(ps, ns)]
    s = sum(pert)
    if count < 1 or s == 0 or max(pert) / s * count < 1:
        return None
    cs = [round(x / s * count) for x in pert]
    return count - sum(cs), max(cs), cs


def handle_p2sc(chk, case):
    res = judge_p2sc(chk, case)
    k = len(case["ps"])
    chk.count("p2sc_states", k if k <= 6 else ("7-15" if k < 16 else ("16-63" if k < 64 else "64+")))
    chk.count("p2sc_count", case["count"] if case["count"] in (0, 1, 2, 3, 5, 7, 10, 17, 100, 1000) else "other")
    chk.case(("B", tuple(case["ps"]), tuple(case["ns"]), case["count"], tuple(case["picks"][:4]),
              json.dumps(case.get("kw"), sort_keys=True)), nontrivial=case["count"] >= 2 and len(case["ps"]) >= 2,
             sample={"part": "p2sc", "ps": case["ps"], "ns": case["ns"], "count": case["count"]})
    if res is not None and first_of(chk, res[0], res[1]):
        # shrink: fewer picks, zero noise where possible
        kind, sig, what, replay = res
        cur = case
        for i in range(len(case["ns"])):
            cand = dict(cur)
            cand["ns"] = list(cur["ns"])
            cand["ns"][i] = "0"
            r = judge_p2sc(chk, cand)
            if r is not None and r[1] == sig:
                cur, (kind, sig, what, replay) = cand, r
        chk.fail(kind, sig, what, replay)


def conversions(chk, n):
    """samples_to_sample_count, sample_count_to_probs, samples_to_probs against the model."""
    from perceval.utils import BSCount, BSSamples
    from perceval.utils import conversion
    rng = chk.rng
    for _ in range(n):
        k = rng.randint(1, 6)
        keys = key_states(k)
        L = rng.choice([0, 1, 2, 5, 20, 200])
        samples = [rng.randrange(k) for _ in range(L)]
        bc = conversion.samples_to_sample_count(BSSamples([keys[i] for i in samples]))
        got = [int(bc[s]) if s in bc else 0 for s in keys]
        rep = chk.lean.ask({"op": "count", "n": k, "samples": samples})
        chk.case(("Cn", k, tuple(samples[:30]), L), nontrivial=L >= 2, sample=None)
        chk.branch("samples->counts")
        if sum(got) != L or any(s not in keys for s in bc.keys()):
            chk.fail("violation", "conv:counts-total", f"samples_to_sample_count of {L} samples has total {sum(got)}",
                     {"part": "count", "k": k, "samples": samples})
        elif got != rep.get("counts"):
            chk.fail("broken", "conv:model-vs-code", f"samples_to_sample_count: code {got} / model {rep}",
                     {"part": "count", "k": k, "samples": samples})
        # counts -> probs (zero entries included explicitly: `BSCount[k] = 0` keeps the key)
        counts = [rng.choice([0, 0, 1, 2, 3, 10, 1000]) for _ in range(k)]
        table = BSCount()
        for s, c in zip(keys, counts):
            table[s] = c
        rep = chk.lean.ask({"op": "c2p", "counts": counts})
        try:
            pr = conversion.sample_count_to_probs(table)
            got = [pr[s] if s in pr else None for s in keys]
        except Exception as e:  # noqa: BLE001
            got = "raise:" + type(e).__name__
        chk.branch("counts->probs")
        chk.case(("Cp", tuple(counts)), nontrivial=sum(1 for c in counts if c) >= 2, sample=None)
        want = rep.get("probs")
        ok = isinstance(got, list) and want is not None and len(got) == len(want) and all(
            (g is None and w is None) or (g is not None and w is not None and core.close(g, float(F(w))))
            for g, w in zip(got, want))
        if isinstance(got, list) and sum(counts) > 0 and not core.close(sum(g for g in got if g is not None), 1.0):
            chk.fail("violation", "conv:probs-total", f"sample_count_to_probs({counts}) sums to "
                                                      f"{sum(g for g in got if g is not None)}",
                     {"part": "c2p", "counts": counts})
        elif not ok:
            chk.fail("broken", "conv:model-vs-code", f"sample_count_to_probs({counts}): code {got} / model {rep}",
                     {"part": "c2p", "counts": counts})



# ------------------------------------------------------------------------------------------------
# B3. the conversions that DRAW samples, with the picks of `random.choices` scripted
# ------------------------------------------------------------------------------------------------
def conv_states(rng, k):
    """k distinct two-/three-mode states, the vacuum among them half of the time."""
    from perceval.utils import BasicState
    m = rng.choice([2, 3])
    seen, out = set(), []
    if rng.random() < 0.5:
        seen.add((0,) * m)
        out.append((0,) * m)
    while len(out) < k:
        st = tuple(rng.choice([0, 0, 1, 2]) for _ in range(m))
        if st not in seen:
            seen.add(st)
            out.append(st)
    rng.shuffle(out)
    return [BasicState(list(st)) for st in out]


def run_drawing(case):
    """One drawing conversion on the real code with `random.choices` scripted -> (observation, draws used)."""
    from perceval.utils import BasicState, BSDistribution, BSCount
    from perceval.utils import conversion
    import random as pyrandom_mod
    states = [BasicState(list(st)) for st in case["states"]]
    used = {"draws": None, "k": None, "n_states": None}

    def fake_choices(population, weights=None, *, cum_weights=None, k=1):
        pop = list(population)
        ws = list(weights) if weights is not None else None
        if ws is not None and sum(ws) <= 0:
            raise ValueError("Total of weights must be greater than zero")
        idx = [case["stream"][i % len(case["stream"])] % len(pop) for i in range(k)]
        used["draws"], used["k"], used["n_states"] = idx, k, len(pop)
        used["order"] = [tuple(s) for s in pop]
        return [pop[i] for i in idx]

    kw = {}
    if case["max_shots"] is not None:
        kw["max_shots"] = case["max_shots"]
    if case["max_samples"] is not None:
        kw["max_samples"] = case["max_samples"]
    obs = {}
    try:
        with mock.patch.object(pyrandom_mod, "choices", fake_choices):
            if case["fn"] == "sample":
                d = BSDistribution()
                for st, w in zip(states, case["weights"]):
                    d[st] = float(F(w))
                res = d.sample(case["count"], non_null=case["non_null"])
            elif case["fn"] == "p2s":
                d = BSDistribution()
                for st, w in zip(states, case["weights"]):
                    d[st] = float(F(w))
                res = conversion.probs_to_samples(d, case["count"], **kw)
            else:
                t = BSCount()
                for st, c in zip(states, case["counts"]):
                    t[st] = c
                res = conversion.sample_count_to_samples(t, case["count"], **kw)
        obs["samples"] = [tuple(s) for s in res]
    except Exception as e:  # noqa: BLE001
        obs["raise"] = type(e).__name__
    return obs, used


def judge_drawing(chk, case):
    obs, used = run_drawing(case)
    keys = [tuple(st) for st in case["states"]]
    vac = [sum(st) == 0 for st in keys]
    replay = {"part": "drawing", "case": case}
    # the model indexes the states taking part in table order; the code hands `random.choices` its own key order
    draws = None
    if used["draws"] is not None:
        if case["fn"] == "sc2s":
            part = [i for i, st in enumerate(keys) if case["counts"][i] != 0 and not vac[i]]
        else:
            nn = True if case["fn"] == "p2s" else case["non_null"]
            part = [i for i, st in enumerate(keys) if not (nn and vac[i])]
        if sorted(used["order"]) != sorted(keys[i] for i in part):
            return ("broken", "drawing:states-taking-part", f"{case['fn']}: random.choices was handed "
                                                           f"{used['order']}, the model lets {[keys[i] for i in part]} "
                                                           f"take part", replay)
        draws = [part.index(keys.index(used["order"][j])) for j in used["draws"]]
    if case["fn"] == "sample":
        req = {"op": "sampledist", "vac": vac, "non_null": case["non_null"], "present": [True] * len(keys),
               "weights": [core.rat(float(F(w))) for w in case["weights"]], "count": case["count"]}
    elif case["fn"] == "p2s":
        req = {"op": "p2s", "vac": vac, "probs": [core.rat(float(F(w))) for w in case["weights"]],
               "count": case["count"], "max_shots": case["max_shots"], "max_samples": case["max_samples"]}
    else:
        req = {"op": "sc2s", "vac": vac, "counts": case["counts"], "count": case["count"],
               "max_shots": case["max_shots"], "max_samples": case["max_samples"]}
    if draws is None:
        # the code never reached `random.choices`: ask the model with no draw at all
        req["draws"] = []
    else:
        req["draws"] = draws
    rep = chk.lean.ask(req)
    # direct oracle: the request is honoured exactly, every sample is a state of the table
    if "samples" in obs:
        want = case["count"]
        if want is None and case["fn"] != "sample":
            lim = [x for x in (case["max_samples"], case["max_shots"]) if x is not None]
            if len(lim) == 2:
                want = min(lim)
            elif len(lim) == 1 and lim[0]:
                want = lim[0]
            elif not lim and case["fn"] == "sc2s":
                want = sum(case["counts"])
            # a single limit equal to 0 is left to the model (`max_shots or max_samples` treats 0 as absent)
        if want is not None and len(obs["samples"]) != want:
            return ("violation", "drawing:wrong-number-of-samples",
                    f"{case['fn']} asked for {want} samples returned {len(obs['samples'])}", replay)
        ok_keys = set(keys) if case["fn"] != "sc2s" else {k for k, c in zip(keys, case["counts"]) if c}
        bad = [s for s in obs["samples"] if s not in ok_keys]
        if bad:
            return ("violation", "drawing:foreign-sample", f"{case['fn']} returned {bad[0]}, not a state of the table",
                    replay)
    if "raise" in obs:
        chk.branch("drawing-raise:" + obs["raise"])
        if rep.get("raise") != obs["raise"]:
            return ("broken", "drawing:model-vs-code", f"{case['fn']}: code raised {obs['raise']}, model {rep}", replay)
        return None
    if "ok" not in rep or [keys[i] for i in rep["ok"]] != obs["samples"]:
        return ("broken", "drawing:model-vs-code", f"{case['fn']}: code {obs['samples'][:8]}, model {rep}", replay)
    chk.branch("drawing-" + case["fn"])
    if any(vac) and (case["fn"] != "sample" or case["non_null"]):
        chk.branch("drawing-vacuum-left-out")
    if case["fn"] == "sc2s" and case["count"] is None and case["max_shots"] is None and case["max_samples"] is None:
        chk.branch("drawing-count-from-table-total")
    return None


def gen_drawing(rng):
    k = rng.randint(1, 5)
    states = [list(s) for s in conv_states(rng, k)]
    fn = rng.choice(["sample", "p2s", "sc2s"])
    case = {"fn": fn, "states": states, "stream": [rng.randrange(10 ** 6) for _ in range(rng.randint(1, 12))],
            "count": None, "max_shots": None, "max_samples": None, "non_null": rng.random() < 0.6}
    ws = [F(rng.choice([0, 1, 1, 2, 3, 7])) for _ in range(k)]
    tot = sum(ws)
    case["weights"] = [str(w / tot) if tot else "0" for w in ws]
    case["counts"] = [rng.choice([0, 0, 1, 2, 5, 40]) for _ in range(k)]
    r = rng.random()
    if fn == "sample" or r < 0.5:
        case["count"] = rng.choice([0, 1, 2, 3, 10, 50])
    elif r < 0.65:
        case["max_shots"] = rng.choice([0, 1, 5, 20])
    elif r < 0.8:
        case["max_samples"] = rng.choice([0, 1, 5, 20])
    elif r < 0.9:
        case["max_shots"], case["max_samples"] = rng.choice([0, 3, 9]), rng.choice([0, 4, 7])
    return case


def drawing_part(chk, n):
    from perceval.utils import BSSamples
    from perceval.utils import conversion
    rng = chk.rng
    for _ in range(n):
        case = gen_drawing(rng)
        res = judge_drawing(chk, case)
        chk.case(("D", case["fn"], tuple(map(tuple, case["states"])), case["count"], case["max_shots"],
                  case["max_samples"], tuple(case["stream"][:4])), nontrivial=len(case["states"]) >= 2)
        if res is not None:
            chk.fail(*res)
    # the round trip counts -> probabilities -> counts with the perturbation switched off gives the table back
    # (theorem counts_probs_counts_roundtrip), on the real code
    import numpy as np
    from perceval.utils import BSCount
    for _ in range(max(20, n // 10)):
        k = rng.randint(1, 6)
        keys = key_states(k)
        counts = [rng.choice([0, 0, 1, 2, 3, 10, 1000, 12345]) for _ in range(k)]
        if sum(counts) == 0:
            counts[0] = rng.choice([1, 7])
        table = BSCount()
        for st, c in zip(keys, counts):
            table[st] = c
        with mock.patch.object(np.random, "normal", lambda *a, **kw: 0.0):
            back = conversion.probs_to_sample_count(conversion.sample_count_to_probs(table), sum(counts))
        got = [int(back[st]) if st in back else 0 for st in keys]
        chk.branch("roundtrip-counts-probs-counts")
        chk.case(("Dr", tuple(counts)), nontrivial=sum(1 for c in counts if c) >= 2)
        if got != counts:
            chk.fail("broken", "conv:roundtrip", f"counts {counts} -> probabilities -> counts (no perturbation) gives "
                                                 f"{got}", {"part": "s2p", "counts": counts})
    # samples_to_probs = sample_count_to_probs . samples_to_sample_count
    for _ in range(max(20, n // 10)):
        k = rng.randint(1, 5)
        keys = key_states(k)
        samples = [rng.randrange(k) for _ in range(rng.choice([1, 2, 5, 30]))]
        pr = conversion.samples_to_probs(BSSamples([keys[i] for i in samples]))
        rep = chk.lean.ask({"op": "s2p", "n": k, "samples": samples})
        got = [pr[s] if s in pr else None for s in keys]
        want = rep.get("probs")
        chk.branch("samples->probs")
        chk.case(("Dp", k, tuple(samples[:20])), nontrivial=len(samples) >= 2)
        if not core.close(sum(g for g in got if g is not None), 1.0):
            chk.fail("violation", "conv:probs-total", f"samples_to_probs of {len(samples)} samples sums to "
                                                      f"{sum(g for g in got if g is not None)}",
                     {"part": "s2p", "k": k, "samples": samples})
        elif want is None or any((g is None) != (w is None) or (g is not None and not core.close(g, float(F(w))))
                                 for g, w in zip(got, want)):
            chk.fail("broken", "conv:model-vs-code", f"samples_to_probs: code {got}, model {rep}",
                     {"part": "s2p", "k": k, "samples": samples})

# ------------------------------------------------------------------------------------------------
# B2. DIRECT ORACLE with the real random generators: totals of every conversion
# ------------------------------------------------------------------------------------------------
def gen_totals_case(rng):
    """A probability table (weights, normalised when it is built), a request and how the request is passed."""
    regime = rng.choice(["crowded", "crowded", "crowded", "crowded", "small", "large", "skewed"])
    if regime == "crowded":
        # many outcomes of similar probability, a request of the same order as their number
        k = rng.choice([8, 16, 32, 64, 120, rng.randint(8, 200)])
        spread = rng.choice([0.0, 0.0, 0.2, 0.5])
        w = [1.0 + spread * (rng.random() - 0.5) for _ in range(k)]
        count = max(1, int(k * rng.choice([0.25, 0.5, 0.625, 0.625, 0.75, 0.75, 1.0, 1.5, 2.0])))
    elif regime == "small":
        k = rng.randint(1, 6)
        w = [rng.random() + 0.01 for _ in range(k)]
        count = rng.choice([0, 1, 2, 3, 5, 17])
    elif regime == "large":
        k = rng.randint(2, 40)
        w = [rng.random() + 0.01 for _ in range(k)]
        count = rng.choice([100, 1000, 5000, rng.randint(50, 3000)]) if rng.random() < 0.97 else 10 ** 5
    else:
        # one dominant outcome and a long tail
        k = rng.randint(4, 80)
        w = [1.0] + [rng.choice([1e-3, 1e-2, 0.05]) * rng.random() for _ in range(k - 1)]
        count = rng.choice([1, 2, 10, k, 3 * k])
    how = rng.choice(["count", "count", "max_samples", "max_shots", "both"])
    other = rng.choice([count, count + 3, 2 * count + 1])
    return {"w": w, "count": count, "how": how, "other": other, "regime": regime, "seed": rng.randrange(2 ** 32)}


def totals_request(case):
    """-> (positional count, keywords, the count `_deduce_count` has to arrive at)"""
    c, how = case["count"], case["how"]
    if how == "count":
        return c, {}, c
    if how == "max_samples":
        return None, {"max_samples": c}, c
    if how == "max_shots":
        return None, {"max_shots": c}, c
    a, b = (c, case["other"]) if case["seed"] % 2 else (case["other"], c)
    return None, {"max_samples": a, "max_shots": b}, min(a, b)


def judge_totals(chk, case, count_branches=True):
    """Real `probs_to_sample_count`, `probs_to_samples`, `sample_count_to_samples`, `samples_to_sample_count`,
    `sample_count_to_probs` with the real generators (seeded per case so that the case replays): the totals the
    property states, evaluated directly."""
    import numpy as np
    import perceval as pcvl
    from perceval.utils import BSDistribution
    from perceval.utils import conversion
    keys = key_states(len(case["w"]))
    tot = sum(case["w"])
    bsd = BSDistribution()
    for st, x in zip(keys, case["w"]):
        bsd[st] = x / tot
    support = set(keys)
    pos, kw, want = totals_request(case)
    if how_zero_keyword(case):
        # `max_shots or max_samples` treats 0 as absent: documented quirk of _deduce_count (model: pyOr); not a total
        return None
    want_n = want if want >= 1 else 0
    replay = {"part": "totals", "case": case}
    drawn = []
    real_normal = np.random.normal

    def spy_normal(*a, **k):
        v = real_normal(*a, **k)
        drawn.append((k.get("scale", a[1] if len(a) > 1 else None), v))
        return v

    pcvl.random_seed(case["seed"])
    try:
        with mock.patch.object(np.random, "normal", spy_normal):
            res = conversion.probs_to_sample_count(bsd, pos, **kw)
    except Exception as e:  # noqa: BLE001
        return ("violation", "totals:p2sc-raises", f"probs_to_sample_count({len(keys)} states, {pos}, {kw}) raised "
                                                   f"{type(e).__name__}: {e}", replay)
    vals = [res[st] for st in res.keys()]
    total = sum(int(v) for v in vals)
    if total != want_n or any(int(v) != v or v < 0 for v in vals) or any(st not in support for st in res.keys()):
        foreign = [str(st) for st in res.keys() if st not in support]
        return ("violation", "totals:p2sc-total-not-count",
                f"probs_to_sample_count over {len(keys)} states ({case['regime']}), request {pos} {kw} (= {want}): the "
                f"table sums to {total}, smallest entry {min(vals, default=0)}, foreign keys {foreign} "
                f"[pcvl.random_seed({case['seed']})]", replay)
    if count_branches and want >= 1 and len(drawn) == len(keys):
        # which repair was needed (float replica of the rounding, for the coverage counters only)
        pert = [max(x / tot + d[1], 0) for x, d in zip(case["w"], drawn)]
        sp = sum(pert)
        if sp > 0 and max(pert) / sp * want >= 1:
            cs = [round(x / sp * want) for x in pert]
            diff = want - sum(cs)
            chk.branch("totals-p2sc-rounded")
            if diff < 0 and -diff > max(cs):
                chk.branch("totals-excess-exceeds-largest-count")
            if diff < -1:
                chk.branch("totals-excess-of-several-units")
            if diff > 1:
                chk.branch("totals-deficit-of-several-units")
        else:
            chk.branch("totals-p2sc-fallback")
    # the other conversions on the same table
    try:
        smp = conversion.probs_to_samples(bsd, pos, **kw)
        n_smp, bad = len(smp), [str(x) for x in smp if x not in support]
    except Exception as e:  # noqa: BLE001
        return ("violation", "totals:p2s-raises", f"probs_to_samples({pos}, {kw}) raised {type(e).__name__}: {e}",
                replay)
    if n_smp != want or bad:
        return ("violation", "totals:p2s-length", f"probs_to_samples over {len(keys)} states, request {pos} {kw} "
                                                  f"(= {want}) returned {n_smp} samples, outside the support: "
                                                  f"{bad[:3]}", replay)
    try:
        return _totals_tail(conversion, res, total, pos, kw, want, replay)
    except Exception as e:  # noqa: BLE001
        return ("violation", "totals:conversion-raises",
                f"converting a count table of {total} back to samples / probabilities raised {type(e).__name__}: {e}",
                replay)


def _totals_tail(conversion, res, total, pos, kw, want, replay):
    if total:
        back = conversion.sample_count_to_samples(res, pos, **kw)
        nokw = conversion.sample_count_to_samples(res)
        held = {st for st in res.keys() if res[st] > 0}
        if len(back) != want or len(nokw) != total or any(x not in held for x in list(back) + list(nokw)):
            return ("violation", "totals:sc2s-length",
                    f"sample_count_to_samples of a table of {total}: {len(back)} samples for the request {pos} {kw} "
                    f"(= {want}), {len(nokw)} without a request; all drawn from the table's states: "
                    f"{all(x in held for x in list(back) + list(nokw))}", replay)
        again = conversion.samples_to_sample_count(back)
        if sum(again.values()) != len(back):
            return ("violation", "totals:s2sc-total", f"samples_to_sample_count of {len(back)} samples sums to "
                                                      f"{sum(again.values())}", replay)
        pr = conversion.sample_count_to_probs(res)
        if not core.close(sum(pr.values()), 1.0) or any(
                not core.close(pr[st], float(F(int(res[st]), total))) for st in pr.keys()):
            return ("violation", "totals:sc2p", f"sample_count_to_probs of a table of {total} is not count/total "
                                                f"(mass {sum(pr.values())})", replay)
    return None


def how_zero_keyword(case):
    _, kw, _ = totals_request(case)
    return len(kw) == 1 and list(kw.values())[0] == 0


def totals_part(chk, n):
    rng = chk.rng
    for _ in range(n):
        case = gen_totals_case(rng)
        res = judge_totals(chk, case)
        chk.count("totals_regime", case["regime"])
        chk.count("totals_how", case["how"])
        chk.case(("T", case["seed"], len(case["w"]), case["count"], case["how"]),
                 nontrivial=len(case["w"]) >= 2 and case["count"] >= 2, sample=None)
        if res is not None and first_of(chk, res[0], res[1]):
            # shrink: fewer states (keep the request), as long as the same failure shows under the same seed
            kind, sig, what, replay = res
            cur = case
            improved = True
            while improved and len(cur["w"]) > 2:
                improved = False
                for cut in (len(cur["w"]) // 2, len(cur["w"]) - 1):
                    cand = dict(cur, w=cur["w"][:cut])
                    r = judge_totals(chk, cand, count_branches=False)
                    if r is not None and r[1] == sig:
                        cur, (kind, sig, what, replay), improved = cand, r, True
                        break
            chk.fail(kind, sig, what, replay)


# ================================================================================================
# real processors (parts C, D, E)
# ================================================================================================
def gen_proc_spec(rng, kind=None):
    """A processor description that both a sampling and a strong-simulation processor are built from."""
    m = rng.choice([3, 3, 4])
    n = rng.choice([1, 2, 2, 3])
    kind = kind or rng.choice(["perfect", "selected", "noisy", "noisy-selected", "detectors", "everything"])
    spec = {"kind": kind, "m": m, "useed": rng.randrange(10 ** 6), "heralds": {}, "ps": None, "filter": None,
            "noise": None, "detectors": None}
    modes = list(range(m))
    rng.shuffle(modes)
    inp = [0] * m
    for i in modes[:n]:
        inp[i] += 1
    if n >= 2 and rng.random() < 0.25:
        # a bunched input
        inp = [0] * m
        inp[modes[0]] = 2
        for i in modes[1:n - 1]:
            inp[i] = 1
    h_phot = 0
    if kind in ("selected", "noisy-selected", "everything"):
        h = rng.choice(range(m))
        v = rng.choice([0, 1, 1])
        inp[h] = v           # a herald injects as many photons as it expects
        if sum(inp) - v == 0:
            inp[[i for i in range(m) if i != h][0]] = 1
        h_phot = v
        spec["heralds"] = {str(h): v}
        if rng.random() < 0.6:
            free = [i for i in range(m) if i != h]
            a = rng.choice(free)
            spec["ps"] = rng.choice([f"[{a}] < 2", f"[{a}] == 1", f"[{a}] > 0" if n >= 2 else f"[{a}] < 2"])
    spec["input"] = inp
    n_user = sum(inp) - h_phot
    if kind in ("noisy", "noisy-selected", "everything"):
        spec["noise"] = {"brightness": rng.choice([1.0, 0.9, 0.6]),
                         "transmittance": rng.choice([1.0, 0.8, 0.5]),
                         "g2": rng.choice([0.0, 0.0, 0.05, 0.2]),
                         "indistinguishability": rng.choice([1.0, 0.9, 0.5]),
                         "g2_distinguishable": rng.random() < 0.5}
        if all(spec["noise"][k] == v for k, v in (("brightness", 1.0), ("transmittance", 1.0), ("g2", 0.0),
                                                  ("indistinguishability", 1.0))):
            spec["noise"]["transmittance"] = 0.7
        # a noisy source needs an explicit filter (Processor raises ValueError otherwise); it counts the photons
        # outside the heralded modes and is kept attainable
        spec["filter"] = min(rng.choice([0, 1, 1, 2]), n_user)
    if kind in ("detectors", "everything"):
        dets = []
        for i in range(m):
            r = rng.random()
            dets.append("pnr" if r < 0.3 else ("threshold" if r < 0.7 else "ppnr2"))
        if all(d == "pnr" for d in dets):
            dets[0] = "threshold"
        spec["detectors"] = dets
        if spec["filter"] is None and rng.random() < 0.5:
            spec["filter"] = 1
    if spec["filter"] is None and h_phot and (spec["detectors"] or rng.random() < 0.5):
        # half of the time leave the automatic default of a perfect source in place (= the photons outside the
        # heralded modes; it used to count the heralded photons twice: C04, fixes/C04-auto-filter-heralds.diff)
        spec["filter"] = n_user if not spec["detectors"] else 1
    # heralds on a threshold detector must be 0/1
    for h, v in spec["heralds"].items():
        if spec["detectors"] and spec["detectors"][int(h)] == "threshold" and v > 1:
            spec["heralds"][h] = 1
    return spec


def make_detector(desc):
    """Detector descriptions: None (no detector = PNR) | 'pnr' | 'threshold' | 'ppnr2' (= 'ppnr:2') | 'ppnr:W' |
    'ppnr:W:MAX' (interleaved, W wires, at most MAX read) | 'bsppnr:L:R' (L beam-splitter layers of reflectivity R).
    Every 'ppnr:…' is NAMED "PPNR" and every 'bsppnr:L:…' "BS-PPNR<L>" whatever its other parameters."""
    from perceval.components import Detector, BSLayeredPPNR
    if desc is None:
        return None
    if desc == "pnr":
        return Detector.pnr()
    if desc == "threshold":
        return Detector.threshold()
    if desc == "ppnr2":
        return Detector.ppnr(2)
    f = desc.split(":")
    if f[0] == "ppnr":
        return Detector.ppnr(int(f[1]), int(f[2]) if len(f) > 2 else None)
    if f[0] == "bsppnr":
        return BSLayeredPPNR(int(f[1]), float(f[2]))
    raise ValueError(desc)


def det_cap(desc):
    """largest count the detector can read"""
    if desc is None or desc == "pnr":
        return 10 ** 9
    if desc == "threshold":
        return 1
    if desc == "ppnr2":
        return 2
    f = desc.split(":")
    if f[0] == "ppnr":
        return int(f[2]) if len(f) > 2 else int(f[1])
    return 2 ** int(f[1])


def noise_model(nz):
    from perceval.utils import NoiseModel
    if not nz:
        return None
    return NoiseModel(brightness=nz["brightness"], transmittance=nz["transmittance"], g2=nz["g2"],
                      indistinguishability=nz["indistinguishability"], g2_distinguishable=nz["g2_distinguishable"])


def gen_bunching_selected_spec(rng):
    """Shots that fail BOTH the photon filter and the logical selection: lossy (threshold / pseudo-PNR) detectors
    on every mode merge bunched photons, a filter of 2 or more asks for most of them, a herald and / or a
    post-selection rejects part of the outcomes.  The performances then depend on which rejection a shot failing
    both is booked under (strong simulation: the physical one)."""
    m = rng.choice([3, 4, 4])
    n = 3 if m == 4 or rng.random() < 0.7 else 2
    spec = {"kind": "bunching-selected", "m": m, "useed": rng.randrange(10 ** 6), "heralds": {}, "ps": None,
            "filter": None, "noise": None, "detectors": None}
    modes = list(range(m))
    rng.shuffle(modes)
    inp = [0] * m
    for i in modes[:n]:
        inp[i] = 1
    h = modes[-1] if rng.random() < 0.6 else modes[0]
    v = inp[h] if rng.random() < 0.7 else 1 - inp[h]
    inp[h] = v
    spec["heralds"] = {str(h): v}
    n_user = sum(inp) - v
    if n_user < 2:
        free = [i for i in range(m) if i != h and inp[i] == 0]
        inp[free[0]] = 1
        n_user += 1
    if rng.random() < 0.5:
        a = rng.choice([i for i in range(m) if i != h])
        spec["ps"] = rng.choice([f"[{a}] < 2", f"[{a}] == 1", f"[{a}] > 0", f"[{a}] == 0"])
    spec["input"] = inp
    spec["filter"] = rng.randint(2, n_user)
    kinds = rng.choice([["threshold"], ["threshold"], ["threshold", "ppnr2"], ["threshold", "ppnr:3:2", "bsppnr:1:0.5"]])
    spec["detectors"] = [rng.choice(kinds) for _ in range(m)]
    if rng.random() < 0.3:
        spec["noise"] = {"brightness": rng.choice([1.0, 0.9]), "transmittance": rng.choice([0.9, 0.8]),
                         "g2": rng.choice([0.0, 0.05]), "indistinguishability": rng.choice([1.0, 0.8]),
                         "g2_distinguishable": rng.random() < 0.5}
    return spec


def prob_failing_both(spec):
    """Exact probability (strong simulation of the same experiment WITHOUT heralds / post-selection / filter, all
    modes kept) that a detected state holds too few photons AND is rejected by the heralds / the post-selection."""
    from perceval.utils import BasicState, PostSelect
    her = {int(k): v for k, v in spec["heralds"].items()}
    open_spec = dict(spec, heralds={}, ps=None, filter=0)
    ref, _, _ = reference(open_spec)
    ps = PostSelect(spec["ps"]) if spec["ps"] else None
    need = (spec["filter"] or 0)
    tot = 0.0
    for st, pr in ref.items():
        # strong simulation compares the photon number of the whole state with filter + expected heralded photons
        # (ISimulator.min_detected_photons_filter): on states meeting the heralds this is "photons outside the
        # heralded modes < filter"
        few = sum(st) < need + sum(her.values())
        sel = all(st[k] == v for k, v in her.items()) and (ps is None or bool(ps(BasicState(list(st)))))
        if few and not sel:
            tot += pr
    return tot


def build_proc(spec, backend):
    import perceval as pcvl
    from perceval.utils import BasicState, PostSelect, NoiseModel
    from perceval.components import Detector
    from . import gens
    noise = noise_model(spec["noise"])
    p = pcvl.Processor(backend, spec["m"], noise=noise)
    if spec.get("unitary") == "dft":
        # a balanced interferometer: one photon leaves on every mode with the same probability
        m = spec["m"]
        u = [[complex(math.cos(2 * math.pi * i * j / m), math.sin(2 * math.pi * i * j / m)) / math.sqrt(m)
              for j in range(m)] for i in range(m)]
        p.add(0, pcvl.Unitary(pcvl.Matrix(u)))
    else:
        p.add(0, pcvl.Unitary(pcvl.Matrix(gens.haar(spec["m"], spec["useed"]))))
    for h, v in spec["heralds"].items():
        p.add_herald(int(h), v)
    if spec["detectors"]:
        for i, d in enumerate(spec["detectors"]):
            if d is not None:
                p.add(i, make_detector(d))
    if spec["ps"]:
        p.set_postselection(PostSelect(spec["ps"]))
    if spec["filter"] is not None:
        p.min_detected_photons_filter(spec["filter"])
    inp = [v for i, v in enumerate(spec["input"]) if str(i) not in spec["heralds"]]
    p.with_input(BasicState(inp))
    return p


def legal_sample(spec, st):
    """None when `st` (a tuple) is a legal outcome of the processor, else the reason."""
    from perceval.utils import BasicState, PostSelect
    m, her = spec["m"], {int(k): v for k, v in spec["heralds"].items()}
    if len(st) != m - len(her):
        return f"has {len(st)} modes, the processor exposes {m - len(her)} (m={m}, {len(her)} heralded)"
    it = iter(st)
    full = [her[i] if i in her else next(it) for i in range(m)]
    n_in = sum(spec["input"])
    n_max = n_in * (2 if spec["noise"] and spec["noise"]["g2"] > 0 else 1)
    if sum(full) > n_max:
        return f"holds {sum(full)} photons, at most {n_max} can be emitted"
    if not spec["noise"] and not spec["detectors"] and sum(full) != n_in:
        return f"holds {sum(full)} photons for a lossless {n_in}-photon input"
    # automatic default of a perfect source: every photon outside the heralded modes
    filt = spec["filter"] if spec["filter"] is not None else (n_in - sum(her.values()) if not spec["noise"] else 0)
    if sum(st) < filt:
        return (f"holds {sum(st)} photons outside the heralded modes, below min_detected_photons_filter={filt} "
                f"(which does not count heralded modes)")
    if spec["detectors"]:
        for i, d in enumerate(spec["detectors"]):
            cap = det_cap(d)
            if full[i] > cap:
                return f"mode {i} reads {full[i]} on a {d} detector"
    if spec["ps"] and not PostSelect(spec["ps"])(BasicState(full)):
        return f"fails the post-selection {spec['ps']}"
    return None


LIMS = [0, 1, 2, 5, 17, None]
SHOT_BUDGET_FACTOR = 4   # a configuration takes at most about 4 n shots for a request of n samples
GOF_TIMEOUT = 600   # seconds for one configuration (a sampler that never selects anything would not return)
MIN_YIELD = 0.03   # processors that select less than this are not asked for a fixed number of samples
MIN_BOTH = 0.08    # "a sizeable part of the shots fails both the photon filter and the selection"


def spec_yield(spec):
    _, ph, lg = reference(spec)
    return (ph or 0) * (lg or 0)



def limits_case(spec, ms, sh, via):
    """-> observation dict of one (max_samples, max_shots) request on a real processor."""
    import perceval as pcvl
    from perceval.algorithm import Sampler
    p = build_proc(spec, "CliffordClifford2017")
    obs = {}
    try:
        if via == "processor":
            with watchdog(CALL_TIMEOUT):
                res = p.samples(ms, sh)
            out = [tuple(s) for s in res["results"]]
        else:
            sampler = Sampler(p) if sh is None else Sampler(p, max_shots_per_call=sh)
            job = sampler.samples if via == "sampler.samples" else sampler.sample_count
            args = (ms,) if ms is not None else ()
            try:
                # "no max_samples" means SAMPLES_MAX_COUNT = 1e8 to the Sampler; every request here is bounded by
                # max_shots <= 17, so a smaller ceiling changes nothing unless the shot limit is ignored
                with mock.patch.object(Sampler, "SAMPLES_MAX_COUNT", 20000), watchdog(CALL_TIMEOUT):
                    res = job.execute_sync(*args)
            finally:
                failed = job.is_failed
            if failed:
                # a LocalJob swallows the exception of its task: the class name is the head of the message
                obs["raise"] = str(job.status.stop_message).split(":")[0].strip()
                return obs
            if via == "sampler.samples":
                out = [tuple(s) for s in res["results"]]
            else:
                out = []
                for s, c in res["results"].items():
                    out.extend([tuple(s)] * int(c))
        obs["n"] = len(out)
        obs["states"] = sorted(set(out))
        obs["phys"], obs["logical"] = res.get("physical_perf"), res.get("logical_perf")
    except Exception as e:  # noqa: BLE001
        obs["raise"] = type(e).__name__
    return obs


def judge_limits(chk, spec, ms, sh, via):
    obs = limits_case(spec, ms, sh, via)
    replay = {"part": "limits", "spec": spec, "ms": ms, "sh": sh, "via": via}
    if "raise" in obs:
        # documented rejections: Processor.samples needs an int max_samples; the Sampler needs one limit
        if via == "processor" and ms is None and obs["raise"] == "TypeError":
            chk.branch("limits-rejected-None-max_samples")
            return None
        if via != "processor" and ms is None and sh is None and obs["raise"] == "RuntimeError":
            chk.branch("limits-rejected-no-limit")
            return None
        return ("violation", "limits:unexpected-exception",
                f"{via}(max_samples={ms}, max_shots={sh}) raised {obs['raise']} on {spec['kind']} processor", replay)
    lim = [x for x in (ms, sh) if x is not None]
    if lim and obs["n"] > min(lim):
        return ("violation", "limits:returns-more-than-min",
                f"{via}(max_samples={ms}, max_shots={sh}) returned {obs['n']} samples", replay)
    for st in obs["states"]:
        why = legal_sample(spec, st)
        if why:
            return ("violation", "limits:illegal-sample", f"{via} returned {st} which {why}", replay)
    for k in ("phys", "logical"):
        if obs[k] is not None and not (-1e-12 <= obs[k] <= 1 + 1e-12):
            return ("violation", "limits:perf-out-of-range", f"{k} performance {obs[k]}", replay)
    if spec["kind"] == "perfect" and lim:
        # nothing is ever rejected: exactly min(...) samples (model: computeSamples / perfectLoop)
        rep = chk.lean.ask({"op": "cs", "ms": ms if ms is not None else 10 ** 8, "sh": sh})
        if rep.get("ok") != obs["n"]:
            return ("broken", "limits:model-vs-code", f"{via}(max_samples={ms}, max_shots={sh}) on a perfect "
                                                      f"processor returned {obs['n']}, model {rep}", replay)
        chk.branch("limits-exact-count")
    if obs["n"] and lim and obs["n"] == min(lim):
        chk.branch("limits-bound-reached")
    if obs["n"] == 0:
        chk.branch("limits-empty")
    return None


def limits_part(chk, n_specs):
    rng = chk.rng
    kinds = ["perfect", "selected", "noisy", "noisy-selected", "detectors", "everything"]
    specs = []
    for i in range(n_specs):
        spec = gen_proc_spec(rng, kinds[i % len(kinds)])
        while spec_yield(spec) < MIN_YIELD:   # max_shots=None would loop for very long
            spec = gen_proc_spec(rng, kinds[i % len(kinds)])
        specs.append(spec)
    for spec in specs:
        for via in ("processor", "sampler.samples", "sampler.sample_count"):
            for ms in LIMS:
                for sh in LIMS:
                    if ms is None and sh is None and via == "processor" and spec["kind"] != "perfect":
                        pass
                    res = judge_limits(chk, spec, ms, sh, via)
                    chk.count("limits_via", via)
                    chk.count("limits_kind", spec["kind"])
                    chk.case(("L", spec["kind"], spec["useed"], ms, sh, via),
                             nontrivial=ms not in (0, None) and sh not in (0, None), sample=None)
                    if res is not None:
                        chk.fail(*res)


# ------------------------------------------------------------------------------------------------
# C2. Sampler on a strong-simulation processor: samples / sample_count are CONVERTED from probabilities
# ------------------------------------------------------------------------------------------------
def gen_wide_spec(rng):
    """A noiseless processor with MANY outcomes of comparable probability (Haar unitary on 6..32 modes), with or
    without a herald / post-selection: what `Sampler(...).sample_count(n)` converts with probs_to_sample_count."""
    m, n = rng.choice([(6, 2), (8, 2), (8, 1), (12, 1), (12, 2), (16, 1), (24, 1), (32, 1), (5, 3)])
    kind = rng.choice(["perfect", "perfect", "selected"])
    spec = {"kind": kind, "m": m, "useed": rng.randrange(10 ** 6), "heralds": {}, "ps": None, "filter": None,
            "noise": None, "detectors": None}
    modes = list(range(m))
    rng.shuffle(modes)
    inp = [0] * m
    for i in modes[:n]:
        inp[i] = 1
    if kind == "selected":
        h = modes[-1]                      # an empty mode
        v = rng.choice([0, 0, 1])
        inp[h] = v
        spec["heralds"] = {str(h): v}
        if rng.random() < 0.5:
            spec["ps"] = f"[{modes[-2]}] < 2"
    spec["input"] = inp
    if rng.random() < 0.5:
        spec["unitary"] = "dft"            # outcomes of EQUAL probability for one photon (Haar ones are uneven)
    return spec


def n_outcomes(spec):
    m = spec["m"] - len(spec["heralds"])
    n = sum(spec["input"]) - sum(spec["heralds"].values())
    return math.comb(m + n - 1, n)


def judge_strong(chk, spec, via, ms, sh, seed):
    """One `Sampler(SLOS processor).samples / sample_count` request: the total is exactly min of the limits given
    (nothing is rejected: the probabilities are already conditional), every state is a legal outcome."""
    import perceval as pcvl
    from perceval.algorithm import Sampler
    replay = {"part": "strong", "spec": spec, "via": via, "ms": ms, "sh": sh, "seed": seed}
    pcvl.random_seed(seed)
    try:
        proc = build_proc(spec, "SLOS")
        sampler = Sampler(proc) if sh is None else Sampler(proc, max_shots_per_call=sh)
        job = sampler.samples if via == "sampler.samples" else sampler.sample_count
        try:
            with watchdog(CALL_TIMEOUT):
                res = job.execute_sync(ms)
        finally:
            failed = job.is_failed
        if failed:
            return ("violation", "strong:unexpected-exception",
                    f"Sampler(SLOS).{via}({ms}) with max_shots_per_call={sh} failed: {job.status.stop_message}", replay)
    except Exception as e:  # noqa: BLE001
        return ("violation", "strong:unexpected-exception",
                f"Sampler(SLOS).{via}({ms}) with max_shots_per_call={sh} raised {type(e).__name__}: {e}", replay)
    if via == "sampler.samples":
        out = [tuple(x) for x in res["results"]]
        total = len(out)
    else:
        out = [tuple(x) for x in res["results"].keys()]
        vals = list(res["results"].values())
        total = sum(int(v) for v in vals)
        if any(v < 0 for v in vals):
            return ("violation", "strong:negative-count", f"Sampler(SLOS).sample_count({ms}) holds a negative count",
                    replay)
    want = min(x for x in (ms, sh) if x is not None)
    if total != want:
        return ("violation", "strong:total-not-request",
                f"Sampler(SLOS processor, {spec['m']} modes, {n_outcomes(spec)} outcomes, max_shots_per_call={sh})."
                f"{via.split('.')[1]}({ms}) returned a total of {total} instead of {want} "
                f"[pcvl.random_seed({seed})]", replay)
    for st in set(out):
        why = legal_sample(spec, st)
        if why:
            return ("violation", "strong:illegal-sample", f"Sampler(SLOS).{via} returned {st} which {why}", replay)
    chk.branch("strong-" + via.split(".")[1])
    if spec.get("unitary") == "dft":
        chk.branch("strong-balanced-interferometer")
    if want >= 2 and n_outcomes(spec) >= 16 and want <= 2 * n_outcomes(spec):
        chk.branch("strong-request-of-the-order-of-the-outcomes")
    return None


def strong_part(chk, n_specs, reps):
    rng = chk.rng
    for _ in range(n_specs):
        spec = gen_wide_spec(rng)
        k = n_outcomes(spec)
        for _ in range(reps):
            via = rng.choice(["sampler.sample_count", "sampler.sample_count", "sampler.samples"])
            ms = rng.choice([max(1, k // 3), max(1, k // 2), max(1, (5 * k) // 8), k, 2 * k, rng.randint(1, 3 * k), 1])
            sh = rng.choice([None, None, None, ms, max(1, ms // 2), ms + 5])
            seed = rng.randrange(2 ** 32)
            res = judge_strong(chk, spec, via, ms, sh, seed)
            chk.count("strong_via", via)
            chk.case(("S", spec["useed"], spec["m"], via, ms, sh, seed), nontrivial=ms >= 2, sample=None)
            if res is not None:
                if first_of(chk, res[0], res[1]):
                    chk.fail(*res)
                break


# ------------------------------------------------------------------------------------------------
# D. seed reproducibility
# ------------------------------------------------------------------------------------------------
def canon_tags(items):
    """Textual form of a list of annotated states where the distinguishability tags `_:N` are renamed by order of
    first appearance over the whole list (tag 0, the signal tag, is kept): their absolute numbering continues from
    one call to the next on the same Source, it is a label, not a random choice."""
    import re
    names = {}

    def rename(match):
        tag = match.group(1)
        if tag == "0":
            return "_:0"
        return "_:" + names.setdefault(tag, "t%d" % len(names))
    return [re.sub(r"_:(\d+)", rename, str(x)) for x in items]


def seed_paths():
    """name -> (setup, run): `setup()` builds the objects the path works on, `run(objects)` returns a canonical
    (comparable) value that depends on the random generators.  A path is checked on FRESH objects (setup before every
    run) and on LONG-LIVED ones (one setup, every run on the same objects, re-seeded in between)."""
    import numpy as np
    import perceval as pcvl
    from perceval.algorithm import Sampler
    from perceval.utils import BasicState, BSDistribution, BSCount, NoiseModel
    from perceval.utils import conversion
    from perceval.components import Source, Detector, BSLayeredPPNR
    from perceval.simulators._simulate_detectors import simulate_detectors_sample
    from perceval.backends import Clifford2017Backend

    def src(**kw):
        return Source.from_noise_model(NoiseModel(**kw))

    def source_path(filt, **kw):
        return (lambda: src(**kw),
                lambda s: canon_tags(s.generate_samples(60, BasicState([1, 0, 1, 1]), filt)))

    def dist5():
        d = BSDistribution()
        for i, st in enumerate(key_states(5)):
            d[st] = (i + 1) / 15
        return d

    def dist6():
        d = BSDistribution()
        for i, st in enumerate(key_states(6)):
            d[st] = (i + 1) / 21
        return d

    def count4():
        c = BSCount()
        for i, st in enumerate(key_states(4)):
            c[st] = 3 * i + 1
        return c

    def clifford():
        from . import gens
        b = Clifford2017Backend()
        b.set_circuit(pcvl.Unitary(pcvl.Matrix(gens.haar(4, 11))))
        b.set_input_state(BasicState([1, 1, 0, 1]))
        return b

    def random_circuit(_):
        u = pcvl.Unitary.random(3) if hasattr(pcvl.Unitary, "random") else pcvl.Unitary(pcvl.Matrix.random_unitary(3))
        return np.asarray(u.compute_unitary()).tolist()

    def noisy_processor():
        return build_proc({"kind": "noisy", "m": 3, "useed": 5, "heralds": {}, "ps": None, "filter": 1,
                           "noise": {"brightness": 0.6, "transmittance": 0.8, "g2": 0.1, "indistinguishability": 0.7,
                                     "g2_distinguishable": True}, "detectors": None, "input": [1, 1, 0]},
                          "CliffordClifford2017")

    def fixed_route_processor(filt, detectors=False):
        # a circuit that only re-routes the modes: the native bulk sampler has no random decision to take, every
        # random choice of Processor.samples is made by the Python layer (source emission, recombination of the
        # tagged parts, detector outcomes)
        def setup():
            p = pcvl.Processor("CliffordClifford2017", 4,
                               noise=NoiseModel(brightness=0.6, g2=0.05, indistinguishability=0.85, transmittance=0.7))
            p.add(0, pcvl.PERM([2, 0, 3, 1]))
            if detectors:
                for i, d in enumerate([Detector.ppnr(3), Detector.threshold(), Detector.ppnr(2), Detector.pnr()]):
                    p.add(i, d)
            p.min_detected_photons_filter(filt)
            p.with_input(BasicState([1, 0, 1, 1] if not detectors else [2, 0, 2, 1]))
            return p
        return setup

    return {"source.generate_samples(no filter)":
                source_path(0, brightness=0.7, transmittance=0.8, g2=0.1, indistinguishability=0.8),
            "source.generate_samples(filter 1)":
                source_path(1, brightness=0.7, transmittance=0.8, g2=0.1, indistinguishability=0.8),
            "source.generate_samples(filter)":
                source_path(2, brightness=0.7, transmittance=0.8, g2=0.1, indistinguishability=0.8,
                            g2_distinguishable=False),
            "simulate_detectors_sample(PPNR)":
                (lambda: [Detector.ppnr(3), Detector.threshold(), Detector.ppnr(2, 1)],
                 lambda dets: [str(simulate_detectors_sample(BasicState([3, 2, 2]), dets)) for _ in range(40)]),
            "simulate_detectors_sample(BS-PPNR)":
                (lambda: [BSLayeredPPNR(2, 0.4), None, BSLayeredPPNR(1)],
                 lambda dets: [str(simulate_detectors_sample(BasicState([3, 2, 2]), dets)) for _ in range(40)]),
            "BSDistribution.sample": (dist5, lambda d: [str(x) for x in d.sample(80, non_null=False)]),
            "Matrix.random_unitary": (lambda: None, lambda _: pcvl.Matrix.random_unitary(4).tolist()),
            "Unitary.random": (lambda: None, random_circuit),
            "Clifford2017Backend.sample": (clifford, lambda b: [str(b.sample()) for _ in range(40)]),
            "probs_to_sample_count":
                (dist6, lambda d: sorted((str(k), int(v)) for k, v in conversion.probs_to_sample_count(d, 1001).items())),
            "probs_to_samples": (dist6, lambda d: [str(x) for x in conversion.probs_to_samples(d, 50)]),
            "sample_count_to_samples": (count4, lambda c: [str(x) for x in conversion.sample_count_to_samples(c, 50)]),
            "Processor.source.generate_samples":
                (noisy_processor, lambda p: canon_tags(p.source.generate_samples(40, p.input_state, 1))),
            "Processor.samples(filter 0)":
                (fixed_route_processor(0), lambda p: [str(x) for x in p.samples(150)["results"]]),
            "Processor.samples(filter 1)":
                (fixed_route_processor(1), lambda p: [str(x) for x in p.samples(150)["results"]]),
            "Processor.samples(filter 2)":
                (fixed_route_processor(2), lambda p: [str(x) for x in p.samples(150)["results"]]),
            "Processor.samples(PPNR detectors)":
                (fixed_route_processor(1, True), lambda p: [str(x) for x in p.samples(150)["results"]]),
            "Sampler.samples(filter 1)":
                (lambda: Sampler(fixed_route_processor(1)()),
                 lambda sp: [str(x) for x in sp.samples(150)["results"]]),
            }


# seed values a truthiness test, a sign test or a 32-bit mask would treat differently; part of EVERY run
BOUNDARY_SEEDS = [0, 1, 2 ** 32 - 1]


def seed_triple(setup, run, s, reuse):
    """run under seed s / disturb every generator under another seed / run under seed s again -> (first, third)"""
    import perceval as pcvl
    objs = setup() if reuse else None
    pcvl.random_seed(s)
    a = run(objs if reuse else setup())
    pcvl.random_seed((s + 7919) % 2 ** 32)
    run(objs if reuse else setup())
    pcvl.random_seed(s)
    b = run(objs if reuse else setup())
    return a, b


def seed_part(chk, seeds, only=None):
    import perceval as pcvl
    paths = seed_paths()
    for name, (setup, run) in paths.items():
        if only is not None and name != only:
            continue
        outs = {}
        # (a whole Processor.samples request costs 50 ms: these paths run under the first two boundary seeds and the
        #  last, random, seed only)
        heavy = name.startswith(("Processor.samples", "Sampler.samples"))
        for s in (seeds if not heavy or len(seeds) <= 3 else list(seeds[:2]) + list(seeds[-1:])):
            bad = None
            for reuse in (False, True):
                try:
                    with watchdog(CALL_TIMEOUT):
                        a, b = seed_triple(setup, run, s, reuse)
                except Exception as e:  # noqa: BLE001
                    chk.fail("violation", "seed:exception:" + name,
                             f"{name} raised {type(e).__name__}: {e} under pcvl.random_seed({s}) "
                             f"({'the same objects used again' if reuse else 'fresh objects'})",
                             {"part": "seed", "path": name, "seed": s})
                    bad = True
                    break
                chk.case(("D", name, s, reuse), nontrivial=True, sample=None)
                chk.branch("seed-path")
                chk.branch("seed-path-long-lived-objects" if reuse else "seed-path-fresh-objects")
                if a != b:
                    n_diff = sum(1 for x, y in zip(a, b) if x != y) if isinstance(a, list) else 1
                    chk.fail("violation", "seed:not-reproducible:" + name,
                             f"{name} gives two different results under pcvl.random_seed({s}) "
                             + ("when the SAME objects are used again after re-seeding (seed, run, seed, run on one "
                                "Source / Processor / detector list / table)" if reuse else
                                "(objects built anew after every seeding)")
                             + f": {n_diff} of {len(a) if isinstance(a, list) else 1} items differ, e.g. "
                             + str(next(((x, y) for x, y in zip(a, b) if x != y), (a, b)) if isinstance(a, list)
                                   else "")[:200],
                             {"part": "seed", "path": name, "seed": s, "long_lived": reuse})
                    bad = True
                    break
                if not reuse:
                    outs[s] = json.dumps(a, default=str)
            if s in BOUNDARY_SEEDS:
                chk.branch("seed-boundary-value-%d" % s)
            chk.count("seed_paths", name)
            if bad:
                break
        if len(set(outs.values())) <= 1 and len(outs) > 1:
            # not random at all: the comparison above was vacuous
            chk.fail("broken", "seed:path-not-random:" + name,
                     f"{name} returned the same value for every seed: the reproducibility comparison is vacuous",
                     {"part": "seed", "path": name})
    if only is not None:
        return
    # informational only: bulk native sampling (multi-threaded; claimed equal in distribution only)
    spec = gen_proc_spec(pyrandom.Random(1), "noisy-selected")
    same = 0
    for s in seeds[:3]:
        pcvl.random_seed(s)
        a = [tuple(x) for x in build_proc(spec, "CliffordClifford2017").samples(200)["results"]]
        pcvl.random_seed(s)
        b = [tuple(x) for x in build_proc(spec, "CliffordClifford2017").samples(200)["results"]]
        same += a == b
    chk.extra["bulk_sampling_repeats_bit_for_bit(informational, not claimed)"] = f"{same}/{len(seeds[:3])}"


# ------------------------------------------------------------------------------------------------
# E. goodness of fit (labelled statistical test)
# ------------------------------------------------------------------------------------------------
def kl_bern(a, q):
    """KL( Bernoulli(a) || Bernoulli(q) ) in nats; +inf where the support forbids it."""
    if q <= 0.0:
        return 0.0 if a <= 0.0 else math.inf
    if q >= 1.0:
        return 0.0 if a >= 1.0 else math.inf
    t = 0.0
    if a > 0.0:
        t += a * math.log(a / q)
    if a < 1.0:
        t += (1.0 - a) * math.log((1.0 - a) / (1.0 - q))
    return t


def cell_tail_bound(c, n, q, eta=ETA):
    """Upper bound on  P( |Bin(n, p) deviation| at least as extreme as c )  valid for EVERY p with
    |p - q| <= eta  (Chernoff: P(X >= c) <= exp(-n KL(c/n || p)) for c/n >= p, same below).  Returns 1 when
    c/n lies inside [q - eta, q + eta]."""
    a = c / n
    hi, lo = min(1.0, q + eta), max(0.0, q - eta)
    if a > hi:
        return math.exp(-n * kl_bern(a, hi)) if kl_bern(a, hi) != math.inf else 0.0
    if a < lo:
        return math.exp(-n * kl_bern(a, lo)) if kl_bern(a, lo) != math.inf else 0.0
    return 1.0


def gof(ref, counts, n, alpha):
    """Goodness of fit of observed `counts` (dict outcome -> count, total n) against reference
    probabilities `ref` (dict), each known within ETA.  False-alarm probability <= alpha:
      * alpha/2 shared by the K+1 cells (K reference outcomes + 'anything else'), two-sided Chernoff bound;
      * alpha/2 for the L1 distance (Bretagnolle-Huber-Carol: P(||p^ - p||_1 >= e) <= 2^K exp(-n e^2 / 2)).
    -> None or a description of the rejection."""
    keys = list(ref)
    K = len(keys) + 1
    a_cell = alpha / 4 / K          # two one-sided bounds per cell, K cells: alpha / 2 in total
    other = sum(c for k, c in counts.items() if k not in ref)
    worst = None
    for k in keys + [None]:
        c = other if k is None else counts.get(k, 0)
        q = 0.0 if k is None else ref[k]
        # the 'anything else' cell collects every outcome the reference gives probability < 1e-16 each
        b = cell_tail_bound(c, n, q, ETA if k is not None else ETA * 100)
        if b < a_cell and (worst is None or b < worst[0]):
            worst = (b, k, c, q)
    if worst is not None:
        b, k, c, q = worst
        return (f"outcome {k if k is not None else '(outside the support of strong simulation)'}: observed {c}/{n} = "
                f"{c / n:.5f}, strong simulation gives {q:.5f}; such a deviation has probability <= {b:.3g} "
                f"(threshold {a_cell:.3g})")
    l1 = sum(abs(counts.get(k, 0) / n - ref[k]) for k in keys) + other / n
    eps = math.sqrt(2.0 * (K * math.log(2.0) + math.log(2.0 / alpha)) / n) + (K + 100) * ETA
    if l1 > eps:
        return f"L1 distance {l1:.5f} between sampled frequencies and strong simulation exceeds the bound {eps:.5f}"
    return None


def hoeffding_eps(n, alpha):
    return math.sqrt(math.log(2.0 / alpha) / (2.0 * n))


def reference(spec):
    p = build_proc(spec, "SLOS")
    r = p.probs(precision=0)
    ref = {tuple(k): float(v) for k, v in r["results"].items()}
    return ref, r.get("physical_perf"), r.get("logical_perf")


def gof_worker(args):
    """One configuration (runs in a worker process).  -> result dict (no perceval objects)."""
    spec, via, n, seed = args
    silence_logger()
    import time
    t0 = time.time()
    import perceval as pcvl
    from perceval.algorithm import Sampler
    from perceval.utils import BasicState
    pcvl.random_seed(seed)
    out = {"spec": spec, "via": via, "n_req": n, "seed": seed}
    try:
        if via == "backend-retuned" and spec["m"] >= 2:
            # a LONG-LIVED sampling backend: the same circuit object is re-tuned in place (a variable angle between two
            # fixed blocks) and handed over again; the samples must follow the distribution of the circuit as it is NOW
            from perceval.backends import Clifford2017Backend, SLOSBackend
            import perceval.components as comp
            from . import gens
            m = spec["m"]

            def mk(theta):
                c = pcvl.Circuit(m)
                c.add(0, pcvl.Unitary(pcvl.Matrix(gens.haar(m, spec["useed"]))))
                c.add(0, comp.BS(theta=theta))
                c.add(0, pcvl.Unitary(pcvl.Matrix(gens.haar(m, spec["useed"] + 1))))
                return c
            t = pcvl.P("t")
            c = mk(t)
            t.set_value(0.3)
            b = Clifford2017Backend()
            b.set_circuit(c)
            b.set_input_state(BasicState(spec["input"]))
            b.samples(20)
            t.set_value(2.1)
            b.set_circuit(c)
            b.set_input_state(BasicState(spec["input"]))
            smp = [tuple(s) for s in b.samples(n)]
            s = SLOSBackend()
            s.set_circuit(mk(2.1))
            s.set_input_state(BasicState(spec["input"]))
            ref = {tuple(k): float(v) for k, v in s.prob_distribution().items()}
            out.update(ref=list(ref.items()), counts=_count(smp), n=len(smp), phys=None, logical=None,
                       ref_phys=None, ref_logical=None)
            out["secs"] = round(time.time() - t0, 2)
            return out
        if via in ("backend", "backend-retuned"):
            from perceval.backends import Clifford2017Backend, SLOSBackend
            from . import gens
            u = pcvl.Unitary(pcvl.Matrix(gens.haar(spec["m"], spec["useed"])))
            b = Clifford2017Backend()
            b.set_circuit(u)
            b.set_input_state(BasicState(spec["input"]))
            smp = [tuple(s) for s in b.samples(n)]
            s = SLOSBackend()
            s.set_circuit(u)
            s.set_input_state(BasicState(spec["input"]))
            ref = {tuple(k): float(v) for k, v in s.prob_distribution().items()}
            out.update(ref=list(ref.items()), counts=_count(smp), n=len(smp), phys=None, logical=None,
                       ref_phys=None, ref_logical=None)
            out["secs"] = round(time.time() - t0, 2)
            return out
        _gof_processor(spec, via, n, out)
    except Exception as e:  # noqa: BLE001
        import traceback
        out["raise"] = type(e).__name__
        out["trace"] = traceback.format_exc()[-1500:]
    out["secs"] = round(time.time() - t0, 2)
    return out


def _gof_processor(spec, via, n, out, proc=None):
    """Sample the processor of `spec` (a freshly built one, or `proc`: a long-lived object brought to this
    configuration by its setters) through `via`, next to the strong-simulation reference of a FRESH processor."""
    from perceval.algorithm import Sampler
    ref, rphys, rlog = reference(spec)
    if (rphys or 0) * (rlog or 0) < MIN_YIELD and via != "processor-shots":
        # hardly anything is selected: a request for n samples would not come back; bound the shots
        via = out["via"] = "processor-shots"
    p = proc if proc is not None else build_proc(spec, "CliffordClifford2017")
    # bound the work: about SHOT_BUDGET shots whatever the yield of the processor
    y = (rphys or 0) * (rlog or 0)
    if via != "processor-shots":
        n = max(300, min(n, int(y * SHOT_BUDGET_FACTOR * n)))
    out["n_eff"] = n
    if via == "processor":
        res = p.samples(n)
        smp = [tuple(s) for s in res["results"]]
        counts = _count(smp)
    elif via == "processor-shots":
        # the loop iterations (= shots) are counted by the progress callback: with an effective photon filter of
        # 2 or more the shot limit is rescaled by the source's P(n >= filter | n > 0) before the loop starts
        seen = [0]

        def cb(progress, msg):
            if msg == "sampling":
                seen[0] += 1
            return None

        res = p.samples(10 * n, n, progress_callback=cb)
        out["shots"] = seen[0]
        smp = [tuple(s) for s in res["results"]]
        counts = _count(smp)
    elif via == "sampler.samples":
        res = Sampler(p).samples(n)
        counts = _count([tuple(s) for s in res["results"]])
    elif via == "sampler.sample_count":
        res = Sampler(p).sample_count(n)
        counts = {tuple(k): int(v) for k, v in res["results"].items()}
    else:  # sampler.probs: 10000 samples turned into frequencies by the Sampler
        res = Sampler(p).probs()
        nn = Sampler.PROBS_SIMU_SAMPLE_COUNT
        counts = {tuple(k): int(round(float(v) * nn)) for k, v in res["results"].items()}
        if any(abs(float(v) * nn - round(float(v) * nn)) > 1e-6 for v in res["results"].values()):
            out["err"] = "Sampler.probs frequencies are not multiples of 1/PROBS_SIMU_SAMPLE_COUNT"
    out.update(ref=list(ref.items()), counts=list(counts.items()) if isinstance(counts, dict) else counts,
               n=sum(counts.values()), phys=res.get("physical_perf"), logical=res.get("logical_perf"),
               ref_phys=rphys, ref_logical=rlog)


def is_plain(spec):
    """perfect source, nothing selected, PNR detection: `samples` takes the fast path (performances 1 / 1, one
    callback per 1000 samples)"""
    return (not spec["noise"] and not spec["heralds"] and not spec["ps"]
            and all(d in (None, "pnr") for d in (spec["detectors"] or [])))


def _count(samples):
    d = {}
    for s in samples:
        d[s] = d.get(s, 0) + 1
    return d


def judge_gof(chk, r):
    spec, via = r["spec"], r["via"]
    replay = {"part": "gof", "spec": spec, "via": via, "n": r["n_req"], "seed": r["seed"]}
    if r.get("timeout"):
        return ("violation", "gof:no-return", f"{via} did not return within {GOF_TIMEOUT} s on a {spec['kind']} "
                                              f"processor (strong simulation selects a sizeable fraction)", replay)
    if "raise" in r:
        return ("violation", "gof:exception", f"{via} raised {r['raise']} on a {spec['kind']} processor: "
                                              f"{r.get('trace', '')[-300:]}", replay)
    if "err" in r:
        return ("broken", "gof:harness", r["err"], replay)
    ref = {tuple(k): v for k, v in r["ref"]}
    counts = {tuple(k): v for k, v in (r["counts"].items() if isinstance(r["counts"], dict) else r["counts"])}
    n = r["n"]
    chk.count("gof_support", min(len(ref), 40) // 5 * 5)
    if n == 0:
        if sum(ref.values()) > 0.05:
            return ("violation", "gof:no-samples", f"{via} returned no sample at all although strong simulation "
                                                   f"selects outcomes with total weight {sum(ref.values()):.3f}", replay)
        chk.branch("gof-empty")
        return None
    for st in counts:
        why = legal_sample(spec, st)
        if why:
            return ("violation", "gof:illegal-sample", f"{via} returned {st} which {why}", replay)
    tot = sum(ref.values())
    if abs(tot - 1.0) > 1e-6:
        return ("broken", "gof:reference-not-normalised", f"strong simulation results sum to {tot}", replay)
    rej = gof(ref, counts, n, ALPHA_TEST)
    chk.extra["gof_tests"] = chk.extra.get("gof_tests", 0) + 1
    if rej:
        return ("violation", "gof:distribution-mismatch",
                f"STATISTICAL TEST (false-alarm <= {ALPHA_RUN:g} per run): {via} on a {spec['kind']} processor, "
                f"{n} samples: {rej}", replay)
    # performances: only when the loop ran a known, fixed number of shots (it stopped on max_shots, which is
    # not rescaled while the effective photon filter is below 2) and something was selected (the estimates are
    # reported as 0 otherwise); conditioning on "something selected" (probability >= 1 - exp(-5)) costs at most a
    # factor 1.01 on the false-alarm probability, covered by using alpha / 2
    if via == "processor-shots" and r["phys"] is not None and r["ref_phys"] is not None and not is_plain(spec):
        # the number of shots is fixed before the loop starts (the request, rescaled by a constant of the source
        # when the effective filter is 2 or more: counted by the progress callback) and the loop cannot stop on
        # max_samples = 10 x max_shots: the bounds below hold for that fixed number
        shots = r.get("shots") or 0
        eff = (spec["filter"] or 0) + sum(spec["heralds"].values())
        if eff < 2 and shots != r["n_req"]:
            return ("violation", "gof:shots-not-max-shots",
                    f"Processor.samples({10 * r['n_req']}, max_shots={r['n_req']}) ran {shots} loop iterations "
                    f"(effective photon filter {eff}: the shot limit is not rescaled)", replay)
        if shots > r["n_req"]:
            return ("violation", "gof:more-shots-than-max-shots",
                    f"Processor.samples(max_shots={r['n_req']}) ran {shots} loop iterations", replay)
        y = (r["ref_phys"] or 0) * (r["ref_logical"] or 0)
        if n > 0 and shots > 0 and y * shots >= 5:
            if eff >= 2:
                chk.branch("gof-performances-filter>=2")
            if (spec.get("p_both") or 0) >= MIN_BOTH:
                chk.branch("gof-performances-shots-failing-both-tests")
            chk.extra["gof_tests"] += 2
            e1 = hoeffding_eps(shots, ALPHA_TEST / 2) + 1e-6
            if abs(r["phys"] - r["ref_phys"]) > e1:
                return ("violation", "gof:physical-perf-mismatch",
                        f"STATISTICAL TEST: physical performance from {shots} shots is {r['phys']:.5f}, strong "
                        f"simulation gives {r['ref_phys']:.5f} (Hoeffding bound {e1:.5f})", replay)
            m_pass = max(1, int(round(n / r["logical"])))
            e2 = hoeffding_eps(m_pass, ALPHA_TEST / 2) + 1e-6
            if abs(r["logical"] - r["ref_logical"]) > e2:
                return ("violation", "gof:logical-perf-mismatch",
                        f"STATISTICAL TEST: logical performance over {m_pass} filtered shots is "
                        f"{r['logical']:.5f}, strong simulation gives {r['ref_logical']:.5f} "
                        f"(Hoeffding bound {e2:.5f})", replay)
            chk.branch("gof-performances")
    return None


def tag_pattern(bs):
    """Canonical form of an annotated state, invariant under renaming of the tags: for every tag the sorted tuple
    of modes its photons sit in; the sorted list of those tuples (+ the mode count)."""
    classes = {}
    for mode in range(bs.m):
        k = bs[mode]
        if k == 0:
            continue
        anns = [str(a) for a in bs.get_mode_annotations(mode)]
        anns += [""] * (k - len(anns))          # un-annotated photons share the empty tag
        for a in anns:
            classes.setdefault(a, []).append(mode)
    return (bs.m,) + tuple(sorted(tuple(v) for v in classes.values()))


def source_gof_part(chk, n_cfg, n_samples):
    """E2: the source emission of the sampling path (`Source.generate_samples`, Python `random`) against the
    input distribution strong simulation starts from (`Source.generate_distribution`), outcome = photon
    positions and which photons share a tag.  Same thresholds as the other goodness-of-fit tests."""
    import perceval as pcvl
    from perceval.utils import BasicState, NoiseModel
    from perceval.components import Source
    rng = chk.rng
    for i in range(n_cfg):
        nz = {"brightness": rng.choice([1.0, 0.8, 0.5]), "transmittance": rng.choice([1.0, 0.9, 0.6]),
              "g2": rng.choice([0.0, 0.05, 0.2]), "indistinguishability": rng.choice([1.0, 0.9, 0.5]),
              "g2_distinguishable": rng.random() < 0.5}
        if i % 3 == 0:
            nz["indistinguishability"] = rng.choice([0.9, 0.5])
        if i % 3 == 1:
            nz["g2"] = rng.choice([0.05, 0.2])
        if nz["brightness"] == nz["transmittance"] == nz["indistinguishability"] == 1.0 and nz["g2"] == 0.0:
            nz["transmittance"] = 0.7
        inp = rng.choice([[1, 1], [1, 0, 1], [1, 1, 1], [2, 1], [1], [0, 2, 0]])
        filt = rng.choice([0, 0, 1, 2]) if sum(inp) >= 2 else rng.choice([0, 1])
        seed = rng.randrange(2 ** 31)
        replay = {"part": "source-gof", "noise": nz, "input": inp, "filter": filt, "n": n_samples, "seed": seed}
        res = judge_source_gof(chk, nz, inp, filt, n_samples, seed, replay)
        chk.branch("gof-source-emission")
        if nz["g2"] > 0:
            chk.branch("gof-source-g2")
        if nz["indistinguishability"] < 1:
            chk.branch("gof-source-tagged")
        if filt:
            chk.branch("gof-source-filtered")
        chk.case(("E2", json.dumps(nz, sort_keys=True), tuple(inp), filt), nontrivial=True, sample=None)
        if res is not None:
            chk.fail(*res)


def judge_source_gof(chk, nz, inp, filt, n_samples, seed, replay):
    import perceval as pcvl
    from perceval.utils import BasicState, NoiseModel
    from perceval.components import Source
    pcvl.random_seed(seed)
    src = Source.from_noise_model(NoiseModel(**nz))
    expected = BasicState(inp)
    ref = {}
    for sv, p in src.generate_distribution(expected, 0).items():
        if len(sv) != 1:
            return ("broken", "gof:source-superposed", f"generate_distribution returned a superposition {sv}", replay)
        bs = sv[0]
        if bs.n >= filt:
            k = tag_pattern(bs)
            ref[k] = ref.get(k, 0.0) + float(p)
    tot = sum(ref.values())
    if tot <= 0:
        return None
    ref = {k: v / tot for k, v in ref.items()}
    try:
        with watchdog(CALL_TIMEOUT):
            smp = Source.from_noise_model(NoiseModel(**nz)).generate_samples(n_samples, expected, filt)
    except Exception as e:  # noqa: BLE001
        return ("violation", "gof:source-exception", f"Source.generate_samples raised {type(e).__name__}", replay)
    counts = {}
    for x in smp:
        k = tag_pattern(x)
        counts[k] = counts.get(k, 0) + 1
    chk.extra["gof_tests"] = chk.extra.get("gof_tests", 0) + 1
    chk.count("gof_source_support", len(ref))
    if len(smp) != n_samples:
        return ("violation", "gof:source-count", f"Source.generate_samples({n_samples}) returned {len(smp)} states",
                replay)
    rej = gof(ref, counts, n_samples, ALPHA_TEST)
    if rej:
        return ("violation", "gof:source-emission-mismatch",
                f"STATISTICAL TEST (false-alarm <= {ALPHA_RUN:g} per run): Source.generate_samples (noise {nz}, input "
                f"{inp}, filter {filt}, {n_samples} samples) against Source.generate_distribution, outcome = (modes; "
                f"groups of photons sharing a tag): {rej}", replay)
    return None


# ------------------------------------------------------------------------------------------------
# E3. the detector stage of sampling, SEVERAL detector sets one after the other in the same process
# ------------------------------------------------------------------------------------------------
PPNR_WIRES = [2, 3, 5, 8]
BSPPNR_R = [0.5, 0.9, 0.15]


def gen_detector_series(rng, force_repeat=False):
    """One Fock state (some mode holds 2+ photons) and a SERIES of detector lists for it: from one step to the next
    the detector on a mode keeps its kind -- hence its NAME -- but changes its parameters (wires / max detections /
    reflectivity), or the same description is built again as a new object.  Everything that outlives one call of
    `simulate_detectors_sample` (a module-level table, a memo keyed by something that does not identify the
    detector) is exercised by the later steps."""
    m = rng.choice([1, 2, 2, 3])
    state = [rng.choice([0, 1, 2, 2, 3, 4]) for _ in range(m)]
    if max(state) < 2:
        state[rng.randrange(m)] = rng.choice([2, 3])
    big = [i for i in range(m) if state[i] >= 2]
    fams = [rng.choice(["ppnr", "ppnr", "bsppnr:1", "bsppnr:2", "threshold", "pnr", None]) for _ in range(m)]
    fams[rng.choice(big)] = rng.choice(["ppnr", "ppnr", "bsppnr:1", "bsppnr:2"])

    def param(fam, avoid):
        if fam == "ppnr":
            for _ in range(20):
                w = rng.choice(PPNR_WIRES)
                d = f"ppnr:{w}" if rng.random() < 0.6 else f"ppnr:{w}:{rng.randint(1, w)}"
                if d != avoid:
                    return d
        if fam in ("bsppnr:1", "bsppnr:2"):
            for _ in range(20):
                d = f"{fam}:{rng.choice(BSPPNR_R)}"
                if d != avoid:
                    return d
        return fam

    steps = []
    for k in range(rng.randint(3, 4)):
        steps.append([param(f, steps[-1][i] if steps else None) for i, f in enumerate(fams)])
    if force_repeat or rng.random() < 0.4:
        steps.append(list(steps[rng.randrange(len(steps) - 1)]))      # an earlier list again (new objects)
    return {"state": state, "steps": steps, "seed": rng.randrange(2 ** 31),
            "pass_type": rng.random() < 0.5}


def detector_reference(state, descs):
    """What strong simulation computes for the same detectors: `simulate_detectors` on the one-state distribution."""
    from perceval.utils import BasicState, BSDistribution
    from perceval.simulators._simulate_detectors import simulate_detectors
    dist = BSDistribution()
    dist[BasicState(list(state))] = 1.0
    res, _ = simulate_detectors(dist, [make_detector(d) for d in descs])
    return {tuple(k): float(v) for k, v in res.items()}


def run_detector_series(case, n):
    """-> list of (step index, reference, counts)"""
    import perceval as pcvl
    from perceval.utils import BasicState
    from perceval.components.detector import get_detection_type
    from perceval.simulators._simulate_detectors import simulate_detectors_sample
    pcvl.random_seed(case["seed"])
    st = BasicState(list(case["state"]))
    out = []
    for j, descs in enumerate(case["steps"]):
        dets = [make_detector(d) for d in descs]
        kind = get_detection_type(dets) if case["pass_type"] else None
        counts = {}
        for _ in range(n):
            x = tuple(simulate_detectors_sample(st, dets, kind))
            counts[x] = counts.get(x, 0) + 1
        out.append((j, detector_reference(case["state"], descs), counts))
    return out


def det_series_worker(args):
    """(cases, n) -> the runs of every case, one after the other in THIS process (a fresh one when isolated)"""
    cases, n = args
    silence_logger()
    out = []
    for case in cases:
        try:
            out.append(run_detector_series(case, n))
        except Exception as e:  # noqa: BLE001
            out.append({"raise": f"{type(e).__name__}: {e}"})
    return out


def isolated(fn, arg, timeout=GOF_TIMEOUT):
    """fn(arg) in a freshly spawned process (nothing of this process's history); None on time-out"""
    import multiprocessing as mp
    ctx = mp.get_context("spawn")
    with ctx.Pool(1) as pool:
        try:
            return pool.apply_async(fn, (arg,)).get(timeout=timeout)
        except mp.TimeoutError:
            return None
        finally:
            pool.terminate()


def judge_detector_runs(chk, case, n, runs, replay, count=True):
    """-> (failure or None, index of the failing step)"""
    if isinstance(runs, dict):
        return ("violation", "detectors:exception", f"simulate_detectors_sample raised {runs['raise']} on "
                                                    f"{case['state']} with one of the detector lists {case['steps']}",
                replay), None
    for j, ref, counts in runs:
        descs = case["steps"][j]
        if count:
            chk.extra["gof_tests"] = chk.extra.get("gof_tests", 0) + 1
            chk.branch("det-series-step")
            if j > 0:
                prev = case["steps"][j - 1]

                def name(d):
                    return d if not isinstance(d, str) else ":".join(d.split(":")[:2 if d.startswith("bs") else 1])
                if any(a != b and name(a) == name(b) for a, b in zip(prev, descs)):
                    chk.branch("det-series-same-name-other-parameters")
                if descs in case["steps"][:j]:
                    chk.branch("det-series-same-description-new-objects")
        for x in counts:
            if len(x) != len(descs) or any(v > det_cap(d) for v, d in zip(x, descs)) or sum(x) > sum(case["state"]):
                return ("violation", "detectors:illegal-detection",
                        f"simulate_detectors_sample({case['state']}, {descs}) returned {x} (step {j} of the series "
                        f"{case['steps']} in one process)", replay), j
        rej = gof(ref, counts, n, ALPHA_TEST)
        if rej:
            return ("violation", "detectors:series-distribution-mismatch",
                    f"STATISTICAL TEST (false-alarm <= {ALPHA_RUN:g} per run): {n} calls of simulate_detectors_sample("
                    f"{case['state']}, {descs}) against simulate_detectors of the same detectors, AFTER the same state "
                    f"was sampled in this process with {case['steps'][:j]}: {rej}", replay), j
    return None, None


def detector_series_part(chk, n_series, n_samples):
    rng = chk.rng
    history = []
    for i in range(n_series):
        case = gen_detector_series(rng, force_repeat=(i == 0))
        history.append(case)
        try:
            with watchdog(CALL_TIMEOUT):
                runs = run_detector_series(case, n_samples)
        except Exception as e:  # noqa: BLE001
            runs = {"raise": f"{type(e).__name__}: {e}"}
        res, j = judge_detector_runs(chk, case, n_samples, runs,
                                     {"part": "det-series", "cases": list(history), "n": n_samples})
        chk.count("det_series_steps", len(case["steps"]))
        chk.case(("E3", tuple(case["state"]), json.dumps(case["steps"])), nontrivial=True, sample=None)
        if res is not None and first_of(chk, res[0], res[1]):
            chk.fail(*shrink_detector_series(chk, case, n_samples, res, j))


def shrink_detector_series(chk, case, n, res, j):
    """What outlives a call may live as long as the process: every candidate is run in a FRESH process.  Candidates:
    the failing step alone, after one earlier step, the whole series; else the failure needs the earlier series of
    this run too (the replay then holds all of them)."""
    if j is None:
        return res
    cands = [[j]] + [[i, j] for i in range(j)] + [list(range(len(case["steps"])))]
    for only in cands:
        small = dict(case, steps=[case["steps"][i] for i in only])
        runs = isolated(det_series_worker, ([small], n))
        if not runs:
            continue
        r2, _ = judge_detector_runs(chk, small, n, runs[0], {"part": "det-series", "cases": [small], "n": n},
                                    count=False)
        if r2 is not None and r2[1] == res[1]:
            return r2
    return res


# ------------------------------------------------------------------------------------------------
# E4. SEVERAL processors / several requests on one processor in the same process
# ------------------------------------------------------------------------------------------------
def gen_series(rng, mode):
    """A list of processor descriptions sharing circuit and size, run one after the other in ONE process.
    mode 'detectors': new processors whose detectors keep their names and change their parameters;
    mode 'fresh': new processors differing in noise / filter / post-selection / input;
    mode 'mutate': ONE sampling processor whose filter / noise / post-selection / input are re-assigned between two
    requests (the reference is a freshly built strong-simulation processor every time)."""
    m = rng.choice([2, 3, 3])
    useed = rng.randrange(10 ** 6)
    inp = [1, 1] + [0] * (m - 2)
    rng.shuffle(inp)
    if m == 3 and rng.random() < 0.4:
        inp = [1, 1, 1]
    base = {"kind": "series-" + mode, "m": m, "useed": useed, "heralds": {}, "ps": None, "filter": 1, "noise": None,
            "detectors": None, "input": inp}

    def some_noise():
        return {"brightness": rng.choice([1.0, 0.8, 0.5]), "transmittance": rng.choice([0.9, 0.6]),
                "g2": rng.choice([0.0, 0.0, 0.1]), "indistinguishability": rng.choice([1.0, 0.9, 0.5]),
                "g2_distinguishable": rng.random() < 0.5}

    steps = []
    k = rng.randint(3, 4)
    if mode == "detectors":
        if rng.random() < 0.4:
            base["noise"] = some_noise()
        fams = [rng.choice(["ppnr", "ppnr", "bsppnr:1", "bsppnr:2", "threshold", "pnr"]) for _ in range(m)]
        fams[rng.randrange(m)] = rng.choice(["ppnr", "bsppnr:1"])
        prev = None
        for _ in range(k):
            dets = []
            for i, f in enumerate(fams):
                if f == "ppnr":
                    cand = [f"ppnr:{w}" for w in PPNR_WIRES] + ["ppnr:5:2", "ppnr:8:1"]
                elif f.startswith("bsppnr"):
                    cand = [f"{f}:{r}" for r in BSPPNR_R]
                else:
                    cand = [f]
                cand = [c for c in cand if prev is None or c != prev[i]] or cand
                dets.append(rng.choice(cand))
            prev = dets
            steps.append(dict(base, detectors=dets))
    else:
        if rng.random() < 0.5:
            base["detectors"] = [rng.choice(["pnr", "threshold", "ppnr2"]) for _ in range(m)]
        if mode == "mutate" and m == 3 and rng.random() < 0.4:
            h = rng.randrange(m)
            base["heralds"] = {str(h): base["input"][h]}
            if sum(base["input"]) - base["input"][h] == 0:
                base["input"] = [1] * m
                base["heralds"] = {str(h): 1}
        her = {int(a): v for a, v in base["heralds"].items()}
        free = [i for i in range(m) if i not in her]
        cur = dict(base, noise=some_noise() if rng.random() < 0.7 else None)
        if cur["noise"] is None and mode != "mutate":
            # (the automatic filter of a perfect source is written into the processor by its first request and
            #  stays: on a long-lived processor the filter is always given explicitly)
            cur["filter"] = rng.choice([1, None])
        steps.append(cur)
        if mode == "mutate":
            # one re-assignment of each kind, in a random order
            whats = ["filter", "noise", "ps", "input"]
            rng.shuffle(whats)
        else:
            whats = [rng.choice(["filter", "filter", "noise", "noise", "ps", "input"]) for _ in range(k - 1)]
        for what in whats:
            cur = dict(cur)
            n_user = sum(cur["input"]) - sum(her.values())
            if what == "filter":
                cur["filter"] = rng.choice([f for f in range(0, n_user + 1) if f != cur["filter"]])
            elif what == "noise":
                prev_noise = cur["noise"]
                while cur["noise"] == prev_noise:
                    cur["noise"] = some_noise()
                if cur["filter"] is None:
                    cur["filter"] = 1
            elif what == "ps":
                a = rng.choice(free)
                cur["ps"] = None if cur["ps"] else rng.choice([f"[{a}] < 2", f"[{a}] > 0", f"[{a}] == 1"])
            else:
                cands = []
                for bits in itertools.product((0, 1), repeat=len(free)):
                    cand = list(cur["input"])
                    for i, b in zip(free, bits):
                        cand[i] = b
                    if cand != cur["input"] and sum(bits) >= 1:
                        cands.append(cand)
                new = rng.choice(cands)
                cur["input"] = new
                n_user = sum(new) - sum(her.values())
                if cur["filter"] is not None and cur["filter"] > n_user:
                    cur["filter"] = n_user
            steps.append(cur)
    return {"mode": mode, "steps": steps}


def apply_step(p, prev, cur):
    """Bring the long-lived processor `p` (built for `prev`) to the configuration `cur` through its setters."""
    from perceval.utils import BasicState, PostSelect
    if cur["noise"] != prev["noise"]:
        p.noise = noise_model(cur["noise"])
    if cur["ps"] != prev["ps"]:
        if cur["ps"]:
            p.set_postselection(PostSelect(cur["ps"]))
        else:
            p.clear_postselection()
    if cur["input"] != prev["input"]:
        p.with_input(BasicState([v for i, v in enumerate(cur["input"]) if str(i) not in cur["heralds"]]))
    if cur["filter"] != prev["filter"]:
        p.min_detected_photons_filter(cur["filter"])


def series_worker(args):
    """All the steps of one series in THIS process, in order.  -> list of result dicts like gof_worker's."""
    series, n, seed = args
    silence_logger()
    import time
    import perceval as pcvl
    pcvl.random_seed(seed)
    outs = []
    proc = None
    for j, spec in enumerate(series["steps"]):
        t0 = time.time()
        out = {"spec": spec, "via": "processor" if j % 2 == 0 else "processor-shots", "n_req": n, "seed": seed,
               "step": j}
        try:
            if series["mode"] == "mutate":
                if proc is None:
                    proc = build_proc(spec, "CliffordClifford2017")
                else:
                    apply_step(proc, series["steps"][j - 1], spec)
            _gof_processor(spec, out["via"], n, out, proc)
        except Exception as e:  # noqa: BLE001
            import traceback
            out["raise"] = type(e).__name__
            out["trace"] = traceback.format_exc()[-1500:]
        out["secs"] = round(time.time() - t0, 2)
        outs.append(out)
    return outs


def series_valid(series):
    """every step selects a sizeable fraction (so that each request comes back) and the filter of a perfect source
    is attainable"""
    try:
        return all(spec_yield(s) >= 0.05 for s in series["steps"])
    except Exception:  # noqa: BLE001
        return False


def judge_series(chk, series, results, n, seed, count=True):
    for r in results:
        j = r["step"]
        res = judge_gof(chk, r)
        if count:
            chk.branch("series-step-" + series["mode"])
            if j > 0 and series["mode"] == "mutate":
                prev, cur = series["steps"][j - 1], series["steps"][j]
                for key in ("filter", "noise", "ps", "input"):
                    if prev[key] != cur[key]:
                        chk.branch("series-mutate-" + key)
        if res is not None:
            kind, sig, what, _ = res
            how = {"detectors": "a NEW processor after processors with same-named detectors of other parameters",
                   "fresh": "a NEW processor after other processors",
                   "mutate": "the SAME processor object re-configured through its setters"}[series["mode"]]
            before = [{k: s[k] for k in ("detectors", "noise", "filter", "ps", "input", "heralds")}
                      for s in series["steps"][:j]]
            return (kind, "series:" + sig.split(":", 1)[1],
                    f"step {j} of a series in one process ({how}); this step: "
                    f"{ {k: r['spec'][k] for k in ('detectors', 'noise', 'filter', 'ps', 'input', 'heralds')} }; "
                    f"earlier steps: {before}: {what}",
                    {"part": "series", "series": series, "n": n, "seed": seed}), j
    return None, None


def series_start(chk, n_series, n_samples, nproc):
    import multiprocessing as mp
    rng = chk.rng
    modes = ["detectors", "mutate", "fresh", "detectors", "mutate"]
    jobs = []
    for i in range(n_series):
        for _ in range(100):
            series = gen_series(rng, modes[i % len(modes)])
            if series_valid(series):
                break
        jobs.append((series, n_samples, rng.randrange(2 ** 31)))
    if nproc > 1:
        ctx = mp.get_context("spawn")
        # one series = one process, used for nothing else (maxtasksperchild): the history of a step is its series
        pool = ctx.Pool(min(nproc, len(jobs)), maxtasksperchild=1)
        return jobs, pool, [pool.apply_async(series_worker, (j,)) for j in jobs]
    return jobs, None, [series_worker(j) for j in jobs]


def series_finish(chk, handle):
    import multiprocessing as mp
    jobs, pool, pending = handle
    if pool is None:
        results = pending
    else:
        results = []
        for j, a in zip(jobs, pending):
            try:
                results.append(a.get(timeout=GOF_TIMEOUT))
            except mp.TimeoutError:
                results.append([{"spec": j[0]["steps"][0], "via": "processor", "n_req": j[1], "seed": j[2],
                                 "step": 0, "timeout": True}])
        pool.terminate()
    for (series, n, seed), rs in zip(jobs, results):
        res, j = judge_series(chk, series, rs, n, seed)
        chk.count("series_mode", series["mode"])
        chk.case(("E4", series["mode"], series["steps"][0]["useed"], len(series["steps"])), nontrivial=True,
                 sample=None)
        if res is not None and first_of(chk, res[0], res[1]):
            if j is not None and j > 0 and series["mode"] != "mutate":
                # shrink: the failing step after ONE earlier step (in a fresh process each)
                for i in range(j):
                    small = {"mode": series["mode"], "steps": [series["steps"][i], series["steps"][j]]}
                    rs2 = run_series_isolated(small, n, seed)
                    r2, _ = judge_series(chk, small, rs2, n, seed, count=False)
                    if r2 is not None and r2[1] == res[1]:
                        res = r2
                        break
            chk.fail(*res)


def run_series_isolated(series, n, seed):
    rs = isolated(series_worker, (series, n, seed))
    if rs is None:
        return [{"spec": series["steps"][0], "via": "processor", "n_req": n, "seed": seed, "step": 0, "timeout": True}]
    return rs


def gof_start(chk, n_cfg, n_samples, nproc, n_both=4):
    import multiprocessing as mp
    rng = chk.rng
    kinds = ["perfect", "selected", "noisy", "noisy-selected", "detectors", "everything"]
    vias = ["processor", "processor-shots", "sampler.samples", "sampler.sample_count", "sampler.probs", "backend"]
    jobs = []
    for i in range(n_cfg):
        via = vias[i % len(vias)]
        kind = kinds[(i // len(vias) + i) % len(kinds)]
        if via == "backend":
            kind = "perfect"
        spec = gen_proc_spec(rng, kind)
        if via == "backend" and (i // len(vias)) % 2 == 0:
            via = "backend-retuned"      # the long-lived backend whose circuit object is re-tuned in place
        if via == "processor-shots":
            # the performance estimates are tested on these: imperfect processor, a sizeable yield (the shots
            # are counted by the progress callback: the limit is rescaled for an effective filter >= 2)
            shot_kinds = ["noisy-selected", "noisy", "selected", "everything", "detectors"]
            for t in range(60):
                spec = gen_proc_spec(rng, shot_kinds[(i // len(vias) + t) % len(shot_kinds)])
                if spec_yield(spec) >= 0.05:
                    break
        jobs.append((spec, via, n_samples, rng.randrange(2 ** 31)))
    # performances where a sizeable part of the shots fails BOTH the photon filter and the selection
    for i in range(n_both):
        for t in range(200):
            spec = gen_bunching_selected_spec(rng)
            if spec_yield(spec) >= 0.05:
                spec["p_both"] = prob_failing_both(spec)
                if spec["p_both"] >= MIN_BOTH:
                    break
        jobs.append((spec, "processor-shots", n_samples, rng.randrange(2 ** 31)))
    if not any(j[0]["noise"] and j[0]["noise"]["indistinguishability"] < 1 for j in jobs):
        for j in jobs:
            if j[0]["noise"]:
                j[0]["noise"]["indistinguishability"] = 0.5     # at least one configuration with tagged inputs
                break
    if nproc > 1:
        ctx = mp.get_context("spawn")
        pool = ctx.Pool(nproc)
        return jobs, pool, [pool.apply_async(gof_worker, (j,)) for j in jobs]
    return jobs, None, [gof_worker(j) for j in jobs]


def gof_finish(chk, handle):
    import multiprocessing as mp
    jobs, pool, pending = handle
    if pool is None:
        results = pending
    else:
        results = []
        for j, a in zip(jobs, pending):
            try:
                results.append(a.get(timeout=GOF_TIMEOUT))
            except mp.TimeoutError:
                results.append({"spec": j[0], "via": j[1], "n_req": j[2], "seed": j[3], "timeout": True})
        pool.terminate()
    for r in results:
        res = judge_gof(chk, r)
        spec = r["spec"]
        chk.count("gof_via", r["via"])
        chk.count("gof_secs", int(r.get("secs", 0)) // 2 * 2)
        chk.count("gof_kind", spec["kind"])
        chk.branch("gof-" + spec["kind"])
        if spec["noise"] and spec["noise"]["indistinguishability"] < 1:
            chk.branch("gof-tagged-inputs")
        if spec["detectors"]:
            chk.branch("gof-detectors")
        if r["via"] == "backend-retuned" and spec["m"] >= 2:
            chk.branch("gof-backend-retuned")
        chk.case(("E", spec["kind"], spec["useed"], r["via"]), nontrivial=r.get("n", 0) >= 1000,
                 sample={"part": "gof", "kind": spec["kind"], "via": r["via"], "n": r.get("n"),
                         "support": len(r.get("ref", []))})
        if res is not None:
            chk.fail(*res)


# ================================================================================================
# F. EXACT REPLAY: NoisySamplingSimulator.samples as a function of its random draws
# ================================================================================================
# The real draws of one request are RECORDED at the three random sites (what the input generator hands back, what
# the sampling backend returns for every input state, what `simulate_detectors_sample` returns) by wrapping module /
# class attributes from here; the Lean model (`Model/C09Run.lean`, op `replay`) is fed the same draws and must
# reproduce the run exactly: the returned samples in order, the detected state of every shot, the size of every
# generator and backend request, the two performances.  The direct oracle re-derives the shots from the recorded
# draws by the documented meaning alone (one unused backend draw per component, merge, detect, filter / heralds /
# post-selection) without the model.
class RecBackend:
    """Delegating proxy around the real sampling backend: records every `samples(n)` with the input state set."""

    def __init__(self, be, rec):
        self.__dict__["_be"] = be
        self.__dict__["_rec"] = rec
        self.__dict__["_key"] = None

    def set_input_state(self, s):
        self.__dict__["_key"] = tuple(s)
        return self._be.set_input_state(s)

    def samples(self, n):
        res = self._be.samples(n)
        self._rec["backend"].append([list(self._key), n, [list(s) for s in res]])
        return res

    def __getattr__(self, k):
        return getattr(self._be, k)

    def __setattr__(self, k, v):
        setattr(self._be, k, v)


def new_rec():
    return {"backend": [], "det": [], "gens": [], "table": [], "calls": []}


def components_of(bs):
    """Fock components of an emitted input, as `_noisy_sampling` separates them."""
    if bs.has_annotations:
        return [list(c) for c in bs.separate_state(keep_annotations=False)]
    return [list(bs)]


class recording:
    """`with recording(rec):` — wraps the random sites of perceval.simulators.noisy_sampling_simulator."""

    def __init__(self, rec):
        self.rec = rec
        self.stack = None

    def __enter__(self):
        from contextlib import ExitStack
        import perceval.simulators.noisy_sampling_simulator as nss
        from perceval.utils.statevector import BSDistribution
        from perceval.components.source import Source
        rec = self.rec
        NSS = nss.NoisySamplingSimulator
        orig_init, orig_samples = NSS.__init__, NSS.samples
        orig_det, orig_bsd = nss.simulate_detectors_sample, BSDistribution.sample
        orig_gen, orig_cache = Source.generate_samples, Source.cache_prob_table
        depth = {"det": 0, "src": 0}

        def init(self_, be):
            orig_init(self_, RecBackend(be, rec))

        def samples(self_, svd, max_samples, max_shots=None, progress_callback=None):
            rec["calls"].append({"svd": svd, "ms": max_samples, "sh": max_shots,
                                 "filter": self_._min_detected_photons_filter, "heralds": dict(self_._heralds),
                                 "keep": self_._keep_heralds, "ps": self_._postselect, "dets": self_._detectors})
            return orig_samples(self_, svd, max_samples, max_shots, progress_callback)

        def det(sample, detectors, detection=None):
            depth["det"] += 1
            try:
                out = orig_det(sample, detectors, detection)
            finally:
                depth["det"] -= 1
            rec["det"].append([list(sample), list(out)])
            return out

        def bsd_sample(self_, count, non_null=True):
            out = orig_bsd(self_, count, non_null)
            if not depth["det"] and not depth["src"]:
                rec["gens"].append([count, [components_of(s) for s in out]])
            return out

        def gen(self_, max_samples, expected_input, min_detected_photons=0):
            depth["src"] += 1
            try:
                out = orig_gen(self_, max_samples, expected_input, min_detected_photons)
            finally:
                depth["src"] -= 1
            rec["gens"].append([max_samples, [components_of(s) for s in out]])
            return out

        def cache(self_, n, f=0):
            out = orig_cache(self_, n, f)
            if not depth["src"]:
                rec["table"].append([n, f, out[0], out[1]])
            return out

        self.stack = ExitStack()
        for p in (mock.patch.object(NSS, "__init__", init), mock.patch.object(NSS, "samples", samples),
                  mock.patch.object(nss, "simulate_detectors_sample", det),
                  mock.patch.object(BSDistribution, "sample", bsd_sample),
                  mock.patch.object(Source, "generate_samples", gen),
                  mock.patch.object(Source, "cache_prob_table", cache)):
            self.stack.enter_context(p)
        return self

    def __exit__(self, *exc):
        self.stack.close()
        return False


_PS_COND = None


def ps_to_json(text):
    """The printed form of a PostSelect (fully parenthesised) -> the driver's JSON expression."""
    import re
    s = text.strip()
    if not s:
        return True
    pos = [0]

    def ws():
        while pos[0] < len(s) and s[pos[0]] == " ":
            pos[0] += 1

    def atom():
        ws()
        if s[pos[0]] == "!":
            pos[0] += 1
            return {"not": atom()}
        if s[pos[0]] == "(":
            pos[0] += 1
            a = expr()
            ws()
            assert s[pos[0]] == ")", text
            pos[0] += 1
            return a
        m = re.compile(r"\[([0-9, ]*)\]\s*(==|<=|>=|<|>)\s*([0-9]+)").match(s, pos[0])
        assert m, text
        pos[0] = m.end()
        return {"c": [int(x) for x in m.group(1).split(",") if x.strip()], "op": m.group(2), "k": int(m.group(3))}

    def expr():
        a = atom()
        while True:
            ws()
            if pos[0] < len(s) and s[pos[0]] in "&|^":
                op = {"&": "and", "|": "or", "^": "xor"}[s[pos[0]]]
                pos[0] += 1
                b = atom()
                a = {op: [a, b]}
            else:
                return a

    out = expr()
    ws()
    assert pos[0] == len(s), text
    return out


def gen_ps_text(rng, m, depth=0):
    r = rng.random()
    if depth >= 2 or r < 0.55:
        k = rng.randint(1, min(2, m))
        modes = sorted(rng.sample(range(m), k))
        return f"[{','.join(map(str, modes))}] {rng.choice(['==', '<', '>', '<=', '>='])} {rng.randint(0, 2)}"
    if r < 0.9:
        return f"({gen_ps_text(rng, m, depth + 1)} {rng.choice('&|^')} {gen_ps_text(rng, m, depth + 1)})"
    return f"!({gen_ps_text(rng, m, depth + 1)})"


def det_mode_of(dets):
    from perceval.components.detector import get_detection_type, DetectionType
    if not dets:
        return "none"
    t = get_detection_type(dets)
    return "none" if t == DetectionType.PNR else ("threshold" if t == DetectionType.Threshold else "random")


def replay_request(call, rec):
    """The Lean request for one recorded call of NoisySamplingSimulator.samples."""
    from perceval.components.source import Source
    svd = call["svd"]
    dets = call["dets"]
    mode = det_mode_of(dets)
    heralds = sorted([int(k), int(v)] for k, v in call["heralds"].items())
    if isinstance(svd, tuple):
        src, bs = svd
        tab = rec["table"][0] if rec["table"] else None
        spec = {"kind": "source", "perfect": bool(src.is_perfect()), "annotated": bool(bs.has_annotations),
                "input": list(bs), "pre": core.rat(tab[2]) if tab else "1", "zpp": core.rat(tab[3]) if tab else "0"}
    else:
        items = []
        for sv, p in svd.items():
            if len(sv) != 1:
                return None
            b = sv[0]
            items.append({"comps": components_of(b), "annotated": bool(b.has_annotations), "n": int(b.n),
                          "p": core.rat(float(p))})
        spec = {"kind": "svd", "items": items}
    backend, order = {}, []
    for key, _n, outs in rec["backend"]:
        k = tuple(key)
        if k not in backend:
            backend[k] = []
            order.append(k)
        backend[k].extend(outs)
    det_draws, dorder = {}, []
    if mode == "random":
        for a, b in rec["det"]:
            k = tuple(a)
            if k not in det_draws:
                det_draws[k] = []
                dorder.append(k)
            det_draws[k].append(b)
    ps = call["ps"]
    n_inputs = sum(len(b) for _c, b in rec["gens"])
    return {"op": "replay", "lazy": True, "ms": call["ms"], "sh": call["sh"], "filter": int(call["filter"]),
            "heralds": heralds, "keep": bool(call["keep"]), "ps": ps_to_json(str(ps)) if ps is not None else True,
            "psHasCond": bool(ps.has_condition) if ps is not None else False, "det": mode,
            "detMax": None if dets is None else [None if d is None else d.max_detections for d in dets],
            "spec": spec, "gens": [b for _c, b in rec["gens"]],
            "backend": [[list(k), backend[k]] for k in order],
            "detDraws": [[list(k), det_draws[k]] for k in dorder], "fuel": n_inputs + len(rec["gens"]) + 8}


def replay_float_tie(call, rec):
    """True when a float of the run sits on a rounding boundary the rational model resolves the other way:
    `ceil(prob * n)` of a weight estimate, `ceil(max_shots * perf / (1 - zpp))`, the `p >= max_p / n` trimming."""
    svd = call["svd"]
    ms, sh = call["ms"], call["sh"]
    if ms is None:
        return False
    prep = ms if sh is None else min(ms, sh)
    eff = call["filter"] + sum(call["heralds"].values())

    def near_int(x):
        return abs(x - round(x)) < F(1, 10 ** 9)

    if isinstance(svd, tuple):
        if eff >= 2 and sh is not None and rec["table"]:
            pre, zpp = F(rec["table"][0][2]), F(rec["table"][0][3])
            if zpp != 1 and near_int(sh * pre / (1 - zpp)) and not (pre / (1 - zpp)).denominator == 1:
                return True
        return False
    items = [(sv[0], F(float(p))) for sv, p in svd.items() if len(sv) == 1]
    max_p = max([p for b, p in items if b.n >= eff], default=F(0))
    pre = F(1) - sum((p for b, p in items if b.n < eff), F(0))
    zpp = sum((p for b, p in items if b.n == 0), F(0))
    if prep and max_p:
        thr = max_p / prep
        if any(b.n >= eff and p != max_p and abs(p - thr) <= thr * F(1, 10 ** 9) for b, p in items):
            return True
    if eff >= 2 and sh is not None and zpp != 1:
        v = sh * pre / (1 - zpp)
        if near_int(v) and v.denominator != 1:
            return True
        if near_int(v) and v.denominator == 1 and float(pre) / (1 - float(zpp)) != float(pre / (1 - zpp)):
            return True
        prep = min(prep, math.ceil(v))
    kept = [(b, p) for b, p in items if b.n >= eff and (not prep or p >= max_p / prep)]
    tot = sum((p for _b, p in kept), F(0))
    for _b, p in kept:
        if tot and near_int(p / tot * prep) and (p / tot * prep).denominator != 1:
            return True
        if tot and math.ceil(float(p) / float(tot) * prep) != math.ceil(p / tot * prep):
            return True
    return False


def classify_full(call, st):
    """Documented meaning of the selection on a FULL detected state -> 'p' / 'l' / 's' (the photon filter does not
    count the photons the heralds expect; a state failing both tests is a physical rejection)."""
    from perceval.utils import BasicState
    her = call["heralds"]
    if sum(st) - sum(her.values()) < call["filter"]:
        return "p"
    if any(st[k] != v for k, v in her.items()):
        return "l"
    ps = call["ps"]
    if ps is not None and ps.has_condition and not ps(BasicState(list(st))):
        return "l"
    return "s"


def oracle_replay(call, rec, obs):
    """The property on the recorded run, without the model.  -> (kind, signature, what) or None.
    'violation' (order-insensitive necessary conditions): the returned samples are the selected shots among the
    states the detectors returned, in order, with the heralded modes removed; the performances are the observed
    frequencies (times the pre-performance of the input); a shot holds exactly the photons of its input; a shot of a
    one-component input is a draw the backend really made for that input, each draw used once; PNR / threshold
    detection is the deterministic map; at most max_shots shots when the limit is not rescaled.
    'broken' (documented order of `sample_from`: a pool is emptied from its end before it is refilled): the state
    handed to the detectors is the merge of the next unused draws of its components."""
    if "raise" in obs or obs.get("path_fast"):
        return None
    dets = call["dets"]
    if not dets:
        return None        # without a detector list the shots are not observable one by one
    her = call["heralds"]
    inputs = [c for _cnt, b in rec["gens"] for c in b]
    mode = det_mode_of(dets)
    eff = call["filter"] + sum(her.values())
    if len(rec["det"]) > len(inputs):
        return ("violation", "replay:more-shots-than-inputs", f"{len(rec['det'])} shots for {len(inputs)} emitted "
                                                              f"inputs")
    if call["sh"] is not None:
        bound = call["sh"]
        if eff >= 2:
            # documented rescaling of the shot limit: max_shots * P(n >= filter | n > 0), rounded up
            if isinstance(call["svd"], tuple):
                pre_, zpp_ = (rec["table"][0][2], rec["table"][0][3]) if rec["table"] else (1.0, 0.0)
            else:
                pre_ = 1 - sum(float(p) for sv, p in call["svd"].items() if sv[0].n < eff)
                zpp_ = sum(float(p) for sv, p in call["svd"].items() if sv[0].n == 0)
            bound = math.ceil(call["sh"] * pre_ / (1 - zpp_) + 1e-9) if zpp_ != 1 else None
        if bound is not None and len(rec["det"]) > bound:
            return ("violation", "replay:more-shots-than-max_shots",
                    f"{len(rec['det'])} shots taken, max_shots={call['sh']} (limit after the documented rescaling: "
                    f"{bound})")
    expected, cls = [], {"p": 0, "l": 0, "s": 0}
    avail = {}
    for key, _n, outs in rec["backend"]:
        d = avail.setdefault(tuple(key), {})
        for o in outs:
            d[tuple(o)] = d.get(tuple(o), 0) + 1
    for j, (seen_in, seen_out) in enumerate(rec["det"]):
        comps = inputs[j]
        if sum(seen_in) != sum(sum(c) for c in comps):
            return ("violation", "replay:shot-loses-or-gains-photons",
                    f"shot {j}: input components {comps} hold {sum(sum(c) for c in comps)} photons, the sampled state "
                    f"{seen_in} holds {sum(seen_in)}")
        if len(comps) == 1 and sum(comps[0]) > 0:
            d = avail.get(tuple(comps[0]), {})
            if d.get(tuple(seen_in), 0) <= 0:
                return ("violation", "replay:draw-used-twice-or-never-made",
                        f"shot {j}: {seen_in} is not an unused output the backend drew for input {comps[0]}")
            d[tuple(seen_in)] -= 1
        if mode == "none" and list(seen_out) != list(seen_in):
            return ("violation", "replay:pnr-detection-changes-state", f"shot {j}: {seen_in} -> {seen_out}")
        if mode == "threshold" and list(seen_out) != [min(1, x) for x in seen_in]:
            return ("violation", "replay:threshold-detection-wrong", f"shot {j}: {seen_in} -> {seen_out}")
        c = classify_full(call, list(seen_out))
        cls[c] += 1
        if c == "s":
            expected.append([x for i, x in enumerate(seen_out) if call["keep"] or i not in her])
    if obs["results"] != expected:
        return ("violation", "replay:samples-are-not-the-selected-shots",
                f"returned {obs['results'][:6]}… ({len(obs['results'])}), the selected shots are {expected[:6]}… "
                f"({len(expected)})")
    if cls["s"]:
        pre = F(rec["table"][0][2]) if isinstance(call["svd"], tuple) and rec["table"] else None
        if pre is None and not isinstance(call["svd"], tuple):
            pre = F(1) - sum((F(float(p)) for sv, p in call["svd"].items() if sv[0].n < eff), F(0))
        if pre is not None:
            want_ph = pre * F(cls["s"] + cls["l"], cls["s"] + cls["l"] + cls["p"])
            want_lg = F(cls["s"], cls["s"] + cls["l"])
            if not core.close(obs["phys"], float(want_ph)) or not core.close(obs["logical"], float(want_lg)):
                return ("violation", "replay:performances-are-not-the-observed-frequencies",
                        f"reported ({obs['phys']}, {obs['logical']}), the shots give ({float(want_ph)}, "
                        f"{float(want_lg)}) = {cls}")
    # the documented pool order
    batches, pools = {}, {}
    for key, _n, outs in rec["backend"]:
        batches.setdefault(tuple(key), []).append(list(outs))
    for j, (seen_in, _out) in enumerate(rec["det"]):
        comps = inputs[j]
        total = None
        for c in comps:
            k = tuple(c)
            if not pools.get(k):
                if sum(c) == 0 and not batches.get(k):
                    pools[k] = [list(c)]
                elif batches.get(k):
                    pools[k] = batches[k].pop(0)
                else:
                    return ("broken", "replay:pool-order", f"shot {j} needs an output for input {c} but every "
                                                           f"recorded batch of it is used up")
            d = pools[k].pop()
            total = d if total is None else [a + b for a, b in zip(total, d)]
        if sum(comps[0]) == 0 and len(comps) == 1:
            total = list(seen_in)     # vacuum pools prepared without the backend hold the input itself
        if list(seen_in) != total:
            return ("broken", "replay:pool-order",
                    f"shot {j}: the next unused draws of the components {comps} sum to {total}, the detectors were "
                    f"handed {seen_in}")
    return None


def build_replay_target(case):
    """-> callable running the request of `case` on freshly built real objects."""
    import perceval as pcvl
    from perceval.utils import BasicState, SVDistribution, StateVector, PostSelect
    spec = case["spec"]
    if case["via"] in ("processor", "processor-svd"):
        p = build_proc(spec, "CliffordClifford2017")
        if case["via"] == "processor-svd":
            if case["svd"] == "source":
                from perceval.components.source import Source
                svd = Source.from_noise_model(noise_model(spec["noise"])).generate_distribution(
                    BasicState(spec["input"]))
            else:
                svd = SVDistribution({StateVector(BasicState(st)): float(F(p_)) for st, p_ in case["svd"]})
            if spec["filter"] is None:
                p.min_detected_photons_filter(0)
            full = {}
            # a custom input covers ALL modes of the processor
            p.with_input(svd)
        return lambda: p.samples(case["ms"], case["sh"])
    # direct use of the simulator
    from perceval.simulators import NoisySamplingSimulator
    from perceval.backends import Clifford2017Backend
    from . import gens
    sim = NoisySamplingSimulator(Clifford2017Backend())
    sim.sleep_between_batches = 0
    sim.set_circuit(pcvl.Unitary(pcvl.Matrix(gens.haar(spec["m"], spec["useed"]))))
    sim.set_selection(min_detected_photons_filter=spec["filter"] or 0,
                      heralds={int(k): v for k, v in spec["heralds"].items()},
                      postselect=PostSelect(spec["ps"]) if spec["ps"] else None)
    sim.keep_heralds(case["keep"])
    if spec["detectors"] is not None:
        sim.set_detectors([make_detector(d) for d in spec["detectors"]])
    from perceval.components.source import Source
    src = Source.from_noise_model(noise_model(spec["noise"]))
    bs = BasicState(spec["input"])
    if case["svd"] == "tuple":
        svd = (src, bs)
    elif case["svd"] == "source":
        svd = src.generate_distribution(bs)
    else:
        svd = SVDistribution({StateVector(BasicState(st)): float(F(p_)) for st, p_ in case["svd"]})
    return lambda: sim.samples(svd, case["ms"], case["sh"])


def run_replay_case(case):
    """Run the request for real with the random sites recorded -> (obs, rec)."""
    import perceval as pcvl
    rec = new_rec()
    obs = {}
    try:
        with recording(rec):
            target = build_replay_target(case)
            pcvl.random_seed(case["seed"])
            with watchdog(CALL_TIMEOUT):
                res = target()
        obs["results"] = [list(s) for s in res["results"]]
        obs["phys"], obs["logical"] = res["physical_perf"], res["logical_perf"]
    except Exception as e:  # noqa: BLE001 - mapped to its class name
        obs["raise"] = type(e).__name__
        obs["message"] = str(e)[:200]
    return obs, rec


def compare_replay(call, rec, obs, rep):
    """-> None or a description of the first difference between the real run and the model's replay."""
    if "err" in rep:
        return f"the driver rejected the request: {rep['err']}"
    if "need" in rep:
        return f"the model asks the {rep['need']} site for more draws than the code consumed"
    if "raise" in obs or "raise" in rep:
        if obs.get("raise") != rep.get("raise"):
            return f"code raised {obs.get('raise')} ({obs.get('message')}), model {rep.get('raise', 'returns')}"
        return None
    if rep["results"] != obs["results"]:
        k = next((i for i, (a, b) in enumerate(zip(rep["results"], obs["results"])) if a != b),
                 min(len(rep["results"]), len(obs["results"])))
        return (f"samples differ at position {k}: code {obs['results'][k:k + 3]} (of {len(obs['results'])}), model "
                f"{rep['results'][k:k + 3]} (of {len(rep['results'])})")
    for k in ("phys", "logical"):
        if not core.close(obs[k], float(F(rep[k]))):
            return f"{k} performance: code {obs[k]}, model {rep[k]} = {float(F(rep[k]))}"
    asked = [c for c, _b in rec["gens"]]
    if rep["asked"] != asked:
        return f"generator requests: code {asked}, model {rep['asked']}"
    per_key_code, per_key_model = {}, {}
    for key, n, _o in rec["backend"]:
        per_key_code.setdefault(tuple(key), []).append(n)
    for key, n in rep["reqs"]:
        per_key_model.setdefault(tuple(key), []).append(n)
    if per_key_code != per_key_model:
        bad = sorted(k for k in set(per_key_code) | set(per_key_model) if per_key_code.get(k) != per_key_model.get(k))
        k = bad[0]
        return f"backend requests for input {list(k)}: code {per_key_code.get(k)}, model {per_key_model.get(k)}"
    if call["dets"] and rep["path"] == "loop":
        seen = [b for _a, b in rec["det"]]
        if rep["seen"] != seen:
            return f"detected states of the shots: code {seen[:5]}… ({len(seen)}), model {rep['seen'][:5]}… ({len(rep['seen'])})"
    if rep["path"] == "loop":
        lz = rep.get("lazy")
        if lz is None or lz["results"] != rep["results"] or lz["shots"] != rep["shots"] or \
                lz["notSel"] != rep["notSel"] or lz["notSelPhys"] != rep["notSelPhys"]:
            return f"the lazy provider on the re-ordered streams does not reproduce the pooled run: {lz}"
    return None


def judge_replay(chk, case, count=True):
    """-> None or (kind, signature, what, replay)."""
    obs, rec = run_replay_case(case)
    replay = {"part": "replayrec", "case": case}
    if len(rec["calls"]) != 1:
        if obs.get("raise") and not rec["calls"]:
            # rejected before the simulator is reached (Processor-level validation)
            if count:
                chk.branch("replay-rejected-before-the-simulator")
            return None
        return ("broken", "replay:recording", f"{len(rec['calls'])} calls of NoisySamplingSimulator.samples recorded "
                                             f"({obs})", replay)
    if obs.get("raise") == "DidNotReturn":
        return ("violation", "replay:does-not-return", f"{case['via']} request ms={case['ms']} sh={case['sh']} did "
                                                       f"not return within {CALL_TIMEOUT} s", replay)
    call = rec["calls"][0]
    req = replay_request(call, rec)
    if req is None:
        return None
    tie = replay_float_tie(call, rec)
    rep = chk.lean.ask(req)
    if rep.get("path") == "fast":
        # OBSERVED, not judged: the perfect fast path hands out its samples without looking at the photon filter; with
        # a filter above the photon number of the input strong simulation reports nothing (physical performance 0).
        # The configuration is left out of the comparison so that the check says the same before and after a repair
        # (candidate: fixes/C09-fast-path-photon-filter.diff).
        only = call["svd"][1] if isinstance(call["svd"], tuple) else next(iter(call["svd"]))[0]
        if only.n < call["filter"]:
            if count:
                chk.branch("replay-observed:fast-path-input-below-photon-filter")
            return None
    diff = compare_replay(call, rec, obs, rep)
    obs["path_fast"] = rep.get("path") in ("fast", "incompatible", "none")
    direct = oracle_replay(call, rec, obs)
    if count:
        if "raise" in obs:
            chk.branch("replay-raise:" + obs["raise"])
        else:
            chk.branch("replay-path:" + str(rep.get("path")))
            if rep.get("path") == "loop":
                if isinstance(call["svd"], tuple):
                    chk.branch("replay-source-route")
                else:
                    chk.branch("replay-distribution-route")
                if len(rec["gens"]) > (2 if isinstance(call["svd"], tuple) else 1):
                    chk.branch("replay-generator-asked-again")
                per_key = {}
                for key, n, _o in rec["backend"]:
                    per_key[tuple(key)] = per_key.get(tuple(key), 0) + 1
                if any(v >= 2 for v in per_key.values()):
                    chk.branch("replay-pool-refilled")
                if any(v >= 3 for v in per_key.values()):
                    chk.branch("replay-pool-refilled-twice")
                if any(len(c) >= 2 for _c, b in rec["gens"] for c in b):
                    chk.branch("replay-tagged-input-merged")
                if req["det"] == "random":
                    chk.branch("replay-detector-draws")
                if req["det"] == "threshold":
                    chk.branch("replay-threshold-detectors")
                if rep.get("notSelPhys"):
                    chk.branch("replay-physical-rejection")
                if rep.get("notSel"):
                    chk.branch("replay-logical-rejection")
                if call["heralds"] and not call["keep"]:
                    chk.branch("replay-heralded-modes-removed")
                if call["heralds"] and call["keep"]:
                    chk.branch("replay-heralded-modes-kept")
                if call["sh"] is not None and rep.get("shots", 0) >= 1 and len(obs["results"]) < (call["ms"] or 0):
                    chk.branch("replay-stopped-by-shots")
                if call["ms"] and len(obs["results"]) == call["ms"]:
                    chk.branch("replay-stopped-by-samples")
                if call["filter"] + sum(call["heralds"].values()) >= 2 and call["sh"] is not None:
                    chk.branch("replay-shots-rescaled")
                if any(sum(c) == 0 for _c, b in rec["gens"] for cs in b for c in cs):
                    chk.branch("replay-vacuum-input")
            chk.count("replay_shots", min(rep.get("shots", 0) // 50 * 50, 1000) if "shots" in rep else "-")
        if tie:
            chk.branch("replay-float-tie-skipped")
    if direct is not None and direct[0] == "violation":
        return ("violation", direct[1], f"{case['via']} request ms={case['ms']} sh={case['sh']}: {direct[2]}", replay)
    if direct is not None:
        return ("broken", direct[1], f"{case['via']} request ms={case['ms']} sh={case['sh']}: {direct[2]}", replay)
    if diff is not None and not tie:
        return ("broken", "replay:model-vs-code", f"{case['via']} request ms={case['ms']} sh={case['sh']}: {diff}",
                replay)
    return None


def gen_replay_case(rng, i):
    """One request: a processor description, the route, the limits, a seed."""
    r = i % 10
    if r in (0, 1, 2, 3, 4):
        kind = ["perfect", "selected", "noisy", "noisy-selected", "detectors", "everything"][rng.randrange(6)]
        spec = gen_proc_spec(rng, kind)
        via = "processor"
    elif r == 5:
        spec = gen_bunching_selected_spec(rng)
        via = "processor"
    elif r in (6, 7):
        spec = gen_proc_spec(rng, rng.choice(["noisy", "noisy-selected", "everything", "detectors"]))
        via = "processor-svd"
    else:
        spec = gen_proc_spec(rng, rng.choice(["selected", "noisy", "noisy-selected", "detectors", "everything"]))
        via = "nss"
    case = {"spec": spec, "via": via, "seed": rng.randrange(2 ** 31), "keep": False, "svd": None}
    m = spec["m"]
    case["ms"] = rng.choice([0, 1, 2, 3, 5, 8, 13, 30, 30, 60, 60, 150, 150, 400])
    if via == "processor-svd":
        if spec["noise"] and rng.random() < 0.6:
            case["svd"] = "source"
        else:
            # a hand-made mixture of Fock states with different photon numbers (vacuum included)
            states, tot = [], F(0)
            seen = set()
            for _ in range(rng.randint(1, 5)):
                st = [0] * m
                for _ in range(rng.choice([0, 1, 1, 2, 2, 3])):
                    st[rng.randrange(m)] += 1
                if tuple(st) in seen:
                    continue
                seen.add(tuple(st))
                w = F(rng.randint(1, 40))
                states.append([st, w])
                tot += w
            case["svd"] = [[st, str(w / tot)] for st, w in states]
        if spec["filter"] is None:
            spec["filter"] = rng.choice([0, 1])
        # heralds are part of the custom input: keep the description simple
        spec["heralds"] = {}
        if spec["ps"] is not None and rng.random() < 0.5:
            spec["ps"] = gen_ps_text(rng, m)
    if via == "nss":
        case["keep"] = rng.random() < 0.5
        case["svd"] = rng.choice(["tuple", "tuple", "source"])
        if rng.random() < 0.6:
            spec["ps"] = gen_ps_text(rng, m)
        if spec["detectors"] is None and rng.random() < 0.5:
            spec["detectors"] = [None] * m      # a detector list holding no detector
        if spec["filter"] is None:
            spec["filter"] = rng.choice([0, 1, 2])
        if rng.random() < 0.08:
            case["ms"] = None
    # no shot limit only where (nearly) every shot is accepted: the loop of a request nothing satisfies never ends
    selective = bool(spec["heralds"] or spec["ps"] or (spec["filter"] or 0) >= 2 or spec["detectors"]
                     or via == "processor-svd")
    case["sh"] = rng.choice([0, 1, 2, 5, 17, 40, 100, 100, 300, 300, 1000, 1000, 3000]) \
        if selective or rng.random() < 0.6 else None
    return case


def shrink_replay(chk, case, sig):
    def fails(c):
        for k in range(3):
            res = judge_replay(chk, dict(c, seed=c["seed"] + k), count=False)
            if res is not None and res[1] == sig:
                return dict(c, seed=c["seed"] + k)
        return None

    cur = case
    for _round in range(4):
        changed = False
        cands = []
        for ms in (1, 2, 3, 5, 8):
            if cur["ms"] is not None and ms < cur["ms"]:
                cands.append(dict(cur, ms=ms))
        for sh in (1, 2, 5, 17, 40):
            if cur["sh"] is None or sh < cur["sh"]:
                cands.append(dict(cur, sh=sh))
        sp = cur["spec"]
        if sp["ps"]:
            cands.append(dict(cur, spec=dict(sp, ps=None)))
        if sp["detectors"] and cur["via"] != "processor-svd":
            cands.append(dict(cur, spec=dict(sp, detectors=None if cur["via"] == "processor" else [None] * sp["m"])))
        if sp["noise"] and cur["svd"] != "source":
            cands.append(dict(cur, spec=dict(sp, noise=None)))
        for c in cands:
            try:
                got = fails(c)
            except Exception:  # noqa: BLE001 - a simplification may describe an impossible processor
                got = None
            if got is not None:
                cur, changed = got, True
                break
        if not changed:
            break
    return cur


def handle_replay(chk, case, label="random"):
    res = judge_replay(chk, case)
    chk.case(("F", case["via"], case["spec"]["kind"], case["spec"]["useed"], case["ms"], case["sh"], case["seed"]),
             nontrivial=bool(case["ms"]) and case["sh"] != 0,
             sample={"via": case["via"], "kind": case["spec"]["kind"], "ms": case["ms"], "sh": case["sh"]})
    chk.count("replay_via", case["via"])
    if res is not None:
        kind, sig, what, replay = res
        if label == "random":
            small = shrink_replay(chk, case, sig)
            res2 = judge_replay(chk, small, count=False)
            if res2 is not None and res2[1] == sig and res2[0] == kind:
                replay = dict(res2[3], original=case, what_original=what)
                what = res2[2]
        chk.fail(kind, sig, what, replay)


def provider_constants(chk):
    """The float facts the model of SamplesProvider relies on, for every weight the code can hold."""
    rep = chk.lean.ask({"op": "provconst", "n": 2000})
    for w in range(2001):
        if math.ceil(0.1 * w) != rep["ceilTenth"][w]:
            chk.fail("broken", "replay:ceil-tenth", f"math.ceil(0.1*{w}) = {math.ceil(0.1 * w)}, model "
                                                     f"{rep['ceilTenth'][w]}", {"part": "provconst"})
            break
        if min(max(int(w * 1.1), 16), 2000) != rep["grow"][w]:
            chk.fail("broken", "replay:grow", f"weight growth of {w}: code {min(max(int(w * 1.1), 16), 2000)}, "
                                              f"model {rep['grow'][w]}", {"part": "provconst"})
            break
    chk.branch("replay-provider-constants")


def replay_part(chk, n):
    provider_constants(chk)
    for i in range(n):
        handle_replay(chk, gen_replay_case(chk.rng, i))


# ================================================================================================
# G. Sampler iterations (local batch jobs): the limits and the configuration every iteration runs under
# ================================================================================================
IT_PARAM_VALUES = [0.0, 0.3, 1.1, 2.0]
IT_INPUTS = [[1, 0], [0, 1], [1, 1]]
IT_NOISES = [None, {"brightness": 0.9, "transmittance": 0.8, "g2": 0.0, "indistinguishability": 1.0,
                    "g2_distinguishable": True}]


def build_iter_target(case):
    import perceval as pcvl
    from perceval.algorithm import Sampler
    from perceval.utils import BasicState
    c = pcvl.Circuit(2) // pcvl.BS() // (0, pcvl.PS(pcvl.P("phi0"))) // (1, pcvl.PS(pcvl.P("phi1"))) // pcvl.BS()
    p = pcvl.Processor("SLOS" if case["kind"] == "probs" else "CliffordClifford2017", c)
    cfg = case["cfg"]
    for name, v in zip(("phi0", "phi1"), cfg["params"]):
        p.get_circuit_parameters()[name].set_value(IT_PARAM_VALUES[v])
    if cfg["noise"]:
        p.noise = noise_model(IT_NOISES[cfg["noise"]])
    p.min_detected_photons_filter(cfg["filter"])
    p.with_input(BasicState(IT_INPUTS[cfg["input"]]))
    s = Sampler(p) if cfg["sh"] is None else Sampler(p, max_shots_per_call=cfg["sh"])
    its = []
    for it in case["its"]:
        d = {}
        if it["params"] is not None:
            d["circuit_params"] = {f"phi{i}": IT_PARAM_VALUES[v] for i, v in it["params"]}
        if it["input"] is not None:
            d["input_state"] = BasicState(IT_INPUTS[it["input"]])
        if it["filter"] is not None:
            d["min_detected_photons"] = it["filter"]
        if it["ms"] is not None:
            d["max_samples"] = it["ms"]
        if it["sh"] is not None:
            d["max_shots"] = it["sh"]
        if it["noise"] is not None:
            d["noise"] = noise_model(IT_NOISES[it["noise"]]) or pcvl.NoiseModel()
        its.append(d)
    if case["as_list"]:
        s.add_iteration_list(its)
    else:
        for d in its:
            s.add_iteration(**d)
    return p, s


def observe_cfg(p, s):
    def val_id(x):
        return min(range(len(IT_PARAM_VALUES)), key=lambda i: abs(IT_PARAM_VALUES[i] - float(x)))
    nz = p.noise
    noise_id = 0
    if nz is not None and not (nz.brightness == 1 and nz.transmittance == 1 and nz.g2 == 0
                               and nz.indistinguishability == 1):
        noise_id = 1
    return {"ms": s._max_samples, "sh": s._max_shots, "filter": p.experiment.min_photons_filter,
            "input": IT_INPUTS.index(list(p.input_state)), "noise": noise_id,
            "params": [val_id(float(p.get_circuit_parameters()[n])) for n in ("phi0", "phi1")]}


def run_iter_case(case):
    """The job for real, with every `processor.samples` / `processor.probs` call observed."""
    from perceval.components.processor import Processor
    calls, results = [], []
    holder = {}
    orig_samples, orig_probs = Processor.samples, Processor.probs

    def spy_samples(self_, max_samples, max_shots=None, progress_callback=None):
        o = observe_cfg(self_, holder["s"])
        o["arg_ms"], o["arg_sh"] = max_samples, max_shots
        calls.append(o)
        res = orig_samples(self_, max_samples, max_shots, progress_callback)
        results.append(len(res["results"]))
        return res

    def spy_probs(self_, precision=None, progress_callback=None):
        o = observe_cfg(self_, holder["s"])
        o["precision"] = precision
        calls.append(o)
        return orig_probs(self_, precision, progress_callback)

    obs = {}
    try:
        p, s = build_iter_target(case)
        holder["s"] = s
        with mock.patch.object(Processor, "samples", spy_samples), mock.patch.object(Processor, "probs", spy_probs), \
                watchdog(CALL_TIMEOUT):
            job = s.samples if case["kind"] == "samples" else s.probs
            try:
                if case["kind"] == "samples" and case["max_samples"] is not None:
                    res = job.execute_sync(case["max_samples"])
                else:
                    res = job.execute_sync()
            finally:
                failed = job.is_failed
            if failed:
                obs["raise"] = str(job.status.stop_message).split(":")[0].strip()
        obs["final"] = observe_cfg(p, s)
    except Exception as e:  # noqa: BLE001
        obs["raise"] = type(e).__name__
    obs["calls"], obs["results"] = calls, results
    return obs


def judge_iter(chk, case, count=True):
    obs = run_iter_case(case)
    replay = {"part": "iterations", "case": case}
    cfg = case["cfg"]
    if count and "raise" not in obs:
        chk.branch("iterations-" + case["kind"])
        if cfg["sh"] is not None and any(it["sh"] is None for it in case["its"]):
            chk.branch("iterations-under-max_shots_per_call")
        if any(it["sh"] is not None for it in case["its"]):
            chk.branch("iterations-own-max_shots")
        if any(it["ms"] is not None for it in case["its"]):
            chk.branch("iterations-own-max_samples")
        if any(it["params"] is not None for it in case["its"]) and any(it["params"] is None for it in case["its"]):
            chk.branch("iterations-parameters-back-to-default")
        if any(it["noise"] is not None for it in case["its"]):
            chk.branch("iterations-noise")
        if len(case["its"]) >= 3:
            chk.branch("iterations-three-or-more")
    # DIRECT ORACLE (documented meaning): an iteration runs under its own max_shots if it names one, else under the
    # sampler's max_shots_per_call; it never returns more than min(max_samples, max_shots) samples
    if case["kind"] == "samples":
        for k, (o, n) in enumerate(zip(obs["calls"], obs["results"])):
            it = case["its"][k]
            want_sh = it["sh"] if it["sh"] is not None else cfg["sh"]
            want_ms = it["ms"] if it["ms"] is not None else case["max_samples"]
            lim = [x for x in (want_sh, want_ms) if x is not None]
            if lim and n > min(lim):
                return ("violation", "iterations:limits-not-honoured",
                        f"Sampler(max_shots_per_call={cfg['sh']}) with {len(case['its'])} iteration(s), "
                        f"samples({case['max_samples']}): iteration {k} ({it}) returned {n} samples, its limits are "
                        f"max_samples={want_ms}, max_shots={want_sh}", replay)
    if "final" in obs and "raise" not in obs and obs["final"]["sh"] != cfg["sh"]:
        return ("violation", "iterations:limits-not-honoured",
                f"a Sampler built with max_shots_per_call={cfg['sh']} holds _max_shots={obs['final']['sh']} after a "
                f"local job of {len(case['its'])} iteration(s)", replay)
    rep = chk.lean.ask({"op": "iterate", "fixed": True, "kind": case["kind"], "cfg": cfg, "max_shots": None,
                        "max_samples": case["max_samples"] if case["kind"] == "samples" else None,
                        "its": case["its"]})
    if "raise" in obs or "raise" in rep:
        if count and "raise" in obs:
            chk.branch("iterations-raise:" + obs["raise"])
        if obs.get("raise") != rep.get("raise"):
            return ("broken", "iterations:model-vs-code", f"code {obs.get('raise', 'returns')}, model "
                                                          f"{rep.get('raise', 'returns')}", replay)
        return None
    keys = ("ms", "sh", "filter", "input", "noise", "params")
    got = [{k: o[k] for k in keys} for o in obs["calls"]]
    if case["kind"] == "probs":
        # `_max_samples` plays no part in a probs job
        for g, w in zip(got, rep["calls"]):
            g["ms"] = w["ms"]
    if got != rep["calls"]:
        k = next((i for i, (a, b) in enumerate(zip(got, rep["calls"])) if a != b), min(len(got), len(rep["calls"])))
        return ("broken", "iterations:model-vs-code",
                f"configuration of iteration {k}: code {got[k] if k < len(got) else None}, model "
                f"{rep['calls'][k] if k < len(rep['calls']) else None}", replay)
    if case["kind"] == "samples":
        for o, w in zip(obs["calls"], rep["calls"]):
            if (o["arg_ms"], o["arg_sh"]) != (w["ms"], w["sh"]):
                return ("broken", "iterations:model-vs-code", f"processor.samples called with ({o['arg_ms']}, "
                                                              f"{o['arg_sh']}), model ({w['ms']}, {w['sh']})", replay)
    else:
        for o, w in zip(obs["calls"], rep["calls"]):
            want = None if w["sh"] is None else min(1e-6, 1 / w["sh"])
            if o["precision"] != want:
                return ("broken", "iterations:model-vs-code", f"processor.probs called with precision "
                                                              f"{o['precision']}, model {want}", replay)
    fin = {k: obs["final"][k] for k in keys}
    if case["kind"] == "probs":
        fin["ms"] = rep["final"]["ms"]
    if fin != rep["final"]:
        return ("broken", "iterations:model-vs-code", f"configuration left behind: code {fin}, model {rep['final']}",
                replay)
    return None


def gen_iter_case(rng):
    kind = "samples" if rng.random() < 0.75 else "probs"
    cfg = {"ms": None, "sh": rng.choice([None, 1, 3, 7, 20]), "filter": rng.choice([0, 1]),
           "input": rng.randrange(len(IT_INPUTS)), "noise": rng.choice([0, 0, 1]),
           "params": [rng.randrange(len(IT_PARAM_VALUES)) for _ in range(2)]}
    its = []
    for _ in range(rng.choice([1, 1, 2, 3, 4])):
        its.append({"ms": rng.choice([None, None, 2, 9]), "sh": rng.choice([None, None, None, 1, 4, 12]),
                    "filter": rng.choice([None, None, 0, 1]), "input": rng.choice([None, None, 0, 1, 2]),
                    "noise": rng.choice([None, None, None, 0, 1]),
                    # the documented use: every variable parameter named, or no circuit_params at all
                    "params": rng.choice([None, [[0, rng.randrange(4)], [1, rng.randrange(4)]]])})
    case = {"kind": kind, "cfg": cfg, "its": its, "as_list": rng.random() < 0.5,
            "max_samples": rng.choice([None, 5, 15, 40]) if kind == "samples" else None}
    if kind == "samples" and case["max_samples"] is None and cfg["sh"] is None and rng.random() < 0.7:
        # nothing limits an iteration without its own limit: keep the job finite
        case["max_samples"] = 10
    if kind == "samples" and rng.random() < 0.06:
        # no limit anywhere for one iteration at least: the documented RuntimeError
        cfg["sh"], case["max_samples"] = None, None
        its[0]["ms"], its[0]["sh"] = None, None
    return case


def shrink_iter(chk, case, sig):
    cur = case
    for _ in range(6):
        cands = []
        if len(cur["its"]) > 1:
            cands += [dict(cur, its=cur["its"][:i] + cur["its"][i + 1:]) for i in range(len(cur["its"]))]
        for i, it in enumerate(cur["its"]):
            for k in ("ms", "sh", "filter", "input", "noise", "params"):
                if it[k] is not None:
                    cands.append(dict(cur, its=cur["its"][:i] + [dict(it, **{k: None})] + cur["its"][i + 1:]))
        if cur["cfg"]["noise"]:
            cands.append(dict(cur, cfg=dict(cur["cfg"], noise=0)))
        for c in cands:
            res = judge_iter(chk, c, count=False)
            if res is not None and res[1] == sig:
                cur = c
                break
        else:
            break
    return cur


def iterations_part(chk, n):
    found = {}
    for _ in range(n):
        case = gen_iter_case(chk.rng)
        res = judge_iter(chk, case)
        chk.case(("G", case["kind"], json.dumps(case["cfg"], sort_keys=True), json.dumps(case["its"], sort_keys=True),
                  case["max_samples"]), nontrivial=len(case["its"]) >= 2)
        if res is not None and (res[0], res[1]) not in found:
            small = shrink_iter(chk, case, res[1])
            res2 = judge_iter(chk, small, count=False)
            found[(res[0], res[1])] = res2 if res2 is not None and res2[1] == res[1] and res2[0] == res[0] else res
    # the model is the REPAIRED code: where the direct oracle shows the property failing, the differences between
    # model and code are that same defect and are not reported a second time
    if any(k == "violation" for k, _sig in found):
        found = {key: v for key, v in found.items() if key[0] == "violation"}
    for v in found.values():
        chk.fail(*v)


# ================================================================================================
# J. from Sampler.samples / sample_count / probs to the primitive the processor offers and back
#    (_get_primitive_converter, _create_job, Job._handle_params, the wrappers, LocalJob._get_results)
# ================================================================================================
JOB_NAMES = {"samples": "samples", "sample_count": "sample_count", "probs": "probs"}


def job_total(res):
    r = res
    if hasattr(r, "values") and not isinstance(r, (list, tuple)):
        return float(sum(r.values()))
    return len(r)


def run_job_case(case):
    """The job for real: every processor request, every converter call and the result observed."""
    import functools
    from perceval.components.processor import Processor
    from perceval.algorithm import Sampler
    calls, conv, results = [], [], []
    holder = {}
    orig_samples, orig_probs = Processor.samples, Processor.probs

    def spy_samples(self_, max_samples, max_shots=None, progress_callback=None):
        o = observe_cfg(self_, holder["s"])
        o["kind"], o["arg_ms"], o["arg_sh"] = "samples", max_samples, max_shots
        calls.append(o)
        if max_shots is None and (max_samples is None or max_samples >= 10 ** 7):
            # nothing bounds this request (the wrappers refuse to start one): do not wait for 1e8 samples
            o["unbounded"] = True
            raise DidNotReturn("unbounded sampling request")
        res = orig_samples(self_, max_samples, max_shots, progress_callback)
        o["n"] = len(res["results"])
        return res

    def spy_probs(self_, precision=None, progress_callback=None):
        o = observe_cfg(self_, holder["s"])
        o["kind"], o["precision"] = "probs", precision
        calls.append(o)
        return orig_probs(self_, precision, progress_callback)

    def wrap(fn):
        @functools.wraps(fn)
        def w(res, **kwargs):
            conv.append({"name": fn.__name__, "kw": dict(kwargs)})
            out = fn(res, **kwargs)
            conv[-1]["total"] = job_total(out)
            return out
        return w

    mapping = {m: {k: wrap(f) for k, f in d.items()} for m, d in Sampler._METHOD_MAPPING.items()}
    obs = {}
    try:
        p, s = build_iter_target(case)
        holder["s"] = s
        ctx = [mock.patch.object(Processor, "samples", spy_samples), mock.patch.object(Processor, "probs", spy_probs),
               mock.patch.object(Sampler, "_METHOD_MAPPING", mapping)]
        if case["avail"] is not None:
            ctx.append(mock.patch.object(Processor, "available_commands", new_callable=mock.PropertyMock,
                                         return_value=list(case["avail"])))
        with contextlib.ExitStack() as stack:
            for c in ctx:
                stack.enter_context(c)
            stack.enter_context(watchdog(CALL_TIMEOUT))
            prim, _cv = s._get_primitive_converter(case["method"])
            obs["prim"] = prim
            natural = "probs" if case["kind"] == "probs" else "samples"
            if prim is not None and prim not in (natural, "sample_count"):
                obs["not-run"] = True      # the backend cannot answer this primitive: only the choice is compared
                return obs
            kw = {}
            if case["kw"]["ms"]:
                kw["max_samples"] = case["kw"]["ms"][0]
            if case["kw"]["sh"]:
                kw["max_shots"] = case["kw"]["sh"][0]
            if case["kw"]["other"]:
                kw["shots"] = 3
            job = getattr(s, case["method"])
            try:
                res = job.execute_sync(*case["args"], **kw)
                if "results" in res:
                    results.append((type(res["results"]).__name__, job_total(res["results"])))
                else:
                    results += [(type(r["results"]).__name__, job_total(r["results"])) for r in res["results_list"]]
            finally:
                if job.is_failed:
                    obs["raise"] = str(job.status.stop_message).split(":")[0].strip()
        obs["final"] = observe_cfg(p, s)
    except Exception as e:  # noqa: BLE001
        obs.setdefault("raise", type(e).__name__)
    obs["calls"], obs["conv"], obs["results"] = calls, conv, results
    return obs


def entry_of(kw, key):
    return [kw[key]] if key in kw else []


def judge_job(chk, case, count=True):
    obs = run_job_case(case)
    replay = {"part": "job", "case": case}
    cfg, method = case["cfg"], case["method"]
    S = cfg["sh"]
    natural = "probs" if case["kind"] == "probs" else "samples"
    avail = case["avail"] if case["avail"] is not None else [natural]
    rep = chk.lean.ask({"op": "job", "avail": avail, "method": method, "cfg": cfg, "its": case["its"],
                        "args": case["args"], "kw": case["kw"]})
    if "err" in rep:
        return ("broken", "job:model-vs-code", f"driver: {rep['err']}", replay)
    if obs.get("prim") != rep["prim"]:
        return ("broken", "job:model-vs-code", f"primitive for {method} among {avail}: code {obs.get('prim')}, "
                                               f"model {rep['prim']}", replay)
    if obs.get("not-run"):
        if count:
            chk.branch("job-primitive-choice-only")
        return None
    # ---- DIRECT ORACLE on the real run (no model): the limits are honoured whatever the route
    for o in obs["calls"]:
        if o.get("unbounded") and (S is not None or case["args"][:1] not in ([], [None])):
            return ("violation", "job:limits-not-honoured",
                    f"Sampler(max_shots_per_call={S}).{method}(*{case['args']}, **{case['kw']}): the processor is asked "
                    f"for {o['arg_ms']} samples with max_shots={o['arg_sh']}", replay)
    if "raise" not in obs:
        user_ms = case["args"][0] if case["args"] else (case["kw"]["ms"][0] if case["kw"]["ms"] else None)
        user_sh = S if S is not None else (case["kw"]["sh"][0] if case["kw"]["sh"] else None)
        its = case["its"] or [None]
        for k, ((typ, tot), it) in enumerate(zip(obs["results"], its)):
            ms_k = it["ms"] if it is not None and it["ms"] is not None else user_ms
            sh_k = it["sh"] if it is not None and it["sh"] is not None else user_sh
            if method != "probs":
                lim = [x for x in (ms_k, sh_k) if x is not None]
                if lim and tot > min(lim):
                    return ("violation", "job:limits-not-honoured",
                            f"Sampler(max_shots_per_call={S}).{method}(*{case['args']}, **{case['kw']}) on "
                            f"{case['kind']}-primitive, result {k}: {tot} samples, limits max_samples={ms_k} "
                            f"max_shots={sh_k}", replay)
            elif tot not in (0, 0.0) and abs(tot - 1) > 1e-9:
                return ("violation", "job:probs-not-normalised", f"probabilities sum to {tot}", replay)
        for k, o in enumerate(obs["calls"]):
            if o["kind"] == "samples":
                it = case["its"][k] if case["its"] else None
                sh_k = it["sh"] if it is not None and it["sh"] is not None else S
                if o["arg_sh"] != sh_k or (sh_k is not None and o["n"] > sh_k):
                    return ("violation", "job:limits-not-honoured",
                            f"{method} of a Sampler with max_shots_per_call={S}: request {k} reached the processor "
                            f"with max_shots={o['arg_sh']} (wanted {sh_k}) and returned {o['n']} samples", replay)
    # ---- model vs code
    want_raise = rep.get("raise")
    if want_raise is None and rep["convFails"]:
        want_raise = "RuntimeError"
    if count:
        if "raise" in obs:
            chk.branch("job-raise:" + obs["raise"])
        else:
            chk.branch(f"job-{method}-via-{obs['prim']}")
            if case["its"]:
                chk.branch("job-iterated")
                if rep.get("takesKw") and any(it["ms"] is not None or it["sh"] is not None for it in case["its"]):
                    chk.branch("job-iterated-conversion-own-limits")
            if case["kw"]["ms"]:
                chk.branch("job-keyword-max_samples")
            if len(case["args"]) > (0 if obs["prim"] == "probs" else 1):
                chk.branch("job-surplus-positional")
            if rep.get("takesKw") and S is not None:
                chk.branch("job-conversion-under-max_shots_per_call")
        if obs.get("prim") is None:
            chk.branch("job-no-primitive")
    if obs.get("raise") != want_raise:
        return ("broken", "job:model-vs-code", f"code {obs.get('raise', 'returns')}, model "
                                               f"{want_raise or 'returns'}", replay)
    if "raise" in rep:
        return None
    # the processor requests
    keys = ("ms", "sh", "filter", "input", "noise", "params")
    if rep["call"] is not None:
        want_calls = [rep["call"]]
        if len(obs["calls"]) != 1:
            return ("broken", "job:model-vs-code", f"{len(obs['calls'])} processor requests, model 1", replay)
        o, w = obs["calls"][0], rep["call"]
        got = ({"kind": "samples", "ms": o["arg_ms"], "sh": o["arg_sh"]} if o["kind"] == "samples"
               else {"kind": "probs", "sh": S})
        if o["kind"] == "probs":
            wantp = None if w.get("sh") is None else min(1e-6, 1 / w["sh"])
            if o["precision"] != wantp:
                return ("broken", "job:model-vs-code", f"processor.probs called with precision {o['precision']}, "
                                                       f"model {wantp}", replay)
        if got != w:
            return ("broken", "job:model-vs-code", f"processor request: code {got}, model {w}", replay)
    else:
        if "raise" not in obs:
            got = [{k: o[k] for k in keys} for o in obs["calls"]]
            want = [dict(w) for w in rep["calls"]]
            if obs["prim"] == "probs":
                for g, w in zip(got, want):
                    g["ms"] = w["ms"]
            if got != want:
                return ("broken", "job:model-vs-code", f"iterated requests: code {got}, model {want}", replay)
            for o, w in zip(obs["calls"], rep["calls"]):
                if o["kind"] == "samples" and (o["arg_ms"], o["arg_sh"]) != (w["ms"], w["sh"]):
                    return ("broken", "job:model-vs-code", f"processor.samples called with ({o['arg_ms']}, "
                                                           f"{o['arg_sh']}), model ({w['ms']}, {w['sh']})", replay)
                if o["kind"] == "probs":
                    wantp = None if w["sh"] is None else min(1e-6, 1 / w["sh"])
                    if o["precision"] != wantp:
                        return ("broken", "job:model-vs-code", f"processor.probs called with precision "
                                                               f"{o['precision']}, model {wantp}", replay)
            fin = {k: obs["final"][k] for k in keys}
            if obs["prim"] == "probs":
                fin["ms"] = rep["final"]["ms"]
            if fin != rep["final"]:
                return ("broken", "job:model-vs-code", f"configuration left behind: code {fin}, model "
                                                       f"{rep['final']}", replay)
    # the converter calls: keywords and, where the count is deduced from them, the exact total
    if "raise" not in obs:
        got_kw = [[entry_of(c["kw"], "max_samples"), entry_of(c["kw"], "max_shots")] for c in obs["conv"]]
        if got_kw != rep["conv"]:
            return ("broken", "job:model-vs-code", f"converter keywords: code {got_kw}, model {rep['conv']}", replay)
        if any(set(c["kw"]) - {"max_samples", "max_shots"} for c in obs["conv"]):
            return ("broken", "job:model-vs-code", f"converter keywords {obs['conv']}", replay)
        if rep["takesKw"]:
            for k, (c, n) in enumerate(zip(obs["conv"], rep["count"])):
                if c["total"] != n:
                    return ("violation" if n < c["total"] else "broken", "job:converted-total",
                            f"{c['name']}(**{c['kw']}) handed back {c['total']} samples, the request is {n}", replay)
    return None


def gen_job_case(rng):
    kind = rng.choice(["samples", "probs"])            # the backend: Clifford2017 (samples) or SLOS (probs)
    natural = kind
    cfg = {"ms": None, "sh": rng.choice([None, None, 1, 3, 7, 20]), "filter": rng.choice([0, 1]),
           "input": rng.randrange(len(IT_INPUTS)), "noise": rng.choice([0, 0, 0, 1]),
           "params": [rng.randrange(len(IT_PARAM_VALUES)) for _ in range(2)]}
    method = rng.choice(["samples", "sample_count", "probs"])
    its = []
    if rng.random() < 0.35:
        for _ in range(rng.choice([1, 2, 3])):
            its.append({"ms": rng.choice([None, None, 2, 9]), "sh": rng.choice([None, None, 1, 4, 12]),
                        "filter": rng.choice([None, None, 0, 1]), "input": rng.choice([None, None, 0, 1, 2]),
                        "noise": None, "params": rng.choice([None, [[0, rng.randrange(4)], [1, rng.randrange(4)]]])})
    r = rng.random()
    vals = [0, 1, 5, 15, 40]
    args = [] if r < 0.3 else [rng.choice(vals)] if r < 0.8 else [None] if r < 0.85 else \
        [rng.choice(vals), rng.choice(vals)] if r < 0.93 else [rng.choice(vals) for _ in range(3)]
    kw = {"ms": [], "sh": [], "other": rng.random() < 0.03}
    if rng.random() < (0.5 if not args else 0.08):
        kw["ms"] = [rng.choice(vals + [None])]
    if rng.random() < 0.12:
        kw["sh"] = [rng.choice([2, 6, None])]
    avail = None
    if rng.random() < 0.15:
        avail = rng.choice([[], ["sample_count"], ["probs", "samples"], ["samples", "probs"],
                            ["sample_count", natural], [natural, "sample_count"]])
    case = {"kind": kind, "method": method, "cfg": cfg, "its": its, "as_list": rng.random() < 0.5, "args": args,
            "kw": kw, "avail": avail, "max_samples": None}
    # keep the job finite and cheap: a sampling request needs a limit (the documented RuntimeError is kept at a
    # low rate), and 10000 shots through the Python loop only now and then
    unlimited = kind == "samples" and cfg["sh"] is None and (
        (method != "probs" and not args and not kw["ms"]) or (args[:1] == [None]) or kw["ms"] == [None])
    if unlimited and rng.random() < 0.85:
        cfg["sh"] = rng.choice([1, 3, 7, 20])
    if kind == "samples" and method == "probs" and cfg["sh"] is None and (cfg["noise"] or cfg["filter"]) \
            and rng.random() < 0.8:
        cfg["sh"] = 20
    return case


def shrink_job(chk, case, sig):
    cur = case
    for _ in range(8):
        cands = []
        if cur["its"]:
            cands += [dict(cur, its=cur["its"][:i] + cur["its"][i + 1:]) for i in range(len(cur["its"]))]
        if cur["avail"] is not None:
            cands.append(dict(cur, avail=None))
        for k in ("ms", "sh"):
            if cur["kw"][k]:
                cands.append(dict(cur, kw=dict(cur["kw"], **{k: []})))
        if cur["kw"]["other"]:
            cands.append(dict(cur, kw=dict(cur["kw"], other=False)))
        if cur["args"]:
            cands.append(dict(cur, args=cur["args"][:-1]))
        if cur["cfg"]["noise"]:
            cands.append(dict(cur, cfg=dict(cur["cfg"], noise=0)))
        if cur["cfg"]["filter"]:
            cands.append(dict(cur, cfg=dict(cur["cfg"], filter=0)))
        for c in cands:
            try:
                res = judge_job(chk, c, count=False)
            except Exception:  # noqa: BLE001
                res = None
            if res is not None and res[1] == sig:
                cur = c
                break
        else:
            break
    return cur


def job_primitive_choice(chk):
    """_get_primitive_converter for every method and every ordered list of offered commands (exhaustive)."""
    import perceval as pcvl
    from perceval.algorithm import Sampler
    from perceval.components.processor import Processor
    cmds = ["probs", "sample_count", "samples"]
    lists = [list(p) for r in range(4) for p in itertools.permutations(cmds, r)]
    p = pcvl.Processor("SLOS", pcvl.Circuit(2) // pcvl.BS())
    s = Sampler(p)
    cfg = {"ms": None, "sh": None, "filter": 0, "input": 0, "noise": 0, "params": []}
    for avail in lists:
        for method in cmds:
            with mock.patch.object(Processor, "available_commands", new_callable=mock.PropertyMock,
                                   return_value=list(avail)):
                prim, conv = s._get_primitive_converter(method)
            replay = {"part": "job-choice"}
            chk.case(("J0", tuple(avail), method), nontrivial=len(avail) >= 2)
            if prim is None:
                chk.branch("job-no-primitive")
            # direct oracle: an offered command, the method itself when offered, and the converter that goes with it
            name = None if conv is None else conv.__name__
            ok = (prim is None and not avail) or (prim in avail and (method not in avail or prim == method)
                                                   and name == (None if prim == method else f"{prim}_to_{method}"))
            if not ok:
                chk.fail("violation", "job:primitive-choice", f"{method} among {avail}: primitive {prim}, converter "
                                                              f"{name}", replay)
                return
            rep = chk.lean.ask({"op": "job", "avail": avail, "method": method, "cfg": cfg, "its": [], "args": [],
                                "kw": {"ms": [], "sh": [], "other": False}})
            if rep.get("prim") != prim:
                chk.fail("broken", "job:model-vs-code", f"primitive for {method} among {avail}: code {prim}, model "
                                                        f"{rep.get('prim')}", replay)
                return
    chk.branch("job-primitive-choice-exhaustive")


def job_part(chk, n):
    found = {}
    job_primitive_choice(chk)
    for _ in range(n):
        case = gen_job_case(chk.rng)
        res = judge_job(chk, case)
        chk.case(("J", json.dumps(case, sort_keys=True)), nontrivial=bool(case["args"] or case["kw"]["ms"]))
        if res is not None and (res[0], res[1]) not in found:
            small = shrink_job(chk, case, res[1])
            res2 = judge_job(chk, small, count=False)
            found[(res[0], res[1])] = res2 if res2 is not None and res2[1] == res[1] and res2[0] == res[0] else res
    if any(k == "violation" for k, _sig in found):
        found = {key: v for key, v in found.items() if key[0] == "violation"}
    for v in found.values():
        chk.fail(*v)


# ================================================================================================
# H. the emission table of ONE long-lived Source over a history of requests (one-slot cache)
# ================================================================================================
def source_history_part(chk, n_series):
    """`Source.generate_samples` keeps the table of emission events of the last (photon number, photon filter); over
    a history of 6-12 requests on one Source the table in use must be the one a fresh Source computes for the current
    request (theorem slot_cache_transparent evaluated on the real code), and every emitted state must hold at least
    `filter` photons on the right number of modes."""
    import perceval as pcvl
    from perceval.components.source import Source
    from perceval.utils import BasicState
    rng = chk.rng
    inputs = [[1], [1, 1], [1, 0, 1], [2, 0], [1, 1, 1], [0, 1]]
    for _ in range(n_series):
        nz = {"brightness": rng.choice([0.9, 0.6, 0.3]), "transmittance": rng.choice([1.0, 0.8]),
              "g2": rng.choice([0.0, 0.05, 0.2]), "indistinguishability": rng.choice([1.0, 0.9]),
              "g2_distinguishable": rng.random() < 0.5}
        src = Source.from_noise_model(noise_model(nz))
        steps, prev = [], None
        for _k in range(rng.randint(6, 12)):
            if prev is not None and rng.random() < 0.3:
                inp, f = prev                                   # same question again: the slot answers
            elif prev is not None and rng.random() < 0.5:
                inp = prev[0]                                   # same photon number, another filter
                f = rng.choice([x for x in range(0, sum(inp) + 1) if x != prev[1]] or [prev[1]])
            else:
                inp = rng.choice(inputs)
                f = rng.randint(0, sum(inp))
            steps.append([inp, f])
            prev = (inp, f)
        seed = rng.randrange(2 ** 31)
        replay = {"part": "source-history", "noise": nz, "steps": steps, "seed": seed}
        pcvl.random_seed(seed)
        last = None
        bad = None
        for j, (inp, f) in enumerate(steps):
            out = src.generate_samples(25, BasicState(inp), f)
            key = (sum(inp), f)
            if f > 0:
                fresh = Source.from_noise_model(noise_model(nz))._compute_prob_table(sum(inp), f)[0]
                if (src._prob_table_n, src._prob_table_filter) != key or dict(src._prob_table) != dict(fresh):
                    bad = (j, f"step {j}: generate_samples({inp}, filter {f}) draws from the table of "
                              f"(n={src._prob_table_n}, filter={src._prob_table_filter})"
                              f"{'' if dict(src._prob_table) != dict(fresh) else ' (same content)'}")
                if last == key:
                    chk.branch("source-table-reused")
                elif last is not None and last[0] == key[0]:
                    chk.branch("source-table-replaced-for-another-filter")
                elif last is not None:
                    chk.branch("source-table-replaced-for-another-photon-number")
                last = key
            else:
                chk.branch("source-request-without-table")
            for st in out:
                if st.m != len(inp) or st.n < f:
                    bad = (j, f"step {j}: generate_samples({inp}, filter {f}) emitted {st}")
                    break
            if bad:
                break
        chk.case(("H", json.dumps(nz, sort_keys=True), json.dumps(steps)), nontrivial=True)
        if bad:
            chk.fail("violation", "source:emission-depends-on-history", bad[1], dict(replay, steps=steps[:bad[0] + 1]))


# ================================================================================================
# run / replay
# ================================================================================================
def load_corpus():
    import glob
    out = []
    for p in sorted(glob.glob(os.path.join(core.VERIF, "corpus", "C09", "*.json"))):
        out.append(json.load(open(p)))
    return out


def replay_one(chk, rp):
    part = rp.get("part")
    if part == "scripted":
        handle_scripted(chk, rp["case"], label="replay")
    elif part == "p2sc":
        handle_p2sc(chk, rp["case"])
    elif part == "perfect":
        perfect_path(chk, [rp["n"]])
    elif part == "totals":
        # the stored seed first, then its successors (the stored one depends on numpy's / CPython's generators)
        for k in range(200):
            res = judge_totals(chk, dict(rp["case"], seed=(rp["case"]["seed"] + k) % 2 ** 32))
            if res is not None:
                break
        chk.case(("T", "replay", rp["case"]["seed"], len(rp["case"]["w"])), nontrivial=True)
        if res is not None:
            chk.fail(*res)
    elif part == "strong":
        for k in range(200):
            res = judge_strong(chk, rp["spec"], rp["via"], rp["ms"], rp["sh"], (rp["seed"] + k) % 2 ** 32)
            if res is not None:
                break
        chk.case(("S", "replay", rp["seed"]), nontrivial=True)
        if res is not None:
            chk.fail(*res)
    elif part == "limits":
        # the request is for a handful of random samples: repeat it under successive seeds
        import perceval as pcvl
        res = None
        for k in range(400):
            pcvl.random_seed(k)
            res = judge_limits(chk, rp["spec"], rp["ms"], rp["sh"], rp["via"])
            if res is not None:
                break
        chk.case(("L", "replay"), nontrivial=True)
        if res is not None:
            chk.fail(*res)
    elif part == "gof":
        r = gof_worker((rp["spec"], rp["via"], rp["n"], rp["seed"]))
        res = judge_gof(chk, r)
        chk.case(("E", "replay"), nontrivial=True)
        if res is not None:
            chk.fail(*res)
    elif part == "det-series":
        runs = [run_detector_series(c, rp["n"]) for c in rp["cases"]]
        res = None
        for c, r in zip(rp["cases"], runs):
            res, _ = judge_detector_runs(chk, c, rp["n"], r, rp)
            if res is not None:
                break
        chk.case(("E3", "replay"), nontrivial=True)
        if res is not None:
            chk.fail(*res)
    elif part == "series":
        rs = run_series_isolated(rp["series"], rp["n"], rp["seed"])
        res, _ = judge_series(chk, rp["series"], rs, rp["n"], rp["seed"])
        chk.case(("E4", "replay"), nontrivial=True)
        if res is not None:
            chk.fail(*res)
    elif part == "source-gof":
        res = judge_source_gof(chk, rp["noise"], rp["input"], rp["filter"], rp["n"], rp["seed"], rp)
        chk.case(("E2", "replay"), nontrivial=True)
        if res is not None:
            chk.fail(*res)
    elif part == "seed":
        seed_part(chk, [rp.get("seed", 0), (rp.get("seed", 0) + 1) % 2 ** 32], only=rp.get("path"))
    elif part == "replayrec":
        # the draws are random: the stored seed first, then its successors
        res = None
        for k in range(40):
            res = judge_replay(chk, dict(rp["case"], seed=(rp["case"]["seed"] + k) % 2 ** 31), count=(k == 0))
            if res is not None:
                break
        chk.case(("F", "replay", rp["case"]["seed"]), nontrivial=True)
        if res is not None:
            chk.fail(*res)
    elif part == "provconst":
        provider_constants(chk)
    elif part == "source-history":
        source_history_part(chk, 5)
    elif part == "iterations":
        res = judge_iter(chk, rp["case"])
        chk.case(("G", "replay"), nontrivial=True)
        if res is not None:
            chk.fail(*res)
    elif part == "job-choice":
        job_primitive_choice(chk)
    elif part == "job":
        res = judge_job(chk, rp["case"])
        chk.case(("J", "replay"), nontrivial=True)
        if res is not None:
            chk.fail(*res)
    elif part == "drawing":
        res = judge_drawing(chk, rp["case"])
        chk.case(("D", "replay"), nontrivial=True)
        if res is not None:
            chk.fail(*res)
    elif part == "s2p":
        drawing_part(chk, 0)
    elif part in ("count", "c2p"):
        conversions(chk, 50)
    else:
        raise ValueError(f"unknown replay part {part}")


def silence_logger():
    try:
        from perceval.utils.logging import get_logger, channel, level
        for ch in (channel.user, channel.general, channel.resources):
            get_logger().set_level(level.off, ch)
    except Exception:  # noqa: BLE001
        pass


def run(chk: core.Check):
    silence_logger()
    chk.rule = (
        "A: scripted NoisySamplingSimulator.samples runs (outcome script x batch-size script x cancel script x "
        "(max_samples, max_shots) x filter x source/distribution route), distinct = distinct scripts, non-trivial "
        "= at least 2 shots taken; B: probs_to_sample_count cases (table, perturbation, count, pick stream), "
        "non-trivial = >= 2 states and count >= 2; B2: (table, request, keyword form, seed) with the real generators; "
        "C2: (strong-simulation processor, entry point, max_samples, max_shots_per_call, seed); "
        "C: (processor, entry point, max_samples, max_shots) with both "
        "limits in {0,1,2,5,17,None}; D: (random path, seed, fresh / long-lived objects); E: (processor, entry "
        "point) goodness-of-fit tests, non-trivial = >= 1000 samples; E3: (Fock state, series of detector lists); "
        "E4: (series of processor configurations, mode)")
    chk.assumptions = [
        "the scripted backend/source replace only the random draws; every line of compute_samples, "
        "_compute_samples_with_perf, _prepare_provider, SamplesProvider and _noisy_sampling runs for real",
        "E is a statistical TEST, not a proof: it cannot distinguish distributions closer than the stated "
        "finite-sample bounds; the reference is Processor('SLOS').probs(precision=0) of the same experiment, "
        "trusted within 1e-9 per outcome (its own correctness is C03/C04)",
        "bit-for-bit reproducibility is claimed for the Python-layer random paths only, not for the native "
        "multi-threaded bulk sampler (Processor.samples is compared bit for bit only on a circuit that re-routes "
        "modes, where that sampler has nothing to decide); distinguishability tags are compared up to renaming",
        "E3/E4: what a series can reveal is state that outlives one request inside ONE process, over series of 3-5 "
        "steps; the reference of every step is computed by fresh strong-simulation objects",
        "probs_to_sample_count cases whose exact value lies within 1e-6 of a rounding tie (and whose float "
        "arithmetic is not exact) are compared on totals only",
    ]
    chk.required_branches = [
        "stopped-by-max_samples", "stopped-by-max_shots", "cancelled", "raise:TypeError", "raise:IndexError",
        "no-loop (zero request)", "physically-rejected-shot", "logically-rejected-shot", "generator-asked-again",
        "shots-rescaled (filter>=2)", "distribution-route", "perfect-fast-path", "scripted-post-selection",
        "physically-rejected-shot-with-photon-heralds", "scripted-performance-oracle",
        "scripted-shot-failing-both-tests",
        "p2sc-done", "p2sc-done-fallback", "p2sc-empty", "p2sc-needPicks", "count-from-keywords",
        "samples->counts", "counts->probs",
        "p2sc-many-states", "p2sc-excess-exceeds-largest-count", "p2sc-excess-spread-over-several-states",
        "p2sc-deficit-of-several-units",
        "totals-p2sc-rounded", "totals-p2sc-fallback", "totals-excess-exceeds-largest-count",
        "totals-excess-of-several-units", "totals-deficit-of-several-units",
        "strong-sample_count", "strong-samples", "strong-request-of-the-order-of-the-outcomes",
        "strong-balanced-interferometer",
        "seed-boundary-value-0", "seed-boundary-value-1", "seed-boundary-value-%d" % (2 ** 32 - 1),
        "limits-bound-reached", "limits-empty", "limits-exact-count", "limits-rejected-None-max_samples",
        "limits-rejected-no-limit", "seed-path",
        "gof-perfect", "gof-selected", "gof-noisy", "gof-noisy-selected", "gof-detectors", "gof-everything",
        "gof-tagged-inputs", "gof-backend-retuned", "gof-performances", "gof-source-emission", "gof-source-g2", "gof-source-tagged",
        "gof-source-filtered",
        "gof-bunching-selected", "gof-performances-filter>=2", "gof-performances-shots-failing-both-tests",
        "det-series-step", "det-series-same-name-other-parameters", "det-series-same-description-new-objects",
        "series-step-detectors", "series-step-mutate", "series-step-fresh",
        "series-mutate-filter", "series-mutate-noise", "series-mutate-ps", "series-mutate-input",
        "seed-path-fresh-objects", "seed-path-long-lived-objects",
        "source-table-reused", "source-table-replaced-for-another-filter",
        "source-table-replaced-for-another-photon-number", "source-request-without-table",
        "iterations-samples", "iterations-probs", "iterations-under-max_shots_per_call", "iterations-own-max_shots",
        "iterations-own-max_samples", "iterations-parameters-back-to-default", "iterations-noise",
        "iterations-three-or-more", "iterations-raise:RuntimeError",
        "drawing-sample", "drawing-p2s", "drawing-sc2s", "drawing-vacuum-left-out",
        "drawing-count-from-table-total", "drawing-raise:RuntimeError", "samples->probs", "roundtrip-counts-probs-counts",
        "replay-provider-constants", "replay-path:loop", "replay-path:fast", "replay-path:none",
        "replay-source-route", "replay-distribution-route", "replay-generator-asked-again", "replay-pool-refilled",
        "replay-pool-refilled-twice", "replay-tagged-input-merged", "replay-detector-draws",
        "replay-threshold-detectors", "replay-physical-rejection", "replay-logical-rejection",
        "replay-heralded-modes-removed", "replay-heralded-modes-kept", "replay-stopped-by-shots",
        "replay-stopped-by-samples", "replay-shots-rescaled", "replay-vacuum-input",
        "job-samples-via-samples", "job-samples-via-probs", "job-sample_count-via-samples",
        "job-sample_count-via-probs", "job-probs-via-samples", "job-probs-via-probs", "job-iterated",
        "job-iterated-conversion-own-limits", "job-keyword-max_samples", "job-surplus-positional",
        "job-conversion-under-max_shots_per_call", "job-no-primitive",
        "job-primitive-choice-exhaustive",
        "job-raise:RuntimeError", "job-raise:IndexError", "job-raise:AttributeError",
    ]
    chk.lean = core.LeanDriver("C09")
    rng = chk.rng
    for rp in load_corpus():
        replay_one(chk, rp.get("replay", rp))
    import time
    secs = {}

    def timed(name, fn, *a):
        t = time.time()
        fn(*a)
        secs[name] = round(secs.get(name, 0) + time.time() - t, 1)

    # A
    timed("A exhaustive scripted", exhaustive_scripted, chk, chk.pick(5, 7))

    def random_scripted():
        n_rand = chk.pick(1500, 12000)
        cases = [gen_scripted(rng, big=(i % 4 == 0)) for i in range(n_rand)]
        prepare_scripted(chk, cases)
        reps = chk.lean.ask_many([lean_req_scripted(c) for c in cases])
        for c, r in zip(cases, reps):
            handle_scripted(chk, c, r)

    timed("A random scripted", random_scripted)
    timed("A perfect path", perfect_path, chk,
          [1, 2, 999, 1000, 1001, 2000, 2500, 3001] + [rng.randint(1, 6000) for _ in range(chk.pick(6, 40))])

    # B
    def p2sc_part():
        for i in range(chk.pick(1500, 12000)):
            handle_p2sc(chk, gen_p2sc_crowded(rng) if i % 5 == 4 else gen_p2sc(rng))

    timed("B probs_to_sample_count", p2sc_part)
    timed("B conversions", conversions, chk, chk.pick(300, 2000))
    timed("B3 drawing conversions", drawing_part, chk, chk.pick(600, 5000))
    timed("B2 totals (real generators)", totals_part, chk, chk.pick(3000, 20000))
    # F
    timed("F exact replay of recorded draws", replay_part, chk, chk.pick(400, 3000))
    timed("G Sampler iterations", iterations_part, chk, chk.pick(250, 1500))
    timed("H one Source over a history of requests", source_history_part, chk, chk.pick(60, 400))
    timed("J Sampler job glue (primitive, parameters, converter)", job_part, chk, chk.pick(150, 2500))
    # C
    timed("C limits", limits_part, chk, chk.pick(6, 24))
    timed("C2 Sampler on strong simulation", strong_part, chk, chk.pick(16, 60), chk.pick(60, 120))
    # D
    timed("D seeds", seed_part, chk,
          BOUNDARY_SEEDS + [chk.seed * 1000 + 2 + i for i in range(chk.pick(3, 10))] + [rng.randrange(2 ** 32)])
    # E
    # the worker processes of E and E4 run while the main process does E2 and E3
    nproc = max(1, min(chk.pick(8, 10), (os.cpu_count() or 2) - 1))
    gof_handle = gof_start(chk, chk.pick(18, 112), chk.pick(8000, 80000), nproc, chk.pick(4, 16))
    series_handle = series_start(chk, chk.pick(5, 15), chk.pick(8000, 30000), chk.pick(5, 5))
    timed("E2 source emission", source_gof_part, chk, chk.pick(18, 60), chk.pick(50000, 150000))
    timed("E3 detector stage, series of detector sets", detector_series_part, chk, chk.pick(6, 30),
          chk.pick(2000, 5000))
    timed("E4 series of processors in one process (wait)", series_finish, chk, series_handle)
    timed("E goodness of fit (wait)", gof_finish, chk, gof_handle)
    chk.extra["part_seconds"] = secs
    chk.extra["statistical_test"] = {
        "label": "VALIDATION (statistical test, not proof)",
        "false_alarm_per_run": ALPHA_RUN, "bonferroni_denominator": MAX_TESTS, "alpha_per_test": ALPHA_TEST,
        "reference_slack_per_outcome": ETA,
        "bounds": "two-sided Chernoff/KL bound per binomial cell; Bretagnolle-Huber-Carol on the L1 distance; "
                  "Hoeffding for the performances"}
    assert chk.extra.get("gof_tests", 0) <= MAX_TESTS
    chk.exhaustive = False


def replay(chk, data):
    silence_logger()
    chk.lean = core.LeanDriver("C09")
    chk.rule = "replay of one stored case"
    replay_one(chk, data["replay"])
